#!/usr/bin/env python3
"""Rewrites <!-- AXIOMS-BEGIN --> … <!-- AXIOMS-END --> in DESIGN.md from evidence/*.json (Print Assumptions of every property theorem)."""
import json, os, glob, re
HERE = os.path.dirname(os.path.dirname(os.path.abspath(__file__)))
rows, tot, closed = [], 0, 0
axs = set()
for f in sorted(glob.glob(os.path.join(HERE, 'evidence', 'C??.json'))):
    e = json.load(open(f)); pa = e['coverage'].get('print_assumptions', {})
    n = len(pa); c = sum(1 for v in pa.values() if not v)
    tot += n; closed += c
    using = sorted(t for t, v in pa.items() if v)
    for v in pa.values(): axs.update(v)
    if using:
        rows.append('  * %s: %d of %d theorems use them: %s' % (e['property_id'], len(using), n, ', '.join('`%s`' % t for t in using)))
out = ['* `Print Assumptions` (run by the check on every theorem of every property file; figures from the evidence of the last run):',
       '  **%d of %d** property theorems are *closed under the global context*; the other %d depend on exactly' % (closed, tot, tot - closed),
       '  ' + ', '.join('`%s`' % a for a in sorted(axs)) + ' (the standard library\'s construction of R):'] + rows
block = '<!-- AXIOMS-BEGIN -->\n' + '\n'.join(out) + '\n<!-- AXIOMS-END -->'
p = os.path.join(HERE, 'DESIGN.md'); s = open(p).read()
s = re.sub(r'<!-- AXIOMS-BEGIN -->.*?<!-- AXIOMS-END -->', lambda m: block, s, flags=re.S)
open(p, 'w').write(s); print('\n'.join(out))
