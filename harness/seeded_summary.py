#!/usr/bin/env python3
import json, os, glob
HERE = os.path.dirname(os.path.dirname(os.path.abspath(__file__)))
def rnd(k):
    return 1 if k <= 3 else (k - 4) // 2 + 2      # r1: 1-3, r2: 4-5, r3: 6-7, ...
r = {}
miss_first, miss_now, outside = [], [], []
def key(d):
    b = os.path.basename(d); p, k = b.split('-'); return (p, int(k))
for d in sorted(glob.glob(os.path.join(HERE, 'seeded', 'C*-*')), key=key):
    m = json.load(open(os.path.join(d, 'meta.json')))
    pid = m['breaks']; k = int(os.path.basename(d).split('-')[1]); rd = rnd(k)
    if m.get('judged_outside'):
        outside.append(os.path.basename(d)); continue
    f = (m.get('first_eval') or m.get('checks', {}).get(pid) or {}).get('rc') == 1
    n = (m.get('checks', {}).get(pid) or {}).get('rc') == 1
    t = r.setdefault(rd, [0, 0, 0])
    t[0] += 1; t[1] += f; t[2] += n
    if not f: miss_first.append(os.path.basename(d))
    if not n: miss_now.append(os.path.basename(d))
tot = [0, 0, 0]
for rd in sorted(r):
    print('round %d: %3d seeds, %3d caught at first evaluation (%2d%%), %3d caught by the current checks' % (rd, r[rd][0], r[rd][1], round(100 * r[rd][1] / max(r[rd][0], 1)), r[rd][2]))
    tot = [a + b for a, b in zip(tot, r[rd])]
print('all     : %3d seeds, %3d caught at first evaluation (%2d%%), %3d caught by the current checks' % (tot[0], tot[1], round(100 * tot[1] / max(tot[0], 1)), tot[2]))
print('missed at first evaluation:', ' '.join(miss_first))
print('missed now:', ' '.join(miss_now) or '(none)')
print('judged not to violate the property they were written for (kept, not counted):', ' '.join(outside) or '(none)')
