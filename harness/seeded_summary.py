#!/usr/bin/env python3
import json, os, glob
HERE = os.path.dirname(os.path.dirname(os.path.abspath(__file__)))
r = {1: [0, 0, 0], 2: [0, 0, 0]}   # total, first caught, now caught
miss_first, miss_now = [], []
for d in sorted(glob.glob(os.path.join(HERE, 'seeded', 'C*-*'))):
    m = json.load(open(os.path.join(d, 'meta.json')))
    pid = m['breaks']; k = int(os.path.basename(d).split('-')[1]); rd = 1 if k <= 3 else 2
    f = (m.get('first_eval') or m.get('checks', {}).get(pid) or {}).get('rc') == 1
    n = (m.get('checks', {}).get(pid) or {}).get('rc') == 1
    r[rd][0] += 1; r[rd][1] += f; r[rd][2] += n
    if not f: miss_first.append(os.path.basename(d))
    if not n: miss_now.append(os.path.basename(d))
for rd in (1, 2):
    print('round %d: %d seeds, %d caught at first evaluation, %d caught by the current checks' % (rd, *r[rd]))
print('missed at first evaluation:', ' '.join(miss_first))
print('missed now:', ' '.join(miss_now))
