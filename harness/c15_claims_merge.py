#!/usr/bin/env python3
"""Builds build/claims_update/C15.json from the kernel part (written here) and build/claims_update/C15_lift.json."""
import json, os
HERE = os.path.dirname(os.path.dirname(os.path.abspath(__file__)))
l = json.load(open(os.path.join(HERE, 'build/claims_update/C15_lift.json')))
kern_text = ("KERNEL PART. Machine-checked proof (Coq) about the numeric kernels REGENERATED from sc3/base/builtins.py on every run by the fail-closed "
 "Python-ast translator (Gen_builtins: numbers are int | ideal float (rational) | error, with Python's int/float promotion, floor division and modulo; "
 "Gen_builtinsR: the transcendental kernels over Coq reals). Theorems, for ALL arguments: mod is in [0, b) for b > 0; wrap lands in [lo, hi) "
 "(float) / [lo, hi] (int), fold and clip land in [lo, hi]; clip is idempotent; round / roundup / trunc return a multiple of the quantum that is "
 "the nearest / the least not below / the greatest in magnitude not beyond the input - each stated twice: over pure floats (Q) and over EVERY mix "
 "of int and float arguments of the regenerated code (num), so the int fast paths and the promotion rules are covered; the integer kernels are exactly "
 "Z.modulo and Z.div for a positive divisor (Python floor semantics); midicps/cpsmidi, midiratio/ratiomidi, octcps/cpsoct and dbamp/ampdb are mutual "
 "inverses over R on their domains. Tie: the regenerated kernels are evaluated by vm_compute and compared EXACTLY with the real functions on a dyadic grid "
 "(ints, floats and mixed; magnitudes up to 2^16 with 10 fractional bits, degree-3 polynomial kernels up to 64, so that no float rounding occurs; distort and "
 "softclip, which contain one true division, are compared up to correct rounding), every kernel with every argument kind; model-free law probes (range, multiple, "
 "inverse laws on random floats incl. off-grid values) search for a failing input. Three defects found by this part are repaired in sc3 (see known_findings.json). ")
u = {'text': kern_text + l['text'],
     'technique': 'Coq proof over kernels regenerated from source by a fail-closed translator (exact dyadic-grid correspondence) and over a hand-written executable model of the lifting dispatch (exact operand-tree correspondence on real objects); model-free law probes search for failing inputs',
     'note': ('Floats are modelled as rationals (exact on the dyadic grid; binary64 rounding off the grid and libm are not verified; the law probes cover off-grid floats as a test). '
              'The inverse-law theorems are over R and rely on the four standard-library real-number axioms (sig_forall_dec, sig_not_dec, functional_extensionality_dep, classic). '
              'NaN/inf, complex numbers and -0.0 are outside the model. ' + l['note']),
     'ref': 'DESIGN.md section 5 C15 and 11, notes/C15.md, notes/C15_lift.md',
     'row': {'proof_core': 'On REGENERATED kernels, all int/float mixes: mod/wrap/fold/clip range laws, clip idempotent, round/roundup/trunc multiples on the right side, int kernels = Z.modulo/Z.div, four inverse pairs over R. Lifting: ' + l['row']['proof_core'],
             'tie': 'translator every run + exact dyadic-grid evaluation of every kernel; ' + l['row']['tie'],
             'not_proved': 'binary64 rounding off the grid, libm, NaN/inf/-0.0 (law probes only). ' + l['row']['not_proved']}}
json.dump(u, open(os.path.join(HERE, 'build/claims_update/C15.json'), 'w'), indent=1)
