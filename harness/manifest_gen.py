#!/usr/bin/env python3
"""Regenerates /verif/MANIFEST.json from the table below (run after adding a property)."""
import json, os
HERE = os.path.dirname(os.path.dirname(os.path.abspath(__file__)))

COMMON_NOTE = ('Trusted: Coq 8.16.1 kernel/coqc/vm_compute (no native_compute), the Coq standard library, the harness '
               '(generators, canonicalisation, subprocess runner), and for hand-written models the differential '
               'correspondence as the only tie to the code. ')

CLAIMS = json.load(open(os.path.join(HERE, 'harness', 'claims.json')))   # per property: text, technique, note, ref, optional hold

REASON_PENDING = 'check not built yet (work in progress; see DESIGN.md section 10 for the build order)'


def main():
    props = [json.loads(l) for l in open(os.path.join(HERE, 'properties.jsonl'))]
    built = [p['id'] for p in props if p['id'] in CLAIMS and os.path.exists(os.path.join(HERE, 'harness/props/%s.py' % p['id']))
             and not CLAIMS[p['id']].get('hold')]
    m = {
     'version': 1,
     'setup_cmd': './setup.sh',
     'hooks': {'guard': 'SC3_VERIF',
               'enable': 'no hooks: checks import /repo\'s working tree directly (PYTHONPATH=/repo) and replace class attributes from the harness process',
               'baseline_off_cmd': 'cd /repo && /venv/bin/python -m pytest -ra -q -p no:cacheprovider --timeout=900 --continue-on-collection-errors',
               'source_commits': [], 'add_only': True},
     'engines': [{'name': 'coq-proof', 'path': 'coq/', 'serves_properties': built,
                  'kind_free_text': 'Coq 8.16.1 development: executable models (coq/model; coq/gen regenerated from /repo on every run by harness/translator), lemmas (coq/proofs), property theorems (coq/props); driver ./check = regenerate, re-prove, Print Assumptions, model/implementation correspondence, search for a failing input'}],
     'checks': [],
     'notes': 'See DESIGN.md (design, trusted base, findings) and notes/Cxx.md (as-built record per property). known_findings.json lists genuine defects found (fixed in /repo by fix: commits, or recorded).',
     'not_applicable': [],
    }
    for p in props:
        pid = p['id']
        if pid in built:
            c = CLAIMS[pid]
            m['checks'].append({
             'property_id': pid,
             'quick_cmd': './check %s --tier quick' % pid,
             'thorough_cmd': './check %s --tier thorough' % pid,
             'evidence_file': 'evidence/%s.json' % pid,
             'replay_cmd_template': './check %s --replay {path}' % pid,
             'engine': 'coq-proof',
             'level_claimed': {'category': 'proof', 'text': c['text'], 'design_ref': c['ref']},
             'level_note': COMMON_NOTE + c['note'],
             'technique': c['technique'],
            })
        else:
            m['not_applicable'].append({'property_id': pid, 'reason': CLAIMS.get(pid, {}).get('hold') or REASON_PENDING})
    json.dump(m, open(os.path.join(HERE, 'MANIFEST.json'), 'w'), indent=1)
    print('claimed:', built)


if __name__ == '__main__':
    main()
