#!/usr/bin/env python3
"""Regenerates /verif/MANIFEST.json from the table below (run after adding a property)."""
import json, os
HERE = os.path.dirname(os.path.dirname(os.path.abspath(__file__)))

COMMON_NOTE = ('Trusted: Coq 8.16.1 kernel/coqc/vm_compute (no native_compute), the Coq standard library, the harness '
               '(generators, canonicalisation, subprocess runner), and for hand-written models the differential '
               'correspondence as the only tie to the code. ')

CLAIMS = {
 'C09': dict(
  text='Machine-checked proof (Coq): an executable model of TaskQueue (sc3/base/_taskq.py, heapq by specification) is proved, by induction over ALL operation histories and for every arrangement of the heap list, to satisfy its representation invariant and to refine a sorted-list priority queue; the property clauses (non-decreasing pops, FIFO on ties, at most once, re-add as latest, remove frames others, emptiness/earliest/latest agree with contents) are corollaries. The model is tied to the code on every run by differential correspondence on generated histories (tie-heavy priorities, tombstones) against the real class; a reference sorted-list queue searches for a failing history when anything breaks.',
  technique='Coq proof: invariant + refinement to sorted-list spec over all histories; model/implementation correspondence by vm_compute',
  note='CPython heapq/min/max/sorted/itertools.count/dict modelled by specification; NaN/inf priorities and threads not modelled.',
  ref='DESIGN.md section 5 C09, notes/C09.md'),
 'C12': dict(
  text='Machine-checked proof (Coq) about definitions REGENERATED from sc3/base/clock.py on every run by a fail-closed Python-ast to Gallina translator (29 TempoClock methods over int | ideal-float numbers): inverse beat/second conversions, invariants preserved by every setter over all histories, continuity of tempo/beats/etempo changes, grid congruence/not-before/minimality of next_time_on_grid, bar/beat inverses, next_bar laws, meter re-basing. The regenerated model is additionally executed against the real TempoClock in NRT on a dyadic grid (exact comparison), which also validates the translator; law probes on the implementation search for a concrete failing input when a proof breaks.',
  technique='Coq proof over a model regenerated from source by translator; exact dyadic-grid correspondence with the real TempoClock',
  note='Floats are modelled as rationals (exact on the dyadic grid used by the correspondence; binary64 rounding off the grid not verified). Translator trusted for the accepted subset; Quant.as_quant and the NRT wake-up are hand-modelled and tied by correspondence only; play_quant_schedules_on_grid is proved as _partial (scheduler step hand-modelled).',
  ref='DESIGN.md section 5 C12, notes/C12.md'),
 'C15': dict(
  text='Machine-checked proof (Coq) about numeric kernels REGENERATED from sc3/base/builtins.py on every run (translator to int | ideal-float numbers, and to Coq reals for the transcendental kernels): wrap/fold/clip/mod range laws, round/roundup/trunc multiples on the correct side for every mix of int and float arguments, and midi/cps, ratio/midi, oct/cps, amp/db mutual inverses over R. The regenerated kernels are executed against the real functions on a dyadic grid (exact). Operator lifting over functions/streams/patterns/lists is proved on a hand-written executable model tied by correspondence on real operand trees.',
  technique='Coq proof over kernels regenerated from source by translator; exact dyadic-grid correspondence; law probes to find failing inputs',
  note='Floats as rationals (exact on dyadic grid; binary64 rounding off-grid and libm not verified); R theorems rely on the standard library real-number axioms (sig_forall_dec, sig_not_dec, functional_extensionality_dep, classic).',
  ref='DESIGN.md section 5 C15, notes/C15.md', hold='check being completed (kernel half built; general int/float theorems and lifting half in progress)'),
}

REASON_PENDING = 'check not built yet (work in progress; see DESIGN.md section 10 for the build order)'


def main():
    props = [json.loads(l) for l in open(os.path.join(HERE, 'properties.jsonl'))]
    built = [p['id'] for p in props if p['id'] in CLAIMS and os.path.exists(os.path.join(HERE, 'harness/props/%s.py' % p['id']))
             and not CLAIMS[p['id']].get('hold')]
    m = {
     'version': 1,
     'setup_cmd': './setup.sh',
     'hooks': {'guard': 'SC3_VERIF',
               'enable': 'no hooks: checks import /repo\'s working tree directly (PYTHONPATH=/repo) and replace class attributes from the harness process',
               'baseline_off_cmd': 'cd /repo && /venv/bin/python -m pytest -ra -q -p no:cacheprovider --timeout=900 --continue-on-collection-errors',
               'source_commits': [], 'add_only': True},
     'engines': [{'name': 'coq-proof', 'path': 'coq/', 'serves_properties': built,
                  'kind_free_text': 'Coq 8.16.1 development: executable models (coq/model; coq/gen regenerated from /repo on every run by harness/translator), lemmas (coq/proofs), property theorems (coq/props); driver ./check = regenerate, re-prove, Print Assumptions, model/implementation correspondence, search for a failing input'}],
     'checks': [],
     'notes': 'See DESIGN.md (design, trusted base, findings) and notes/Cxx.md (as-built record per property). known_findings.json lists genuine defects found (fixed in /repo by fix: commits, or recorded).',
     'not_applicable': [],
    }
    for p in props:
        pid = p['id']
        if pid in built:
            c = CLAIMS[pid]
            m['checks'].append({
             'property_id': pid,
             'quick_cmd': './check %s --tier quick' % pid,
             'thorough_cmd': './check %s --tier thorough' % pid,
             'evidence_file': 'evidence/%s.json' % pid,
             'replay_cmd_template': './check %s --replay {path}' % pid,
             'engine': 'coq-proof',
             'level_claimed': {'category': 'proof', 'text': c['text'], 'design_ref': c['ref']},
             'level_note': COMMON_NOTE + c['note'],
             'technique': c['technique'],
            })
        else:
            m['not_applicable'].append({'property_id': pid, 'reason': CLAIMS.get(pid, {}).get('hold') or REASON_PENDING})
    json.dump(m, open(os.path.join(HERE, 'MANIFEST.json'), 'w'), indent=1)
    print('claimed:', built)


if __name__ == '__main__':
    main()
