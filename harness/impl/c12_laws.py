"""Direct probes of the C12 laws on the real sc3 TempoClock (NRT), used only to LOOK FOR a concrete
failing input when a proof, the translator or the correspondence broke.  Independent of the Coq
model: each law is the property's own text, checked with exact Fractions on dyadic inputs
(power-of-two tempi and meters, so binary64 arithmetic is exact).

Histories are tried shortest first (the empty history on a default clock, then one change, ...),
so the first hit of a law is close to a minimal failing input."""
import json, os, random, sys
from fractions import Fraction as Fr

import sc3
sc3.init(os.environ.get('SC3_MODE', 'nrt'))
import sc3.base.clock as clk
from sc3.base.clock import TempoClock, SystemClock, Quant
from sc3.base.stream import Routine

M = clk._libsc3.main
bad = []
CUR = {'init': []}


def rec(law, history, call, got, why):
    b = {'law': law, 'constructor': 'TempoClock%r' % (tuple(CUR['init']),), 'history': history, 'call': call,
         'got': got, 'why': why,
         'how': 'sc3.init("nrt"); create the clock and apply the history from a routine playing on it '
                '(["yield", d] = yield d), then make the call'}
    if len([x for x in bad if x['law'] == law]) < 2 and b not in bad:
        bad.append(b)


def is_int(x):
    return Fr(x).denominator == 1


QUANTS = [(1, 0), (1, 0.5), (1, -0.25), (4, 0), (4, 1), (4, -1), (4, 3.5), (4, -3.5), (3, 2), (3, -2),
          (1.5, 0.5), (1.5, -1.25), (0.5, 0.25), (5, -4), (2, 1.75)]
REFS = [0.0, 0.25, 1.0, 1.5, 3.0, 4.0, 7.75, 12.0, -2.5]


def probe_queries(c, hist):
    now = c.seconds
    b = c.beats
    t = c._tempo
    H = list(hist)
    try:
        # one affine map, inverse both ways, advancing at the current tempo
        for x in (0.0, 1.0, 2.5, -3.25, 10.0, b):
            if Fr(c.secs2beats(c.beats2secs(x))) != Fr(x):
                rec('beats_secs_inverse', H, 'secs2beats(beats2secs(%r))' % x, repr(c.secs2beats(c.beats2secs(x))), 'must be %r' % x)
            if Fr(c.beats2secs(c.secs2beats(x))) != Fr(x):
                rec('beats_secs_inverse', H, 'beats2secs(secs2beats(%r))' % x, repr(c.beats2secs(c.secs2beats(x))), 'must be %r' % x)
            for d in (0.5, 2.0):
                if Fr(c.secs2beats(x + d)) != Fr(c.secs2beats(x)) + Fr(d) * Fr(t):
                    rec('beats_advance_at_tempo', H, 'secs2beats(%r + %r)' % (x, d), repr(c.secs2beats(x + d)),
                        'must be secs2beats(%r) + %r * tempo (%r)' % (x, d, t))
        if Fr(c._beat_dur) * Fr(c._tempo) != 1:
            rec('TInv', H, '_beat_dur * _tempo', repr((c._beat_dur, c._tempo)), 'beat_dur * tempo must be 1')
        if Fr(b) != Fr(c.secs2beats(now)):
            rec('beats_is_secs2beats_now', H, 'beats', repr(b), 'must be secs2beats(seconds)')
        # the grid
        G = Fr(c._base_bar_beat)
        for q, p in QUANTS:
            for ref in REFS + [b, None]:
                g = c.next_time_on_grid(q, p) if ref is None else c.next_time_on_grid(q, p, ref)
                r = Fr(b) if ref is None else Fr(ref)
                call = 'next_time_on_grid(%r, %r%s)' % (q, p, '' if ref is None else ', %r' % ref)
                if not is_int((Fr(g) - G - Fr(p)) / Fr(q)):
                    rec('grid_congruent', H, call, repr(g), 'result - base_bar_beat(%r) - phase must be a multiple of quant' % float(G))
                elif Fr(g) < r:
                    rec('grid_not_before_ref', H, call, repr(g), 'result is before the reference beat %r' % float(r))
                elif Fr(g) >= r + Fr(q):
                    rec('grid_minimal', H, call, repr(g), 'an earlier grid point %r is not before the reference beat %r' % (float(Fr(g) - Fr(q)), float(r)))
            d = c.time_to_next_beat(Quant(q, p))
            if not (0 <= Fr(d) < Fr(q)) or Fr(d) != Fr(c.next_time_on_grid(q, p)) - Fr(b):
                rec('time_to_next_beat_range', H, 'time_to_next_beat(Quant(%r, %r))' % (q, p), repr(d), '0 <= result < quant and result = next_time_on_grid - beats')
        for p in (0, 0.5, -1.25):
            for ref in (0.0, 2.75, b):
                g = c.next_time_on_grid(0, p, ref)
                if Fr(g) != Fr(ref) + Fr(p):
                    rec('grid_quant0', H, 'next_time_on_grid(0, %r, %r)' % (p, ref), repr(g), 'must be refbeat + phase')
        # bars
        bpb = Fr(c._beats_per_bar)
        if Fr(c._bars_per_beat) * bpb != 1 or not is_int(c._base_bar):
            rec('meter_change_rebases', H, '_bars_per_beat, _beats_per_bar, _base_bar', repr((c._bars_per_beat, c._beats_per_bar, c._base_bar)),
                'bars_per_beat * beats_per_bar = 1 and base_bar is an integer')
        for x in REFS + [b]:
            if Fr(c.bars2beats(c.beats2bars(x))) != Fr(x):
                rec('bars_beats_inverse', H, 'bars2beats(beats2bars(%r))' % x, repr(c.bars2beats(c.beats2bars(x))), 'must be %r' % x)
            if Fr(c.beats2bars(c.bars2beats(x))) != Fr(x):
                rec('bars_beats_inverse', H, 'beats2bars(bars2beats(%r))' % x, repr(c.beats2bars(c.bars2beats(x))), 'must be %r' % x)
            nb = c.next_bar(x)
            if Fr(nb) < Fr(x):
                rec('next_bar_not_before', H, 'next_bar(%r)' % x, repr(nb), 'is before the beat')
            elif not is_int(c.beats2bars(nb)):
                rec('next_bar_is_barline', H, 'next_bar(%r)' % x, repr(nb), 'beats2bars of it is %r, not an integer' % c.beats2bars(nb))
            elif Fr(nb) >= Fr(x) + bpb:
                rec('next_bar_not_before', H, 'next_bar(%r)' % x, repr(nb), 'skips a bar line (beats_per_bar %r)' % float(bpb))
        nb = c.next_bar()
        if Fr(nb) < Fr(b) or Fr(nb) != Fr(c.next_bar(b)):
            rec('next_bar_not_before', H, 'next_bar()', repr(nb), 'before the current beat %r (or differs from next_bar(beats))' % b)
        bib = c.beat_in_bar()
        if not (0 <= Fr(bib) < bpb):
            rec('beat_in_bar_range', H, 'beat_in_bar()', repr(bib), '0 <= result < beats_per_bar (%r)' % float(bpb))
        br = c.bar()
        x = Fr(c.beats2bars(b))
        if not (Fr(br) <= x < Fr(br) + 1) or not is_int(br):
            rec('beat_in_bar_range', H, 'bar()', repr(br), 'must be floor(beats2bars(beats)) = floor(%r)' % float(x))
    except Exception as e:
        rec('raised', H, 'queries', '%s: %s' % (type(e).__name__, e), 'a query raised on valid arguments')


def run_history(hist, init, plays):
    """hist: list of (kind, value, yield_after)."""
    M.reset()
    CUR['init'] = list(init)
    done = []

    def spawn(c, q, p, H):
        at = Fr(c.beats)
        want = c.next_time_on_grid(q, p)

        def child(inval):
            got = inval[1].beats
            done.append(1)
            if Fr(got) != Fr(want):
                rec('play_quant_schedules_on_grid', H, 'play(quant=Quant(%r, %r)) at beat %r' % (q, p, float(at)), repr(got),
                    'the routine first ran at beat %r, next_time_on_grid gave %r' % (got, want))
            G = Fr(inval[1]._base_bar_beat)
            if q > 0 and (not is_int((Fr(got) - G - Fr(p)) / Fr(q)) or Fr(got) < at or Fr(got) >= at + Fr(q)):
                rec('play_quant_schedules_on_grid', H, 'play(quant=Quant(%r, %r)) at beat %r' % (q, p, float(at)), repr(got),
                    'not the earliest beat congruent to phase mod quant from base_bar_beat %r that is not before the current beat' % float(G))
        Routine(child).play(c, Quant(q, p))
        return 1

    expected = [0]

    def driver(inval):
        c = inval[1]
        H = []
        probe_queries(c, H)
        for kind, v, y in hist:
            now = c.seconds
            b0 = c.beats
            bars0 = c.beats2bars(b0)
            try:
                if kind == 'tempo':
                    c.tempo = v
                    if Fr(c.beats) != Fr(b0) or Fr(c.beats2secs(b0)) != Fr(now):
                        rec('tempo_change_continuous', H + [[kind, v]], 'tempo = %r at seconds %r, beat %r' % (v, now, b0),
                            repr((c.beats, c.beats2secs(b0))), 'the current (beat, second) pair must stay (%r, %r)' % (b0, now))
                elif kind == 'etempo':
                    el = M.elapsed_time()
                    e0 = c.secs2beats(el)
                    c.etempo(v)
                    if Fr(c.secs2beats(el)) != Fr(e0) or Fr(c.beats2secs(e0)) != Fr(el):
                        rec('etempo_continuous', H + [[kind, v]], 'etempo(%r) at elapsed %r' % (v, el), repr(c.secs2beats(el)),
                            'the beat of the elapsed time must stay %r' % e0)
                elif kind == 'beats':
                    c.beats = v
                    if Fr(c.beats) != Fr(v) or Fr(c.beats2secs(v)) != Fr(now):
                        rec('beats_set_continuous', H + [[kind, v]], 'beats = %r at seconds %r' % (v, now), repr((c.beats, c.beats2secs(v))),
                            'beats must read %r now and beats2secs of it must be %r' % (v, now))
                elif kind == 'meter':
                    c.beats_per_bar = v
                    ok = (Fr(c._base_bar_beat) == Fr(b0) and is_int(c._base_bar) and Fr(c.next_bar()) == Fr(b0)
                          and Fr(c.beat_in_bar()) == 0 and abs(Fr(c._base_bar) - Fr(bars0)) <= Fr(1, 2)
                          and Fr(c.beats) == Fr(b0))
                    if not ok:
                        rec('meter_change_rebases', H + [[kind, v]], 'beats_per_bar = %r at beat %r (bar position %r)' % (v, b0, bars0),
                            repr({'base_bar': c._base_bar, 'base_bar_beat': c._base_bar_beat, 'next_bar': c.next_bar(), 'beat_in_bar': c.beat_in_bar()}),
                            'the current beat must become a bar line numbered with the nearest integer')
            except Exception as e:
                rec('raised', H + [[kind, v]], kind, '%s: %s' % (type(e).__name__, e), 'a valid change raised')
            H = H + [[kind, v]]
            probe_queries(c, H)
            if y:
                yield y
                H = H + [['yield', y]]
        for q, p in plays:
            expected[0] += spawn(c, q, p, H)

    def boot(inval):
        c = TempoClock(*init)
        q0, p0 = plays[0] if plays else (1, 0)
        at = Fr(c.beats)
        want = c.next_time_on_grid(q0, p0)

        def first(inval2):
            got = inval2[1].beats
            if Fr(got) != Fr(want) or Fr(got) < at:
                rec('play_quant_schedules_on_grid', [], 'TempoClock%r; play(quant=Quant(%r, %r)) at beat %r' % (tuple(init), q0, p0, float(at)),
                    repr(got), 'next_time_on_grid gave %r' % want)
            yield from driver(inval2)
        Routine(first).play(c, Quant(q0, p0))

    Routine(boot).play(SystemClock)
    M.process()
    if len(done) != expected[0]:
        rec('play_quant_schedules_on_grid', [list(h[:2]) for h in hist], 'play', '%d of %d played routines ran' % (len(done), expected[0]), 'every played routine must run')


def main():
    spec = json.load(open(sys.argv[1]))
    rng = random.Random(spec.get('seed', 0))
    n = spec.get('n', 150)
    tempi = [0.25, 0.5, 1.0, 2.0, 4.0, 2, 8]
    meters = [0.5, 1.0, 2.0, 4.0, 8.0, 2, 4]
    beats = [0.0, 1.0, 2.5, -3.0, 7.75, 100.5, 5]

    def op():
        k = rng.choice(['tempo', 'tempo', 'etempo', 'beats', 'meter', 'meter'])
        v = rng.choice(tempi if k in ('tempo', 'etempo') else meters if k == 'meter' else beats)
        return (k, v, rng.choice([0, 0.25, 1.0, 1.5, 3.0]))
    plays = [(4, 0), (4, -1), (1, 0.5), (1.5, -1.25), (3, 2)]
    # shortest first
    run_history([], (), [(1, 0)])
    run_history([], (2.0,), plays)
    for k in ('tempo', 'etempo', 'beats', 'meter'):
        for v in (tempi[3:5] if k in ('tempo', 'etempo') else meters[2:4] if k == 'meter' else beats[2:4]):
            for y in (0, 1.5):
                run_history([('beats', 0.0, 1.25), (k, v, y)], (), plays[:2])
    for i in range(n):
        ln = 1 + (i * 5) // max(n, 1)
        init = (rng.choice(tempi), rng.choice(beats), rng.choice([0.0, 1.5, 3.0, 0.25]))
        run_history([op() for _ in range(ln)], init, rng.sample(plays, 2))
    json.dump({'bad': bad}, open(sys.argv[2], 'w'))


main()
