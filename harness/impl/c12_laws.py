"""Direct probes of the C12 laws on the real sc3 TempoClock (NRT), used only to LOOK FOR a concrete
failing input when a proof, the translator or the correspondence broke.  Independent of the Coq
model: each law is the property's own text, checked with exact Fractions on dyadic inputs
(power-of-two tempi and meters, so binary64 arithmetic is exact).

Histories are tried shortest first (the empty history on a default clock, then one change, ...),
so the first hit of a law is close to a minimal failing input."""
import json, math, os, random, sys, threading, time
from fractions import Fraction as Fr

import sc3
MODE = os.environ.get('SC3_MODE', 'nrt')
if MODE == 'rt':
    # RT: the same laws on a real clock thread.  The clock gets an explicit dyadic reference second and
    # everything is observed from routines on the clock in LOGICAL time, so the numbers are exact and
    # do not depend on load; this reaches the code the NRT run cannot (the setters pair logical beats
    # with seconds while physical time differs; the clock thread's queue is keyed by beats).
    sc3.LIB_PORT = int(os.environ.get('SC3_LIB_PORT', '58300'))
    sc3.LIB_PORT_RANGE = 8
sc3.init(MODE)
import logging
logging.disable(logging.CRITICAL)
import sc3.base.clock as clk
from sc3.base.clock import TempoClock, SystemClock, Quant
from sc3.base.stream import Routine

M = clk._libsc3.main
bad = []
CUR = {'init': []}


def rec(law, history, call, got, why):
    b = {'law': law, 'mode': MODE, 'constructor': 'TempoClock%r' % (tuple(CUR['init']),), 'history': history, 'call': call,
         'got': got, 'why': why,
         'how': 'sc3.init("%s"); create the clock and apply the history from a routine playing on it '
                '(["yield", d] = yield d, ["play", q, p] = Routine(..).play(clock, Quant(q, p))), then make the call' % MODE}
    if len([x for x in bad if x['law'] == law]) < 2 and b not in bad:
        bad.append(b)


def is_int(x):
    return Fr(x).denominator == 1


QUANTS = [(1, 0), (1, 0.5), (1, -0.25), (4, 0), (4, 1), (4, -1), (4, 3.5), (4, -3.5), (3, 2), (3, -2),
          (1.5, 0.5), (1.5, -1.25), (0.5, 0.25), (5, -4), (2, 1.75)]
REFS = [0.0, 0.25, 1.0, 1.5, 3.0, 4.0, 7.75, 12.0, -2.5]


def probe_queries(c, hist):
    now = c.seconds
    b = c.beats
    t = c._tempo
    H = list(hist)
    try:
        # one affine map, inverse both ways, advancing at the current tempo
        for x in (0.0, 1.0, 2.5, -3.25, 10.0, b):
            if Fr(c.secs2beats(c.beats2secs(x))) != Fr(x):
                rec('beats_secs_inverse', H, 'secs2beats(beats2secs(%r))' % x, repr(c.secs2beats(c.beats2secs(x))), 'must be %r' % x)
            if Fr(c.beats2secs(c.secs2beats(x))) != Fr(x):
                rec('beats_secs_inverse', H, 'beats2secs(secs2beats(%r))' % x, repr(c.beats2secs(c.secs2beats(x))), 'must be %r' % x)
            for d in (0.5, 2.0):
                if Fr(c.secs2beats(x + d)) != Fr(c.secs2beats(x)) + Fr(d) * Fr(t):
                    rec('beats_advance_at_tempo', H, 'secs2beats(%r + %r)' % (x, d), repr(c.secs2beats(x + d)),
                        'must be secs2beats(%r) + %r * tempo (%r)' % (x, d, t))
        if Fr(c._beat_dur) * Fr(c._tempo) != 1:
            rec('TInv', H, '_beat_dur * _tempo', repr((c._beat_dur, c._tempo)), 'beat_dur * tempo must be 1')
        if Fr(b) != Fr(c.secs2beats(now)):
            rec('beats_is_secs2beats_now', H, 'beats', repr(b), 'must be secs2beats(seconds)')
        # the grid
        G = Fr(c._base_bar_beat)
        for q, p in QUANTS:
            # also reference beats around the grid origin base_bar_beat (+ phase), where
            # refbeat - base_bar_beat - phase is negative, zero or just positive
            near = [float(G) + d for d in (p, p - 0.125, p + 0.125, -q, -0.25, 0.0, p - q, 0.375)]
            for ref in REFS + near + [b, None]:
                g = c.next_time_on_grid(q, p) if ref is None else c.next_time_on_grid(q, p, ref)
                r = Fr(b) if ref is None else Fr(ref)
                call = 'next_time_on_grid(%r, %r%s)' % (q, p, '' if ref is None else ', %r' % ref)
                if not is_int((Fr(g) - G - Fr(p)) / Fr(q)):
                    rec('grid_congruent', H, call, repr(g), 'result - base_bar_beat(%r) - phase must be a multiple of quant' % float(G))
                elif Fr(g) < r:
                    rec('grid_not_before_ref', H, call, repr(g), 'result is before the reference beat %r' % float(r))
                elif Fr(g) >= r + Fr(q):
                    rec('grid_minimal', H, call, repr(g), 'an earlier grid point %r is not before the reference beat %r' % (float(Fr(g) - Fr(q)), float(r)))
            d = c.time_to_next_beat(Quant(q, p))
            if not (0 <= Fr(d) < Fr(q)) or Fr(d) != Fr(c.next_time_on_grid(q, p)) - Fr(b):
                rec('time_to_next_beat_range', H, 'time_to_next_beat(Quant(%r, %r))' % (q, p), repr(d), '0 <= result < quant and result = next_time_on_grid - beats')
        for p in (0, 0.5, -1.25):
            for ref in (0.0, 2.75, b):
                g = c.next_time_on_grid(0, p, ref)
                if Fr(g) != Fr(ref) + Fr(p):
                    rec('grid_quant0', H, 'next_time_on_grid(0, %r, %r)' % (p, ref), repr(g), 'must be refbeat + phase')
        # bars
        bpb = Fr(c._beats_per_bar)
        if Fr(c._bars_per_beat) * bpb != 1 or not is_int(c._base_bar):
            rec('meter_change_rebases', H, '_bars_per_beat, _beats_per_bar, _base_bar', repr((c._bars_per_beat, c._beats_per_bar, c._base_bar)),
                'bars_per_beat * beats_per_bar = 1 and base_bar is an integer')
        for x in REFS + [b]:
            if Fr(c.bars2beats(c.beats2bars(x))) != Fr(x):
                rec('bars_beats_inverse', H, 'bars2beats(beats2bars(%r))' % x, repr(c.bars2beats(c.beats2bars(x))), 'must be %r' % x)
            if Fr(c.beats2bars(c.bars2beats(x))) != Fr(x):
                rec('bars_beats_inverse', H, 'beats2bars(bars2beats(%r))' % x, repr(c.beats2bars(c.bars2beats(x))), 'must be %r' % x)
            nb = c.next_bar(x)
            if Fr(nb) < Fr(x):
                rec('next_bar_not_before', H, 'next_bar(%r)' % x, repr(nb), 'is before the beat')
            elif not is_int(c.beats2bars(nb)):
                rec('next_bar_is_barline', H, 'next_bar(%r)' % x, repr(nb), 'beats2bars of it is %r, not an integer' % c.beats2bars(nb))
            elif Fr(nb) >= Fr(x) + bpb:
                rec('next_bar_not_before', H, 'next_bar(%r)' % x, repr(nb), 'skips a bar line (beats_per_bar %r)' % float(bpb))
        nb = c.next_bar()
        if Fr(nb) < Fr(b) or Fr(nb) != Fr(c.next_bar(b)):
            rec('next_bar_not_before', H, 'next_bar()', repr(nb), 'before the current beat %r (or differs from next_bar(beats))' % b)
        bib = c.beat_in_bar()
        if not (0 <= Fr(bib) < bpb):
            rec('beat_in_bar_range', H, 'beat_in_bar()', repr(bib), '0 <= result < beats_per_bar (%r)' % float(bpb))
        br = c.bar()
        x = Fr(c.beats2bars(b))
        if not (Fr(br) <= x < Fr(br) + 1) or not is_int(br):
            rec('beat_in_bar_range', H, 'bar()', repr(br), 'must be floor(beats2bars(beats)) = floor(%r)' % float(x))
    except Exception as e:
        rec('raised', H, 'queries', '%s: %s' % (type(e).__name__, e), 'a query raised on valid arguments')


def run_history(hist, init, plays, play_after=1):
    """hist: list of (kind, value, yield_after).  The routines of `plays` are played with their Quant right
    after the first `play_after` changes, so the remaining changes happen between play and wake-up."""
    rt = MODE == 'rt'
    if not rt:
        M.reset()
    CUR['init'] = list(init)
    done = []
    expected = [0]
    finished = threading.Event()
    state = {'driver': False}

    def check_done():
        if state['driver'] and len(done) == expected[0]:
            finished.set()

    def spawn(c, q, p, H):
        at = Fr(c.beats)
        G = Fr(c._base_bar_beat)
        want = c.next_time_on_grid(q, p)
        Hp = H + [['play', q, p]]

        def child(inval):
            got = inval[1].beats
            secs = inval[1].seconds
            done.append(1)
            call = 'play(quant=Quant(%r, %r)) at beat %r, then the rest of the history' % (q, p, float(at))
            if Fr(got) != Fr(want):
                rec('play_quant_schedules_on_grid', Hp + HIST[len(H):], call, repr(got),
                    'the routine first ran at beat %r, next_time_on_grid gave %r at play time' % (got, want))
            elif Fr(inval[1].beats2secs(want)) != Fr(secs):
                rec('play_quant_schedules_on_grid', Hp + HIST[len(H):], call, repr(secs),
                    'first ran at second %r, beats2secs(%r) is %r' % (secs, want, inval[1].beats2secs(want)))
            if q > 0 and (not is_int((Fr(want) - G - Fr(p)) / Fr(q)) or Fr(want) < at or Fr(want) >= at + Fr(q)):
                rec('play_quant_schedules_on_grid', Hp, call, repr(want),
                    'not the earliest beat congruent to phase mod quant from base_bar_beat %r that is not before the current beat' % float(G))
            check_done()
        expected[0] += 1
        Routine(child).play(c, Quant(q, p))

    HIST = []      # the history so far, shared with the children for their reports

    def driver(inval):
        c = inval[1]
        probe_queries(c, [])
        n = 0
        if play_after == 0:
            for q, p in plays:
                spawn(c, q, p, list(HIST))
        for kind, v, y in hist:
            now = c.seconds
            b0 = c.beats
            bars0 = c.beats2bars(b0)
            H = list(HIST)
            try:
                if kind == 'tempo':
                    c.tempo = v
                    if Fr(c.beats) != Fr(b0) or Fr(c.beats2secs(b0)) != Fr(now):
                        rec('tempo_change_continuous', H + [[kind, v]], 'tempo = %r at logical seconds %r, beat %r' % (v, now, b0),
                            repr((c.beats, c.beats2secs(b0))), 'the current (beat, second) pair must stay (%r, %r)' % (b0, now))
                elif kind == 'etempo':
                    el = M.elapsed_time()
                    e0 = c.secs2beats(el)
                    c.etempo(v)
                    if Fr(c.secs2beats(el)) != Fr(e0) or Fr(c.beats2secs(e0)) != Fr(el):
                        rec('etempo_continuous', H + [[kind, v]], 'etempo(%r) at elapsed %r' % (v, el), repr(c.secs2beats(el)),
                            'the beat of the elapsed time must stay %r' % e0)
                elif kind in ('beats', 'beats_rel'):
                    if kind == 'beats_rel':
                        v = b0 + v
                    c.beats = v
                    if Fr(c.beats) != Fr(v) or Fr(c.beats2secs(v)) != Fr(now):
                        rec('beats_set_continuous', H + [['beats', v]], 'beats = %r at logical seconds %r' % (v, now), repr((c.beats, c.beats2secs(v))),
                            'beats must read %r now and beats2secs of it must be %r' % (v, now))
                elif kind == 'meter':
                    c.beats_per_bar = v
                    ok = (Fr(c._base_bar_beat) == Fr(b0) and is_int(c._base_bar) and Fr(c.next_bar()) == Fr(b0)
                          and Fr(c.beat_in_bar()) == 0 and abs(Fr(c._base_bar) - Fr(bars0)) <= Fr(1, 2)
                          and Fr(c.beats) == Fr(b0))
                    if not ok:
                        rec('meter_change_rebases', H + [[kind, v]], 'beats_per_bar = %r at beat %r (bar position %r)' % (v, b0, bars0),
                            repr({'base_bar': c._base_bar, 'base_bar_beat': c._base_bar_beat, 'next_bar': c.next_bar(), 'beat_in_bar': c.beat_in_bar()}),
                            'the current beat must become a bar line numbered with the nearest integer')
            except Exception as e:
                rec('raised', H + [[kind, v]], kind, '%s: %s' % (type(e).__name__, e), 'a valid change raised')
            HIST.append([kind, v])
            n += 1
            probe_queries(c, list(HIST))
            if n == play_after:
                for q, p in plays:
                    spawn(c, q, p, list(HIST))
            if y:
                yield y
                HIST.append(['yield', y])
        if n < play_after:
            for q, p in plays:
                spawn(c, q, p, list(HIST))

    q0, p0 = plays[0] if plays else (1, 0)

    def first(inval2):
        c = inval2[1]
        got = c.beats
        if not rt and (Fr(got) != Fr(first_want[0]) or Fr(got) < first_at[0]):
            rec('play_quant_schedules_on_grid', [], 'TempoClock%r; play(quant=Quant(%r, %r)) at beat %r' % (tuple(init), q0, p0, float(first_at[0])),
                repr(got), 'next_time_on_grid gave %r' % first_want[0])
        if q0 > 0 and (not is_int((Fr(got) - Fr(p0)) / Fr(q0)) or Fr(got) < first_at[0]):
            rec('play_quant_schedules_on_grid', [], 'TempoClock%r; play(quant=Quant(%r, %r)) at beat %r' % (tuple(init), q0, p0, float(first_at[0])),
                repr(got), 'the first run is off the grid or before the beat of the play')
        try:
            yield from driver(inval2)
        finally:
            state['driver'] = True
            check_done()

    first_want, first_at = [None], [None]

    def start(c):
        first_at[0] = Fr(c.beats)
        first_want[0] = c.next_time_on_grid(q0, p0)
        Routine(first).play(c, Quant(q0, p0))

    if rt:
        t0 = math.floor((M.elapsed_time() + 0.03) * 256) / 256
        args = list(init) + [None] * (3 - len(init))
        args[2] = t0
        CUR['init'] = args
        c = TempoClock(*args)
        start(c)
        if not finished.wait(6.0):
            rec('play_quant_schedules_on_grid', [list(h[:2]) for h in hist], 'run', 'driver finished=%s, %d of %d played routines ran within 6 s'
                % (state['driver'], len(done), expected[0]), 'every played routine must run')
        c.stop()
    else:
        def boot(inval):
            start(TempoClock(*init))
        Routine(boot).play(SystemClock)
        M.process()
        if len(done) != expected[0] or not state['driver']:
            rec('play_quant_schedules_on_grid', [list(h[:2]) for h in hist], 'play', '%d of %d played routines ran' % (len(done), expected[0]),
                'every played routine must run')


def main():
    spec = json.load(open(sys.argv[1]))
    rng = random.Random(spec.get('seed', 0))
    n = spec.get('n', 150)
    plays = [(4, 0), (4, -1), (1, 0.5), (1.5, -1.25), (3, 2)]
    if MODE == 'rt':
        tempi = [2.0, 4.0, 8.0, 16.0, 4]
        meters = [0.5, 1.0, 2.0, 2]
        rplays = [(1, 0), (0.5, 0.25), (1, -0.25), (0.75, 0.5), (1.5, -1.25)]

        def rop():
            k = rng.choice(['tempo', 'tempo', 'tempo', 'beats_rel', 'meter'])
            v = rng.choice(tempi) if k == 'tempo' else rng.choice(meters) if k == 'meter' else rng.choice([0.0, 0.25, 0.625, 1.5])
            return (k, v, rng.choice([0, 0.125, 0.25, 0.5]))
        # shortest first: one tempo change from a routine on the clock, after a yield (so that logical and physical time differ)
        run_history([('beats_rel', 0.0, 0.25), ('tempo', 4.0, 0.125)], (2.0, 0.0), rplays[:2])
        run_history([('meter', 2.0, 0.25), ('tempo', 8.0, 0.25), ('beats_rel', 0.625, 0.125)], (4.0, 1.25), rplays[2:4])
        for i in range(n):
            run_history([rop() for _ in range(1 + i % 3)], (rng.choice(tempi), rng.choice([0.0, 1.25, -3.0])), rng.sample(rplays, 2),
                        play_after=rng.choice([0, 1, 1]))
        json.dump({'bad': bad, 'mode': MODE}, open(sys.argv[2], 'w'))
        sys.stdout.flush()
        os._exit(0)
    tempi = [0.25, 0.5, 1.0, 2.0, 4.0, 2, 8]
    meters = [0.5, 1.0, 2.0, 4.0, 8.0, 2, 4]
    beats = [0.0, 1.0, 2.5, -3.0, 7.75, 100.5, 5]

    def op():
        k = rng.choice(['tempo', 'tempo', 'etempo', 'beats', 'meter', 'meter'])
        v = rng.choice(tempi if k in ('tempo', 'etempo') else meters if k == 'meter' else beats)
        return (k, v, rng.choice([0, 0.25, 1.0, 1.5, 3.0]))
    # shortest first
    run_history([], (), [(1, 0)])
    run_history([], (2.0,), plays)
    for k in ('tempo', 'etempo', 'beats', 'meter'):
        for v in (tempi[3:5] if k in ('tempo', 'etempo') else meters[2:4] if k == 'meter' else beats[2:4]):
            for y in (0, 1.5):
                run_history([('beats', 0.0, 1.25), (k, v, y)], (), plays[:2])
    # a meter change at a beat where base_bar_beat - base_bar is not a multiple of the quants probed afterwards
    for b0, bpb in ((1.25, 4.0), (2.75, 3.0 if False else 2.0), (0.375, 4.0), (5.5, 8.0)):
        run_history([('beats', 0.0, b0), ('meter', bpb, 0.625), ('meter', 4.0, 0)], (), plays[1:4])
    # changes between a play and its wake-up
    run_history([('beats', 0.0, 0.25), ('tempo', 2.0, 0.5), ('tempo', 0.5, 0)], (), plays[:3])
    run_history([('beats', 0.0, 0.25), ('beats', 1.5, 0.25), ('etempo', 4.0, 0.125)], (), plays[:3])
    for i in range(n):
        ln = 1 + (i * 5) // max(n, 1)
        init = (rng.choice(tempi), rng.choice(beats), rng.choice([0.0, 1.5, 3.0, 0.25]))
        run_history([op() for _ in range(ln)], init, rng.sample(plays, 2), play_after=rng.choice([0, 1, 1, 2]))
    json.dump({'bad': bad, 'mode': MODE}, open(sys.argv[2], 'w'))


main()
