"""Direct probes of the C12 laws on the real sc3 TempoClock (NRT), used only to LOOK FOR a concrete
failing input when a proof, the translator or the correspondence broke.  Independent of the Coq
model: each law is the property's own text, checked with exact Fractions on dyadic inputs
(power-of-two tempi and meters, so binary64 arithmetic is exact).

Histories are tried shortest first (the empty history on a default clock, then one change, ...),
so the first hit of a law is close to a minimal failing input."""
import json, math, os, random, sys, threading, time
from fractions import Fraction as Fr

import sc3
MODE = os.environ.get('SC3_MODE', 'nrt')
if MODE == 'rt':
    # RT: the same laws on a real clock thread.  The clock gets an explicit dyadic reference second and
    # everything is observed from routines on the clock in LOGICAL time, so the numbers are exact and
    # do not depend on load; this reaches the code the NRT run cannot (the setters pair logical beats
    # with seconds while physical time differs; the clock thread's queue is keyed by beats).
    sc3.LIB_PORT = int(os.environ.get('SC3_LIB_PORT', '58300'))
    sc3.LIB_PORT_RANGE = 8
sc3.init(MODE)
import logging
logging.disable(logging.CRITICAL)
import sc3.base.clock as clk
from sc3.base.clock import TempoClock, SystemClock, Quant
from sc3.base.stream import Routine

M = clk._libsc3.main
bad = []
CUR = {'init': []}


def rec(law, history, call, got, why):
    b = {'law': law, 'mode': MODE, 'constructor': 'TempoClock%r' % (tuple(CUR['init']),), 'history': history, 'call': call,
         'got': got, 'why': why,
         'how': 'sc3.init("%s"); create the clock and apply the history from a routine playing on it '
                '(["yield", d] = yield d, ["play", q, p] = Routine(..).play(clock, Quant(q, p))), then make the call' % MODE}
    if len([x for x in bad if x['law'] == law]) < 2 and b not in bad:
        bad.append(b)


def is_int(x):
    return Fr(x).denominator == 1


QUANTS = [(1, 0), (1, 0.5), (1, -0.25), (4, 0), (4, 1), (4, -1), (4, 3.5), (4, -3.5), (3, 2), (3, -2),
          (1, 0.875), (1, -0.875), (4, 3.875), (4, -3.875), (1, 0.0), (2.0, 0), (1024, 512), (0.125, -0.0625),
          (1.5, 0.5), (1.5, -1.25), (0.5, 0.25), (5, -4), (2, 1.75)]
REFS = [0.0, 0.25, 1.0, 1.5, 3.0, 4.0, 7.75, 12.0, -2.5]


def probe_queries(c, hist):
    now = c.seconds
    b = c.beats
    t = c._tempo
    H = list(hist)
    try:
        # one affine map, inverse both ways, advancing at the current tempo
        for x in (0.0, 1.0, 2.5, -3.25, 10.0, b):
            if Fr(c.secs2beats(c.beats2secs(x))) != Fr(x):
                rec('beats_secs_inverse', H, 'secs2beats(beats2secs(%r))' % x, repr(c.secs2beats(c.beats2secs(x))), 'must be %r' % x)
            if Fr(c.beats2secs(c.secs2beats(x))) != Fr(x):
                rec('beats_secs_inverse', H, 'beats2secs(secs2beats(%r))' % x, repr(c.beats2secs(c.secs2beats(x))), 'must be %r' % x)
            for d in (0.5, 2.0):
                if Fr(c.secs2beats(x + d)) != Fr(c.secs2beats(x)) + Fr(d) * Fr(t):
                    rec('beats_advance_at_tempo', H, 'secs2beats(%r + %r)' % (x, d), repr(c.secs2beats(x + d)),
                        'must be secs2beats(%r) + %r * tempo (%r)' % (x, d, t))
        if Fr(c._beat_dur) * Fr(c._tempo) != 1:
            rec('TInv', H, '_beat_dur * _tempo', repr((c._beat_dur, c._tempo)), 'beat_dur * tempo must be 1')
        if Fr(b) != Fr(c.secs2beats(now)):
            rec('beats_is_secs2beats_now', H, 'beats', repr(b), 'must be secs2beats(seconds)')
        # two sites, one value: public getters vs the fields the arithmetic uses, and derived methods vs their definition
        for name, field in (('tempo', '_tempo'), ('beat_dur', '_beat_dur'), ('beats_per_bar', '_beats_per_bar'),
                            ('base_bar', '_base_bar'), ('base_bar_beat', '_base_bar_beat')):
            if getattr(c, name) != getattr(c, field) or type(getattr(c, name)) is not type(getattr(c, field)):
                rec('two_site_consistency', H, name, repr(getattr(c, name)), 'the getter must return %s = %r' % (field, getattr(c, field)))
        if Fr(c.secs2beats(c._base_seconds)) != Fr(c._base_beats) or Fr(c.beats2secs(c._base_beats)) != Fr(c._base_seconds):
            rec('two_site_consistency', H, 'secs2beats(_base_seconds), beats2secs(_base_beats)', repr((c.secs2beats(c._base_seconds), c.beats2secs(c._base_beats))),
                'the map goes through its reference point (%r, %r)' % (c._base_seconds, c._base_beats))
        if MODE != 'rt' and Fr(c.elapsed_beats()) != Fr(c.secs2beats(M.elapsed_time())):
            rec('two_site_consistency', H, 'elapsed_beats()', repr(c.elapsed_beats()), 'must be secs2beats(elapsed_time())')
        if Fr(c._calc_sched_beats(1.5)) != Fr(b) + Fr(3, 2):
            rec('two_site_consistency', H, '_calc_sched_beats(1.5)', repr(c._calc_sched_beats(1.5)), 'must be beats + 1.5')
        if Fr(c._beats_per_bar) > 0 and Fr(c.next_time_on_grid(c._beats_per_bar)) != Fr(c.next_bar()):
            rec('two_site_consistency', H, 'next_time_on_grid(beats_per_bar) vs next_bar()', repr((c.next_time_on_grid(c._beats_per_bar), c.next_bar())),
                'documented to be equal')
        if Fr(c.beats2bars(c._base_bar_beat)) != Fr(c._base_bar) or Fr(c.bars2beats(c._base_bar)) != Fr(c._base_bar_beat):
            rec('two_site_consistency', H, 'beats2bars(_base_bar_beat), bars2beats(_base_bar)', repr((c.beats2bars(c._base_bar_beat), c.bars2beats(c._base_bar))),
                'the bar map goes through (%r, %r)' % (c._base_bar_beat, c._base_bar))
        for badq in (-1, -0.5):
            try:
                g = c.next_time_on_grid(badq, 0)
                rec('grid_negative_quant_raises', H, 'next_time_on_grid(%r, 0)' % badq, repr(g), 'a negative quant must raise ValueError')
            except ValueError:
                pass
        # the grid
        G = Fr(c._base_bar_beat)
        for q, p in QUANTS:
            # also reference beats around the grid origin base_bar_beat (+ phase), where
            # refbeat - base_bar_beat - phase is negative, zero or just positive
            near = [float(G) + d for d in (p, p - 0.125, p + 0.125, -q, -0.25, 0.0, p - q, 0.375, p + q, p + 3 * q, p - 2 * q)]
            for ref in REFS + near + [b, None]:
                g = c.next_time_on_grid(q, p) if ref is None else c.next_time_on_grid(q, p, ref)
                r = Fr(b) if ref is None else Fr(ref)
                call = 'next_time_on_grid(%r, %r%s)' % (q, p, '' if ref is None else ', %r' % ref)
                if not is_int((Fr(g) - G - Fr(p)) / Fr(q)):
                    rec('grid_congruent', H, call, repr(g), 'result - base_bar_beat(%r) - phase must be a multiple of quant' % float(G))
                elif Fr(g) < r:
                    rec('grid_not_before_ref', H, call, repr(g), 'result is before the reference beat %r' % float(r))
                elif Fr(g) >= r + Fr(q):
                    rec('grid_minimal', H, call, repr(g), 'an earlier grid point %r is not before the reference beat %r' % (float(Fr(g) - Fr(q)), float(r)))
            d = c.time_to_next_beat(Quant(q, p))
            if not (0 <= Fr(d) < Fr(q)) or Fr(d) != Fr(c.next_time_on_grid(q, p)) - Fr(b):
                rec('time_to_next_beat_range', H, 'time_to_next_beat(Quant(%r, %r))' % (q, p), repr(d), '0 <= result < quant and result = next_time_on_grid - beats')
        for p in (0, 0.5, -1.25):
            for ref in (0.0, 2.75, b):
                g = c.next_time_on_grid(0, p, ref)
                if Fr(g) != Fr(ref) + Fr(p):
                    rec('grid_quant0', H, 'next_time_on_grid(0, %r, %r)' % (p, ref), repr(g), 'must be refbeat + phase')
        # bars
        bpb = Fr(c._beats_per_bar)
        if Fr(c._bars_per_beat) * bpb != 1 or not is_int(c._base_bar):
            rec('meter_change_rebases', H, '_bars_per_beat, _beats_per_bar, _base_bar', repr((c._bars_per_beat, c._beats_per_bar, c._base_bar)),
                'bars_per_beat * beats_per_bar = 1 and base_bar is an integer')
        barlines = [float(Fr(c._base_bar_beat) + k * bpb) for k in (-2, -1, 0, 1, 3)]      # exactly on a bar line
        for x in REFS + barlines + [b]:
            if Fr(c.bars2beats(c.beats2bars(x))) != Fr(x):
                rec('bars_beats_inverse', H, 'bars2beats(beats2bars(%r))' % x, repr(c.bars2beats(c.beats2bars(x))), 'must be %r' % x)
            if Fr(c.beats2bars(c.bars2beats(x))) != Fr(x):
                rec('bars_beats_inverse', H, 'beats2bars(bars2beats(%r))' % x, repr(c.beats2bars(c.bars2beats(x))), 'must be %r' % x)
            nb = c.next_bar(x)
            if Fr(nb) < Fr(x):
                rec('next_bar_not_before', H, 'next_bar(%r)' % x, repr(nb), 'is before the beat')
            elif not is_int(c.beats2bars(nb)):
                rec('next_bar_is_barline', H, 'next_bar(%r)' % x, repr(nb), 'beats2bars of it is %r, not an integer' % c.beats2bars(nb))
            elif x in barlines and Fr(nb) != Fr(x):
                rec('next_bar_not_before', H, 'next_bar(%r)' % x, repr(nb), 'the beat is a bar line: must return the same number')
            elif Fr(nb) >= Fr(x) + bpb:
                rec('next_bar_not_before', H, 'next_bar(%r)' % x, repr(nb), 'skips a bar line (beats_per_bar %r)' % float(bpb))
        nb = c.next_bar()
        if Fr(nb) < Fr(b) or Fr(nb) != Fr(c.next_bar(b)):
            rec('next_bar_not_before', H, 'next_bar()', repr(nb), 'before the current beat %r (or differs from next_bar(beats))' % b)
        bib = c.beat_in_bar()
        if not (0 <= Fr(bib) < bpb):
            rec('beat_in_bar_range', H, 'beat_in_bar()', repr(bib), '0 <= result < beats_per_bar (%r)' % float(bpb))
        br = c.bar()
        x = Fr(c.beats2bars(b))
        if not (Fr(br) <= x < Fr(br) + 1) or not is_int(br):
            rec('beat_in_bar_range', H, 'bar()', repr(br), 'must be floor(beats2bars(beats)) = floor(%r)' % float(x))
    except Exception as e:
        rec('raised', H, 'queries', '%s: %s' % (type(e).__name__, e), 'a query raised on valid arguments')


FIELDS = ['_tempo', '_beat_dur', '_base_seconds', '_base_beats', '_beats_per_bar', '_bars_per_beat', '_base_bar', '_base_bar_beat']


def probe_failed_changes(c, H):
    """Error paths: a change that raises must leave the clock exactly as it was (then every law still holds)."""
    for what, f in (('tempo = 0', lambda: setattr(c, 'tempo', 0)), ('tempo = -1.0', lambda: setattr(c, 'tempo', -1.0)),
                    ('etempo(0.0)', lambda: c.etempo(0.0)), ('beats_per_bar = 0', lambda: setattr(c, 'beats_per_bar', 0)),
                    ('beats_per_bar = 0.0', lambda: setattr(c, 'beats_per_bar', 0.0)),
                    ('next_time_on_grid(-1, 0)', lambda: c.next_time_on_grid(-1, 0)),
                    ('play(f, quant=-1)', lambda: c.play(lambda: None, -1))):
        before = [(getattr(c, f_), type(getattr(c, f_))) for f_ in FIELDS]
        try:
            f()
            rec('failed_change_leaves_clock_unchanged', H, what, 'no exception', 'must raise')
            return
        except (ValueError, ZeroDivisionError):
            pass
        except Exception as e:
            rec('failed_change_leaves_clock_unchanged', H, what, '%s: %s' % (type(e).__name__, e), 'must raise ValueError / ZeroDivisionError')
        after = [(getattr(c, f_), type(getattr(c, f_))) for f_ in FIELDS]
        if after != before:
            rec('failed_change_leaves_clock_unchanged', H, what + ' (raised)',
                repr({f_: a[0] for f_, a, b in zip(FIELDS, after, before) if a != b}),
                'the call raised but changed these fields (before: %r)' % {f_: b[0] for f_, a, b in zip(FIELDS, after, before) if a != b})
            return


def run_history(hist, init, plays, play_after=1):
    """hist: list of (kind, value, yield_after).  The routines of `plays` are played with their Quant right
    after the first `play_after` changes, so the remaining changes happen between play and wake-up."""
    rt = MODE == 'rt'
    if not rt:
        M.reset()
    CUR['init'] = list(init)
    done = []
    expected = [0]
    finished = threading.Event()
    state = {'driver': False}

    finished_children = []
    WALK = (0.25, 0.5) if rt else (0.75, 1.5, 0.25)

    def check_done():
        if state['driver'] and len(finished_children) == expected[0]:
            finished.set()

    def spawn(c, q, p, H):
        at = Fr(c.beats)
        G = Fr(c._base_bar_beat)
        want = c.next_time_on_grid(q, p)
        Hp = H + [['play', q, p]]

        def child(inval):
            got = inval[1].beats
            secs = inval[1].seconds
            done.append(1)
            call = 'play(quant=Quant(%r, %r)) at beat %r, then the rest of the history' % (q, p, float(at))
            if Fr(got) != Fr(want):
                rec('play_quant_schedules_on_grid', Hp + HIST[len(H):], call, repr(got),
                    'the routine first ran at beat %r, next_time_on_grid gave %r at play time' % (got, want))
            elif Fr(inval[1].beats2secs(want)) != Fr(secs):
                rec('play_quant_schedules_on_grid', Hp + HIST[len(H):], call, repr(secs),
                    'first ran at second %r, beats2secs(%r) is %r' % (secs, want, inval[1].beats2secs(want)))
            if q > 0 and (not is_int((Fr(want) - G - Fr(p)) / Fr(q)) or Fr(want) < at or Fr(want) >= at + Fr(q)):
                rec('play_quant_schedules_on_grid', Hp, call, repr(want),
                    'not the earliest beat congruent to phase mod quant from base_bar_beat %r that is not before the current beat' % float(G))
            # ... and then it walks: every number it yields moves it exactly that many beats on, whatever the
            # other routines do to the clock while it sleeps
            prev = got
            for d in WALK:
                seen = len(HIST)
                yield d
                b, x = inval[1].beats, inval[1].seconds
                wcall = 'a routine woken at beat %r yields %r (while it sleeps: %s)' % (prev, d, HIST[seen:] or 'nothing')
                if Fr(b) != Fr(prev) + Fr(d):
                    rec('yield_advances_by_delta', Hp + HIST[len(H):], wcall, repr(b), 'must wake at beat %r' % float(Fr(prev) + Fr(d)))
                elif Fr(inval[1].beats2secs(b)) != Fr(x):
                    rec('yield_advances_by_delta', Hp + HIST[len(H):], wcall, repr(x), 'woke at second %r, beats2secs(%r) is %r' % (x, b, inval[1].beats2secs(b)))
                prev = b
            finished_children.append(1)
            check_done()
        expected[0] += 1
        Routine(child).play(c, Quant(q, p))

    HIST = []      # the history so far, shared with the children for their reports

    def driver(inval):
        c = inval[1]
        if rt:
            time.sleep(0.06)
        probe_queries(c, [])
        n = 0
        def spawn_all():
            for q, p in plays:
                spawn(c, q, p, list(HIST))
            # a second TempoClock in the same process: its pending routine must not notice what happens to this one
            for q, p in plays[:1]:
                spawn(others[0], q, p, list(HIST) + [['the next play is on another clock: TempoClock%r' % (OTHER,)]])
        if play_after == 0:
            spawn_all()
        for kind, v, y in hist:
            if rt:
                time.sleep(0.06)       # run LATE: physical time is well past the logical time of this routine
            now = c.seconds
            b0 = c.beats
            bars0 = c.beats2bars(b0)
            H = list(HIST)
            try:
                if kind == 'tempo':
                    c.tempo = v
                    if Fr(c.beats) != Fr(b0) or Fr(c.beats2secs(b0)) != Fr(now):
                        rec('tempo_change_continuous', H + [[kind, v]], 'tempo = %r at logical seconds %r, beat %r' % (v, now, b0),
                            repr((c.beats, c.beats2secs(b0))), 'the current (beat, second) pair must stay (%r, %r)' % (b0, now))
                elif kind == 'etempo':
                    el = M.elapsed_time()
                    e0 = c.secs2beats(el)
                    c.etempo(v)
                    if Fr(c.secs2beats(el)) != Fr(e0) or Fr(c.beats2secs(e0)) != Fr(el):
                        rec('etempo_continuous', H + [[kind, v]], 'etempo(%r) at elapsed %r' % (v, el), repr(c.secs2beats(el)),
                            'the beat of the elapsed time must stay %r' % e0)
                elif kind in ('beats', 'beats_rel'):
                    if kind == 'beats_rel':
                        v = b0 + v
                    c.beats = v
                    if Fr(c.beats) != Fr(v) or Fr(c.beats2secs(v)) != Fr(now):
                        rec('beats_set_continuous', H + [['beats', v]], 'beats = %r at logical seconds %r' % (v, now), repr((c.beats, c.beats2secs(v))),
                            'beats must read %r now and beats2secs of it must be %r' % (v, now))
                elif kind == 'meter':
                    c.beats_per_bar = v
                    ok = (Fr(c._base_bar_beat) == Fr(b0) and is_int(c._base_bar) and Fr(c.next_bar()) == Fr(b0)
                          and Fr(c.beat_in_bar()) == 0 and abs(Fr(c._base_bar) - Fr(bars0)) <= Fr(1, 2)
                          and Fr(c.beats) == Fr(b0))
                    if not ok:
                        rec('meter_change_rebases', H + [[kind, v]], 'beats_per_bar = %r at beat %r (bar position %r)' % (v, b0, bars0),
                            repr({'base_bar': c._base_bar, 'base_bar_beat': c._base_bar_beat, 'next_bar': c.next_bar(), 'beat_in_bar': c.beat_in_bar()}),
                            'the current beat must become a bar line numbered with the nearest integer')
            except Exception as e:
                rec('raised', H + [[kind, v]], kind, '%s: %s' % (type(e).__name__, e), 'a valid change raised')
            HIST.append([kind, v])
            n += 1
            probe_queries(c, list(HIST))
            if n == play_after:
                spawn_all()
            if y:
                yield y
                HIST.append(['yield', y])
        if n < play_after:
            spawn_all()
        probe_failed_changes(c, list(HIST))
        probe_queries(c, list(HIST) + [['then, each raising: tempo = 0, tempo = -1.0, etempo(0.0), beats_per_bar = 0, beats_per_bar = 0.0']])

    q0, p0 = plays[0] if plays else (1, 0)

    def first(inval2):
        c = inval2[1]
        got = c.beats
        if not rt and (Fr(got) != Fr(first_want[0]) or Fr(got) < first_at[0]):
            rec('play_quant_schedules_on_grid', [], 'TempoClock%r; play(quant=Quant(%r, %r)) at beat %r' % (tuple(init), q0, p0, float(first_at[0])),
                repr(got), 'next_time_on_grid gave %r' % first_want[0])
        if q0 > 0 and (not is_int((Fr(got) - Fr(p0)) / Fr(q0)) or Fr(got) < first_at[0]):
            rec('play_quant_schedules_on_grid', [], 'TempoClock%r; play(quant=Quant(%r, %r)) at beat %r' % (tuple(init), q0, p0, float(first_at[0])),
                repr(got), 'the first run is off the grid or before the beat of the play')
        try:
            yield from driver(inval2)
        finally:
            state['driver'] = True
            check_done()

    first_want, first_at = [None], [None]
    others = []
    OTHER = (4.0, 1.25) if rt else (2.0, 1.25)

    def start(c):
        others.append(TempoClock(OTHER[0], OTHER[1], c._base_seconds if rt else None))
        first_at[0] = Fr(c.beats)
        first_want[0] = c.next_time_on_grid(q0, p0)
        Routine(first).play(c, Quant(q0, p0))

    if rt:
        t0 = math.floor((M.elapsed_time() + 0.03) * 256) / 256
        args = list(init) + [None] * (3 - len(init))
        args[2] = t0
        CUR['init'] = args
        c = TempoClock(*args)
        start(c)
        finished.wait(8.0)       # not finishing in time is not reported: machine load must not raise an alarm
        c.stop()
        for x in others:
            x.stop()
    else:
        def boot(inval):
            start(TempoClock(*init))
        Routine(boot).play(SystemClock)
        M._clock_scheduler.run()    # main.process() without closing the OSC score (times may be negative here)
        if len(done) != expected[0] or not state['driver']:
            rec('play_quant_schedules_on_grid', [list(h[:2]) for h in hist], 'play', '%d of %d played routines ran' % (len(done), expected[0]),
                'every played routine must run')


def probe_constructor():
    """The documented constructor arguments, every optional one also as an explicit 0 / 0.0 / -0.0:
    TempoClock(tempo, beats, seconds) relates (seconds, beats) -- `seconds` defaults to the logical time of the
    calling thread only when it is omitted."""
    if MODE == 'rt':
        return
    M.reset()

    def boot(inval):
        yield 5.0
        now = M.current_tt._seconds
        for tempo in (1, 2.0, None, 0, 0.0):
            for beats in (None, 0, 0.0, -0.0, 2.5, 3):
                for seconds in (None, 0, 0.0, -0.0, 1.5, 7):
                    CUR['init'] = [tempo, beats, seconds]
                    call = 'TempoClock(%r, %r, %r) created at logical second %r' % (tempo, beats, seconds, now)
                    try:
                        c = TempoClock(tempo, beats, seconds)
                    except Exception as e:
                        rec('constructor_reference_point', [], call, '%s: %s' % (type(e).__name__, e), 'valid arguments raised')
                        continue
                    t = Fr(tempo) if tempo else Fr(1)
                    ref_s = Fr(now) if seconds is None else Fr(seconds)
                    ref_b = Fr(beats) if beats is not None else Fr(0)
                    if Fr(c.secs2beats(float(ref_s))) != ref_b or Fr(c.beats) != ref_b + (Fr(now) - ref_s) * t:
                        rec('constructor_reference_point', [], call, 'secs2beats(%r) = %r, beats = %r' % (float(ref_s), c.secs2beats(float(ref_s)), c.beats),
                            'the map must go through (seconds, beats) = (%r, %r), so beats now = %r' % (float(ref_s), float(ref_b), float(ref_b + (Fr(now) - ref_s) * t)))
                    if Fr(c._beat_dur) * Fr(c._tempo) != 1 or Fr(c._tempo) != t:
                        rec('TInv', [], call, repr((c._tempo, c._beat_dur)), 'tempo %r and beat_dur * tempo = 1' % float(t))
    Routine(boot).play(SystemClock)
    M._clock_scheduler.run()    # main.process() without closing the OSC score (times may be negative here)


def probe_main_thread_rt():
    """RT, calls made from the MAIN thread several times in a row: every read of the main thread's time refreshes
    from physical time, so nothing is exact; only what must hold whatever the load: results on the grid, not before
    a beat read earlier, bounded by later reads, and no jump of the current beat across a change."""
    t0 = math.floor((M.elapsed_time() + 0.03) * 256) / 256
    CUR['init'] = [16.0, 0.0, t0]
    c = TempoClock(16.0, 0.0, t0)
    H = []
    try:
        last_g = last_nb = None
        for i in range(4):
            b0 = c.beats
            g = c.next_time_on_grid(1, 0.25)
            nb = c.next_bar()
            d = c.time_to_next_beat(1)
            b1 = c.beats
            call = 'main thread, round %d: beats, next_time_on_grid(1, 0.25), next_bar(), time_to_next_beat(1), beats' % i
            if not is_int(Fr(g) - Fr(1, 4)) or not (b0 <= g <= b1 + 1) or (last_g is not None and g < last_g):
                rec('grid_not_before_ref', H, call, repr((b0, g, b1)), 'on the grid, not before the beat read before, within one quant of the beat read after, non-decreasing')
            if not is_int(Fr(nb) / 4) or not (b0 <= nb <= b1 + 4) or (last_nb is not None and nb < last_nb):
                rec('next_bar_not_before', H, call, repr((b0, nb, b1)), 'a bar line, not before the beat read before, within one bar of the beat read after')
            if not (-(b1 - b0) - 1e-9 <= d <= 1):
                rec('time_to_next_beat_range', H, call, repr((b0, d, b1)), 'between -(time passed during the call) and quant')
            last_g, last_nb = g, nb
            time.sleep(0.01)
        for kind, v in (('tempo', 4.0), ('beats', 100.0), ('etempo', 8.0), ('tempo', 2)):
            t_a = M.elapsed_time()
            b_a = c.beats
            old = c._tempo
            if kind == 'tempo':
                c.tempo = v
            elif kind == 'etempo':
                c.etempo(v)
            else:
                c.beats = v
            b_b = c.beats
            t_b = M.elapsed_time()
            H = H + [[kind, v]]
            lo = Fr(v) if kind == 'beats' else Fr(b_a)
            hi = lo + Fr(t_b - t_a) * max(Fr(old), Fr(c._tempo)) + Fr(1, 10**6)
            if not (lo - Fr(1, 10**9) <= Fr(b_b) <= hi):
                rec({'tempo': 'tempo_change_continuous', 'etempo': 'etempo_continuous', 'beats': 'beats_set_continuous'}[kind], H,
                    'main thread: %s = %r' % (kind, v), repr((b_a, b_b, t_b - t_a)),
                    'the current beat may only advance by the time that passed times the tempo')
            if abs(Fr(c._beat_dur) * Fr(c._tempo) - 1) > Fr(1, 10**12):
                rec('TInv', H, kind, repr((c._tempo, c._beat_dur)), 'beat_dur * tempo = 1')
    except Exception as e:
        rec('raised', H, 'main thread calls', '%s: %s' % (type(e).__name__, e), 'raised')
    c.stop()


def main():
    spec = json.load(open(sys.argv[1]))
    rng = random.Random(spec.get('seed', 0))
    n = spec.get('n', 150)
    plays = [(4, 0), (4, -1), (1, 0.5), (1.5, -1.25), (3, 2)]
    if MODE == 'rt':
        tempi = [2.0, 4.0, 8.0, 16.0, 4]
        meters = [0.5, 1.0, 2.0, 2]
        rplays = [(1, 0), (0.5, 0.25), (1, -0.25), (0.75, 0.5), (1.5, -1.25)]

        def rop():
            k = rng.choice(['tempo', 'tempo', 'tempo', 'beats_rel', 'meter'])
            v = rng.choice(tempi) if k == 'tempo' else rng.choice(meters) if k == 'meter' else rng.choice([0.0, 0.25, 0.625, 1.5])
            return (k, v, rng.choice([0, 0.125, 0.25, 0.5]))
        probe_main_thread_rt()
        # late routine, fast clock, short bars: a method that took physical time would be more than a bar off
        run_history([('meter', 0.5, 0.125), ('beats_rel', 0.25, 0.125), ('tempo', 8.0, 0)], (16.0, 0.0), rplays[:2])
        # shortest first: one tempo change from a routine on the clock, after a yield (so that logical and physical time differ)
        run_history([('beats_rel', 0.0, 0.25), ('tempo', 4.0, 0.125)], (2.0, 0.0), rplays[:2])
        run_history([('meter', 2.0, 0.25), ('tempo', 8.0, 0.25), ('beats_rel', 0.625, 0.125)], (4.0, 1.25), rplays[2:4])
        for i in range(n):
            run_history([rop() for _ in range(1 + i % 3)], (rng.choice(tempi), rng.choice([0.0, 1.25, -3.0])), rng.sample(rplays, 2),
                        play_after=rng.choice([0, 1, 1]))
        json.dump({'bad': bad, 'mode': MODE}, open(sys.argv[2], 'w'))
        sys.stdout.flush()
        os._exit(0)
    tempi = [0.25, 0.5, 1.0, 2.0, 4.0, 2, 8, 1024.0, 1 / 256]
    meters = [0.5, 1.0, 2.0, 4.0, 8.0, 2, 4, 64]
    beats = [0.0, 1.0, 2.5, -3.0, 7.75, 100.5, 5]

    def op():
        k = rng.choice(['tempo', 'tempo', 'etempo', 'beats', 'meter', 'meter'])
        v = rng.choice(tempi if k in ('tempo', 'etempo') else meters if k == 'meter' else beats)
        return (k, v, rng.choice([0, 0.25, 1.0, 1.5, 3.0]))
    # shortest first
    probe_constructor()
    run_history([], (), [(1, 0)])
    run_history([], (2.0,), plays)
    for k in ('tempo', 'etempo', 'beats', 'meter'):
        for v in (tempi[3:5] if k in ('tempo', 'etempo') else meters[2:4] if k == 'meter' else beats[2:4]):
            for y in (0, 1.5):
                run_history([('beats', 0.0, 1.25), (k, v, y)], (), plays[:2])
    # a meter change at a beat where base_bar_beat - base_bar is not a multiple of the quants probed afterwards
    for b0, bpb in ((1.25, 4.0), (2.75, 3.0 if False else 2.0), (0.375, 4.0), (5.5, 8.0)):
        run_history([('beats', 0.0, b0), ('meter', bpb, 0.625), ('meter', 4.0, 0)], (), plays[1:4])
    # changes between a play and its wake-up
    run_history([('beats', 0.0, 0.25), ('tempo', 2.0, 0.5), ('tempo', 0.5, 0)], (), plays[:3])
    run_history([('beats', 0.0, 0.25), ('beats', 1.5, 0.25), ('etempo', 4.0, 0.125)], (), plays[:3])
    for i in range(n):
        ln = 1 + (i * 5) // max(n, 1)
        init = (rng.choice(tempi), rng.choice(beats), rng.choice([0.0, 1.5, 3.0, 0.25]))
        run_history([op() for _ in range(ln)], init, rng.sample(plays, 2), play_after=rng.choice([0, 1, 1, 2]))
    json.dump({'bad': bad, 'mode': MODE}, open(sys.argv[2], 'w'))


main()
