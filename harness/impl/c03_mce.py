"""C03: run multichannel-expansion cases on the REAL sc3 library.

Input  {'cases': [case...]}            (case format: see harness/props/C03.py)
Output {'out': [{'res': tree|None, 'err': None|[code, name], 'units': [[clskey, [tree...]]...],
                 'top': type name of the result}]}

Every case runs inside a SynthDef graph function (so that units are registered in
synthdef._children in creation order); the function records the result and the children
and then aborts the build with a private exception (the inputs are frequently not
compilable -- tuples, strings, control-rate channels for Out.ar -- and nothing after the
constructor calls belongs to this property)."""
import json
from fractions import Fraction
import os
import sys

import sc3
sc3.init(os.environ.get('SC3_MODE', 'nrt'))
import sc3.base.main as _m
from sc3.synth.synthdef import SynthDef
from sc3.synth import ugen as ugn
from sc3.synth import _graphparam as gpp
from sc3.synth.ugen import ChannelList, UGen, OutputProxy, MulAdd, BasicOpUGen
from sc3.synth.ugens import oscillators as ocl, noise as nse, line as lne, pan as pan_, inout as iou, \
    filter as flr, trig as trg, foscillators as fos
import operator
from sc3.base import utils as utl
import sc3.base.builtins as bi_

CLASSES = {'SinOsc': ocl.SinOsc, 'Saw': fos.Saw, 'LFNoise0': nse.LFNoise0, 'Line': lne.Line,
           'Impulse': ocl.Impulse, 'Pan2': pan_.Pan2, 'LFSaw': ocl.LFSaw, 'XLine': lne.XLine,
           'Clip': trg.Clip, 'DC': lne.DC}
from sc3.synth.ugens import delays as dly
CLASSES.update({n: getattr(dly, n) for n in ('Delay1', 'DelayN', 'DelayC', 'CombL', 'AllpassC', 'BufDelayN', 'BufCombL', 'DelTapWr')})
OPS = {'+': operator.add, '*': operator.mul, '-': operator.sub}
ERR = {'ZeroDivisionError': 1, 'IndexError': 2, 'TypeError': 3, 'AttributeError': 4}


class Abort(Exception):
    pass


class MyList(list):
    """a list subclass that is not a ChannelList: isinstance(x, list) holds, type(x) is list does not"""


def build_value(t, pre, memo=None):
    k = t[0]
    if k == 'K':
        return int(t[1])
    if k == 'F':
        return float(t[1])
    if k == 'B':
        return bool(t[1])
    if k == 'Q':
        return float(Fraction(t[1]))
    if k == 'Z':
        return -0.0
    if k == 'U':
        v = pre[t[1]]
        if isinstance(v, list):
            return v[t[2]]
        return v
    if k == 'S':
        return str(t[1])
    if k == 'N':
        return None
    if k in ('T', 'L', 'C', 'M'):
        key = json.dumps(t)
        if memo is not None and key in memo:
            return memo[key]           # the SAME object for equal sub-trees (aliasing)
        xs = [build_value(x, pre, memo) for x in t[1]]
        v = tuple(xs) if k == 'T' else xs if k == 'L' else ChannelList(xs) if k == 'C' else MyList(xs)
        if memo is not None:
            memo[key] = v
        return v
    raise ValueError(t)


def snap(v):
    """structure of an argument object, to detect in-place mutation by the library"""
    if isinstance(v, (list, tuple)):
        return [type(v).__name__, id(v), [snap(x) for x in v]]
    if isinstance(v, ugn.SynthObject):
        return ['obj', id(v)]
    return [type(v).__name__, repr(v)]


def canon(v, index):
    if isinstance(v, OutputProxy):
        return ['U', index[id(v.source_ugen)], v._output_index]
    if isinstance(v, ugn.SynthObject):
        return ['U', index.get(id(v), -1), 0]
    if isinstance(v, bool):
        return ['K', int(v), 'b']
    if isinstance(v, int):
        return ['K', v, 'i']
    if isinstance(v, float):
        if v != v or v in (float('inf'), float('-inf')):
            return ['Q', repr(v)]
        if v == int(v):
            return ['K', int(v), 'z' if (v == 0 and str(v)[0] == '-') else 'f']
        return ['Q', repr(v)]
    if isinstance(v, str):
        return ['S', v]
    if v is None:
        return ['N']
    if isinstance(v, tuple):
        return ['T', [canon(x, index) for x in v]]
    if isinstance(v, list):
        return ['L', [canon(x, index) for x in v]]
    return ['X', type(v).__name__]


def clskey(u):
    """[class name (+ operator) / number of outputs / special index, rate]"""
    k = type(u).__name__
    if isinstance(u, BasicOpUGen):
        k += '/%s' % u.operator
    return ['%s/o%d/s%d' % (k, u._num_outputs(), u._special_index), u.rate]


def _label(ins, k):
    # ... len(label), *label  ->  the label string
    n = ins[k]
    return ins[:k] + [bytes(int(x) for x in ins[k + 1:k + 1 + n]).decode('utf-8')] + ins[k + 1 + n:]


def unit_inputs(u):
    if isinstance(u, iou.AbstractControl):
        return list(u.values)
    if type(u).__name__ == 'Poll':
        return _label(list(u.inputs), 3)      # trig, input, trig_id, len(label), *label
    if type(u).__name__ == 'Dpoll':
        return _label(list(u.inputs), 3)      # input, trig_id, run, len(label), *label
    return list(u.inputs)


def make_prelude(spec):
    pre = []
    for j, kind in enumerate(spec):
        if kind == 'sin':
            pre.append(ocl.SinOsc.ar(100 + j, 0))
        elif kind == 'sink':
            pre.append(ocl.SinOsc.kr(100 + j, 0))
        elif kind == 'ir':
            pre.append(trg.Clip.ir(100 + j, 0, 1))
        elif kind == 'pan':
            pre.append(pan_.Pan2.ar(100 + j, 0, 1))
        elif kind == 'pank':
            pre.append(pan_.Pan2.kr(100 + j, 0, 1))
        else:
            raise ValueError(kind)
    return pre


def narop_fn(x, p, q):
    return 100 * x + 10 * p + q


def call(case, pre, bv=None):
    kind = case['kind']
    if bv is None:
        bv = lambda t: build_value(t, pre)
    opt = lambda key: [bv(case[key])] if case.get(key) is not None else []
    if kind == 'ctor':
        cls = CLASSES[case['cls']]
        args = [bv(a) for a in case['args']]
        kwargs = {k: bv(a) for k, a in sorted(case.get('kwargs', {}).items())}
        return getattr(cls, case['rate'])(*args, **kwargs)
    if kind in ('clbinop', 'clrbinop', 'ugenbinop', 'ugenrbinop'):
        a = bv(case['a'])
        rest = [bv(case['b'])] if case.get('b') is not None else []      # operand omitted: the method's default
        if case.get('named'):
            # any other binary operator: the method a.<name>(b), the builtins function bi.<name>(a, b)
            # (the only form when the left operand is a plain number / list), or Python's round(a, b)
            name, form = case['named'], case.get('form', 'function')
            if form == 'builtin':
                return round(a, *rest)
            if form == 'method' and hasattr(a, name):
                return getattr(a, name)(*rest)
            return getattr(bi_, name)(a, *rest)
        return OPS[case['op']](a, rest[0])
    if kind == 'clunop':
        a = bv(case['a'])
        if case.get('named'):
            name, form = case['named'], case.get('form', 'function')
            if form == 'builtin':
                return abs(a)
            if form == 'method' and hasattr(a, name):
                return getattr(a, name)()
            return getattr(bi_, name)(a)
        return -a
    if kind == 'method':
        recv = bv(case['self'])
        return getattr(recv, case['meth'])(*[bv(a) for a in case['args']])
    if kind == 'narop':
        return utl.list_narop(narop_fn, bv(case['a']), *[bv(x) for x in case['args']])
    if kind == 'dup':
        return bv(case['self']).dup(case['n'])
    if kind == 'sum':
        return bv(case['self']).sum()
    if kind == 'poll':
        recv = bv(case['self'])
        return recv.poll(bv(case['trig']), bv(case['label']), bv(case['tid']))
    if kind == 'dpoll':
        recv = bv(case['self'])
        return recv.dpoll(bv(case['label']), bv(case['run']), bv(case['tid']))
    if kind == 'madd':
        recv = bv(case['self'])
        if case.get('mul') is None:
            return recv.madd()
        if case.get('add') is None:
            return recv.madd(bv(case['mul']))
        return recv.madd(bv(case['mul']), bv(case['add']))
    if kind == 'muladd_new':
        recv = bv(case['self'])
        return MulAdd.new(recv, bv(case['mul']), bv(case['add']))
    if kind in ('out_ar', 'out_kr'):
        # every output class: fixed arguments (bus | bus, xfade | none), then the channel array
        fixed = [bv(case[key]) for key in ('bus', 'xfade') if case.get(key) is not None]
        return getattr(getattr(iou, case.get('cls', 'Out')), kind[-2:])(*fixed, bv(case['output']))
    raise ValueError(kind)


def run_case(case):
    box = {}

    def graph():
        sd = _m.main._current_synthdef
        try:
            pre = make_prelude(case['pre'])
            built, snaps, memo = [], [], ({} if case.get('share') else None)

            def record(t):
                v = build_value(t, pre, memo)
                built.append(v)
                snaps.append(snap(v))          # as handed to the library
                return v
            try:
                r = call(case, pre, record)
                if case.get('twice'):
                    # the same argument OBJECTS a second time (a ChannelList reused across calls)
                    it = iter(list(built))
                    r = call(case, pre, lambda t: next(it))
                box['r'] = r
            except Exception as e:        # noqa
                box['e'] = e
            box['mutated'] = [snap(v) for v in built] != snaps
            box['children'] = list(sd._children)
        finally:
            pass
        raise Abort()

    try:
        SynthDef('c03', graph)
    except Abort:
        pass
    except Exception as e:   # the prelude failed or the library broke before our abort
        return {'res': None, 'err': [7, 'harness:' + type(e).__name__ + ':' + str(e)[:200]], 'units': [], 'top': ''}
    if _m.main._current_synthdef is not None:
        return {'res': None, 'err': [7, 'harness:build context not released'], 'units': [], 'top': ''}
    children = box.get('children', [])
    index = {id(u): i for i, u in enumerate(children)}
    units = [[clskey(u), [canon(x, index) for x in unit_inputs(u)]] for u in children]
    if 'e' in box:
        e = box['e']
        name = type(e).__name__
        return {'res': None, 'err': [ERR.get(name, 8), name + ': ' + str(e)[:200]], 'units': units, 'top': '', 'mutated': box.get('mutated', False)}
    r = box['r']
    return {'res': canon(r, index), 'err': None, 'units': units, 'top': type(r).__name__, 'mutated': box.get('mutated', False)}


def py_as_list(a):
    return a if isinstance(a, list) else [a]


def clmeth_rhs(recv, meth, args):
    """the right-hand side of channel_list_methods_law, with the element's OWN method as leaf:
    channel i = (element i mod |self|).meth(every argument picked i modulo its length)"""
    cols = [py_as_list(a) for a in args]
    n = max([len(recv)] + [len(c) for c in cols])
    res = []
    for i in range(n):
        x = recv[i % len(recv)]
        picked = [c[i % len(c)] if len(c) else [] for c in cols]
        res.append(getattr(gpp.ugen_param(x), meth)(*picked))
    return ChannelList(res)


def run_clmeth(case):
    """whole call and per-channel calls in two builds with the same prelude"""
    def one(side):
        box = {}

        def graph():
            sd = _m.main._current_synthdef
            pre = make_prelude(case['pre'])
            recv = build_value(case['self'], pre)
            args = [build_value(a, pre) for a in case['args']]
            try:
                box['r'] = getattr(recv, case['meth'])(*args) if side == 'A' else clmeth_rhs(recv, case['meth'], args)
            except Exception as e:   # noqa
                box['e'] = type(e).__name__
            box['children'] = list(sd._children)
            raise Abort()
        try:
            SynthDef('c03m', graph)
        except Abort:
            pass
        children = box.get('children', [])
        index = {id(u): i for i, u in enumerate(children)}
        units = [[clskey(u), [canon(x, index) for x in unit_inputs(u)]] for u in children]
        if 'e' in box:
            return {'res': None, 'err': box['e'], 'units': units, 'top': ''}
        return {'res': canon(box['r'], index), 'err': None, 'units': units, 'top': type(box['r']).__name__}
    a, b = one('A'), one('B')
    return {'res': a['res'], 'err': [0, a['err']] if a['err'] else None, 'units': a['units'], 'top': a['top'],
            'clmeth': {'A': a, 'B': b}}


def probe_meta():
    """facts about the tree under test that the property text does not fix (reported, not judged)"""
    box = {}

    def graph():
        sd = _m.main._current_synthdef
        iou.LocalOut.kr(ocl.SinOsc.kr(1, 0))
        box['localout_kr_rate'] = sd._children[-1].rate
        box['channel_list_methods'] = sorted(n for n, f in ChannelList.__dict__.items() if callable(f) and not n.startswith('_'))
        raise Abort()
    try:
        SynthDef('c03meta', graph)
    except Abort:
        pass
    except Exception as e:   # noqa
        box['error'] = repr(e)
    return box


def main():
    cases = json.load(open(sys.argv[1]))['cases']
    out = []
    for c in cases:
        try:
            out.append(run_clmeth(c) if c['kind'] == 'clmeth' else run_case(c))
        except Exception as e:   # never let one case kill the run
            out.append({'res': None, 'err': [7, 'harness:' + type(e).__name__ + ':' + str(e)[:200]], 'units': [], 'top': ''})
    json.dump({'out': out, 'meta': probe_meta()}, open(sys.argv[2], 'w'))


main()
