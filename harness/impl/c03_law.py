"""C03 law probe (used by search): test the wrap-and-zip law DIRECTLY on the real library,
without any model.

For a call f(x1..xn) in which some arguments are lists (none empty):
    whole  = f(x1..xn)
    part_i = f(x1[i % len x1] if list else x1, ...)         for i < max len
the law demands  whole == ChannelList([part_0, part_1, ...])  (compared structurally: a unit
is (class, rate, operator, structural inputs), because different builds create different
objects) and  units(whole) == sum_i units(part_i).

Input {'cases': [...]}, output {'bad': [{case, whole, parts, why}], 'checked': n}."""
import json
import os
import sys

sys.argv_saved = list(sys.argv)
import importlib.util
_spec = importlib.util.spec_from_file_location('c03_mce_lib', os.path.join(os.path.dirname(os.path.abspath(__file__)), 'c03_mce.py'))

# reuse the runner's helpers without running its main(): load the source and drop the call
_src = open(_spec.origin).read().rsplit('\nmain()', 1)[0]
_ns = {'__name__': 'c03_mce_lib', '__file__': _spec.origin}
exec(compile(_src, _spec.origin, 'exec'), _ns)
run_raw = _ns['run_case']
ugn = _ns['ugn']
OutputProxy = _ns['OutputProxy']
BasicOpUGen = _ns['BasicOpUGen']
_m = _ns['_m']
SynthDef = _ns['SynthDef']
Abort = _ns['Abort']
make_prelude = _ns['make_prelude']
call = _ns['call']
clskey = _ns['clskey']
unit_inputs = _ns['unit_inputs']


def struct(v):
    if isinstance(v, OutputProxy):
        return ['p', struct(v.source_ugen), v._output_index]
    if isinstance(v, ugn.SynthObject):
        return ['u', clskey(v), [struct(x) for x in unit_inputs(v)]]
    if isinstance(v, bool):
        return ['b', v]
    if isinstance(v, (int, float)):
        return ['k', float(v)]
    if isinstance(v, str) or v is None:
        return ['s', v]
    if isinstance(v, tuple):
        return ['t', [struct(x) for x in v]]
    if isinstance(v, list):
        return ['l', [struct(x) for x in v]]
    return ['x', type(v).__name__]


def run_struct(case):
    box = {}

    def graph():
        sd = _m.main._current_synthdef
        pre = make_prelude(case['pre'])
        n0 = len(sd._children)
        try:
            box['r'] = struct(call(case, pre))
        except Exception as e:   # noqa
            box['e'] = type(e).__name__ + ': ' + str(e)[:120]
        box['n'] = len(sd._children) - n0
        if case['kind'] == 'ctor' and case['cls'] in AUDIO_IN and case['rate'] == 'ar':
            # these constructors convert the signal input to audio rate BEFORE the expansion: a non-list
            # input is converted once and shared by all channels, so only the units of the class itself
            # are one per combination (the conversion units are compared structurally, per channel)
            box['n'] = len([u for u in sd._children[n0:] if type(u).__name__ == case['cls']])
        raise Abort()
    try:
        SynthDef('c03law', graph)
    except Abort:
        pass
    return box


AUDIO_IN = ('DelayN', 'DelayC', 'CombL', 'AllpassC', 'BufDelayN', 'BufCombL', 'DelTapWr')


def is_list(t):
    return t is not None and t[0] in ('L', 'C', 'M')


def pick(t, i):
    return t[1][i % len(t[1])] if is_list(t) else t


def has_empty(t):
    if t is not None and t[0] in ('L', 'C', 'M'):
        return len(t[1]) == 0 or any(has_empty(x) for x in t[1])
    return False


def slots(case):
    """the argument positions that take part in the expansion, as (get, set) on a copy"""
    k = case['kind']
    if k == 'ctor':
        return [('args', j) for j in range(len(case['args']))] + [('kwargs', n) for n in sorted(case.get('kwargs', {}))]
    if k in ('clbinop', 'clrbinop', 'ugenbinop', 'ugenrbinop'):
        return [('a', None), ('b', None)]
    if k == 'method':
        return [('self', None)] + [('args', j) for j in range(len(case['args']))]
    if k in ('madd', 'muladd_new'):
        return [('self', None)] + [(k2, None) for k2 in ('mul', 'add') if case.get(k2) is not None]
    return []


def get(case, s):
    return case[s[0]] if s[1] is None else case[s[0]][s[1]]


def put(case, s, v):
    if s[1] is None:
        case[s[0]] = v
    else:
        case[s[0]][s[1]] = v


def probe_one(case, bad):
    checked = 0
    for case in [case]:
        if case['kind'] == 'sum':
            # flat receivers only: sum() must be the left fold of the elements with the operator +
            items = case['self'][1]
            if not items or any(x[0] in ('L', 'C', 'T', 'S', 'N') for x in items):
                continue
            whole = run_struct(case)
            exp = run_struct_fold(case)
            if 'e' in whole or 'e' in exp:
                continue
            checked += 1
            if whole['r'] != exp['r'] or whole['n'] != exp['n']:
                bad.append({'case': case, 'whole': whole['r'], 'whole_units': whole['n'], 'parts': [exp['r']],
                            'parts_units': exp['n'], 'why': 'sum() is not 0 + x0 + x1 + ... (left to right)'})
            continue
        if case['kind'] == 'poll':
            # flat receiver, default labels: one Poll per channel, channel i polls self[i mod n]
            # under the label 'ChannelList UGen [i mod n]'
            items = case['self'][1]
            if case['label'] != ['N'] or any(x[0] != 'U' for x in items):
                continue
            o = run_raw(case)
            if o['err'] is not None:
                continue
            checked += 1
            polls = [u for u in o['units'] if u[0][0].startswith('Poll/')]
            n = len(items)
            lens = [n] + [len(case[k][1]) for k in ('trig', 'tid') if is_list(case[k])]
            why = None
            if any(has_empty(case[k]) for k in ('trig', 'tid')):
                continue
            if len(polls) != max(lens) and not any(is_list(x) for k in ('trig', 'tid') if is_list(case[k]) for x in case[k][1]):
                why = '%d Poll units for %d channels' % (len(polls), max(lens))
            else:
                rate_of = {'sin': 'audio', 'pan': 'audio', 'sink': 'control', 'pank': 'control', 'ir': 'control'}
                for i, u in enumerate(polls[:max(lens)]):
                    if len(polls) == max(lens) and u[1][3] != ['S', 'ChannelList UGen [%d]' % (i % n)]:
                        why = 'channel %d polled under label %s' % (i, u[1][3])
                    elif len(polls) == max(lens) and u[0][1] != rate_of[case['pre'][items[i % n][1]]]:
                        why = 'channel %d (a %s-rate signal) is polled by a %s-rate Poll' % (
                            i, rate_of[case['pre'][items[i % n][1]]], u[0][1])
            if why:
                bad.append({'case': case, 'whole': o['units'], 'whole_units': len(polls), 'parts': [], 'parts_units': max(lens), 'why': why})
            continue
        if case['kind'] in ('out_ar', 'out_kr'):
            # Output units (every class and rate).  (a) audio rate: no literal zero may reach the unit,
            # what replaces it must be an output of a DC(0) unit;  (b) the channel array is SPLICED:
            # with a flat channel array there is one unit per combination of the arguments BEFORE the
            # channels, each carrying every channel after those arguments
            o = run_raw(case)
            if o['err'] is not None:
                continue
            checked += 1
            fixed = [case[key] for key in ('bus', 'xfade') if case.get(key) is not None]
            nf = len(fixed)
            outs = [u for u in o['units'][len(case['pre']):] if u[0][0].startswith(case.get('cls', 'Out') + '/')]
            why = None
            if case['kind'] == 'out_ar':
                for u in outs:
                    if any(x[0] == 'K' and x[1] == 0 for x in u[1][nf:]):
                        why = 'a literal zero reaches the output unit: inputs %s' % (u[1],)
                nz = sum(json.dumps(case['output']).count(z) for z in ('["K", 0]', '["F", 0]', '["B", 0]', '["Z"]'))
                if why is None and nz and '"T"' not in json.dumps(case['output']):
                    dcs = {i for i, u in enumerate(o['units']) if u[0][0].startswith('DC/') and u[0][1] == 'audio' and len(u[1]) == 1 and u[1][0][:2] == ['K', 0]}
                    if not any(x[0] == 'U' and x[1] in dcs for u in outs for x in u[1][nf:]) and outs:
                        why = 'zeros were given but no output unit reads a DC(0) silence unit'
            chans = case['output'][1] if is_list(case['output']) else [case['output']]
            flat = not any(is_list(x) for x in chans) and not any(is_list(x) for f in fixed if is_list(f) for x in f[1]) \
                and not any(has_empty(f) for f in fixed)
            if why is None and flat:
                combos = max([len(f[1]) for f in fixed if is_list(f)] or [1])
                if len(outs) != combos:
                    why = '%d output units for %d combination(s) of the arguments before the %d-channel array' % (len(outs), combos, len(chans))
                elif any(len(u[1]) != nf + len(chans) for u in outs):
                    why = 'an output unit has %s inputs, expected %d fixed + %d channels' % ([len(u[1]) for u in outs], nf, len(chans))
            if why:
                bad.append({'case': case, 'whole': o['units'], 'whole_units': len(outs), 'parts': [], 'parts_units': 0, 'why': why})
            continue
        ss = slots(case)
        lens = [len(get(case, s)[1]) for s in ss if is_list(get(case, s))]
        if not lens or any(has_empty(get(case, s)) for s in ss):
            continue
        n = max(lens)
        whole = run_struct(case)
        if 'e' in whole:
            continue     # raising calls are outside the law
        parts, units, skip = [], 0, False
        for i in range(n):
            sub = json.loads(json.dumps(case))
            for s in ss:
                put(sub, s, pick(get(case, s), i))
            if sub['kind'] in ('clbinop', 'clrbinop', 'ugenbinop', 'ugenrbinop'):
                # a picked sub-list must stay a ChannelList, or Python's own list operators apply
                for key in ('a', 'b'):
                    if sub[key][0] == 'L':
                        sub[key] = ['C', sub[key][1]]
            # the receiver of a method / the ChannelList operand became a single object
            if sub['kind'] in ('method', 'madd') and not is_list(sub['self']):
                if sub['self'][0] != 'U':
                    skip = True
                    break
                sub['kind'] = 'unit_' + sub['kind']
            p = run_struct_unit(sub) if sub['kind'].startswith('unit_') else run_struct(sub)
            if 'e' in p:
                skip = True
                break
            parts.append(p['r'])
            units += p['n']
        if skip:
            continue
        checked += 1
        why = None
        if whole['r'] != ['l', parts]:
            why = 'result is not the channel list of the per-channel calls'
        elif whole['n'] != units:
            why = 'expanded call created %d units, the per-channel calls %d' % (whole['n'], units)
        if why:
            bad.append({'case': case, 'whole': whole['r'], 'whole_units': whole['n'],
                        'parts': parts, 'parts_units': units, 'why': why})
    return checked


def main():
    cases = json.load(open(sys.argv[1]))['cases']
    bad, checked = [], 0
    for case in cases:
        try:
            checked += probe_one(case, bad)
        except Exception as e:   # the library broke in a way the probe does not expect: report the call
            bad.append({'case': case, 'whole': None, 'whole_units': 0, 'parts': [], 'parts_units': 0,
                        'why': 'the probe raised %s: %s' % (type(e).__name__, str(e)[:160])})
    json.dump({'bad': bad, 'checked': checked}, open(sys.argv[2], 'w'))


def run_struct_fold(case):
    import functools, operator
    box = {}
    bv = _ns['build_value']

    def graph():
        sd = _m.main._current_synthdef
        pre = make_prelude(case['pre'])
        n0 = len(sd._children)
        try:
            box['r'] = struct(functools.reduce(operator.add, [bv(x, pre) for x in case['self'][1]], 0))
        except Exception as e:   # noqa
            box['e'] = type(e).__name__
        box['n'] = len(sd._children) - n0
        raise Abort()
    try:
        SynthDef('c03law', graph)
    except Abort:
        pass
    return box


def run_struct_unit(sub):
    """self is a single unit: call the UGen's own method"""
    box = {}
    bv = _ns['build_value']

    def graph():
        sd = _m.main._current_synthdef
        pre = make_prelude(sub['pre'])
        n0 = len(sd._children)
        try:
            recv = bv(sub['self'], pre)
            if sub['kind'] == 'unit_madd':
                r = recv.madd(*[bv(sub[k2], pre) for k2 in ('mul', 'add') if sub.get(k2) is not None])
            else:
                r = getattr(recv, sub['meth'])(*[bv(a, pre) for a in sub['args']])
            box['r'] = struct(r)
        except Exception as e:   # noqa
            box['e'] = type(e).__name__ + ': ' + str(e)[:120]
        box['n'] = len(sd._children) - n0
        raise Abort()
    try:
        SynthDef('c03law', graph)
    except Abort:
        pass
    return box


main()
