"""C17 -- history generator (pure Python, no sc3 import).

A history is a flat list of ops (see harness/impl/c17_hist.py for the op vocabulary).
`gen_history(rng, cls)` with cls in
  'valid'     every op is inside the domain in which the library promises protocol conformance
  'misuse'    valid ops plus documented misuse whose behaviour the model also describes
              (use after free, odd argument lists, dict / tuple arguments in odd places,
              bad add actions, unencodable values) -- only compared with the model
The generator keeps a light symbolic state so that object references are meaningful.
"""
from fractions import Fraction

CTL_S = ['freq', 'amp', 'gate', 'out', 'bufnum', 'pan', 'in']
ACTIONS = ['addToHead', 'addToTail', 'addBefore', 'addAfter', 'addReplace', 'head', 'tail', 'before',
           'after', 'replace', 'h', 't', 'b', 'a', 'r', 0, 1, 2, 3, 4]
DEFS = ['default', 'c17', 'sine']
PATHS = ['/tmp/a.wav', '/tmp/snd/b.aiff', 'c.wav']


def vi(x): return {'v': 'i', 'x': int(x)}
def vf(x): return {'v': 'f', 'x': str(Fraction(x))}
def vb(x): return {'v': 'b', 'x': bool(x)}
def vs(x): return {'v': 's', 'x': x}
def vl(x): return {'v': 'l', 'x': list(x)}
def vt(x): return {'v': 't', 'x': list(x)}
def vd(x): return {'v': 'd', 'x': [list(p) for p in x]}
VNONE = {'v': 'none'}


class Sym:
    """symbolic client state used only to pick meaningful operands"""
    def __init__(self):
        self.nodes = []     # dict(kind='s'|'g', freed=bool)
        self.next_id = 1000  # NodeIDAllocator hands out 1000, 1001, ... (client 0)
        self.bufs = []      # dict(freed=bool, stale=bool, alloc=bool)
        self.buses = []     # dict(audio=bool, freed=bool, ch=int)
        self.depth = 0

    def live_nodes(self, kind=None):
        return [i for i, n in enumerate(self.nodes) if n is not None and (kind is None or n['kind'] == kind)]

    def live_bufs(self):
        return [i for i, b in enumerate(self.bufs) if not b['freed'] and not b['stale']]

    def live_buses(self, audio=None):
        return [i for i, u in enumerate(self.buses) if not u['freed'] and (audio is None or u['audio'] == audio)]


class Gen:
    def __init__(self, rng, cls='valid', sync=False):
        self.r = rng
        self.cls = cls
        self.sync = sync          # real-time histories: server.sync() anywhere, also inside bind blocks
        self.s = Sym()
        self.ops = []
        self.tags = set()

    # ---- values -------------------------------------------------------------------
    def num(self):
        r = self.r
        k = r.random()
        if k < 0.45:
            return vi(r.choice([0, 1, 2, 3, 5, 7, 64, 440, -1, -3, 1000]))
        if k < 0.9:
            return vf(Fraction(r.randint(-64, 256), 1 << r.choice([0, 1, 2, 3, 4])))
        return vb(r.random() < 0.5)

    def scalar(self):
        """a control value: number, map symbol, or a live object"""
        r, s = self.r, self.s
        k = r.random()
        if k < 0.56:
            return self.num()
        if k < 0.6:
            return VNONE                      # None as a control value is sent as int 0
        if k < 0.7 and s.live_buses():
            return {'v': 'bus', 'i': r.choice(s.live_buses())}
        if k < 0.8 and s.live_bufs():
            return {'v': 'buf', 'i': r.choice(s.live_bufs())}
        if k < 0.87 and s.live_nodes():
            return {'v': 'node', 'i': r.choice(s.live_nodes())}
        if k < 0.95 and s.live_buses():
            i = r.choice(s.live_buses())
            s.buses[i]['mapped'] = True
            return {'v': 'map', 'i': i}
        if k < 0.99:
            # an accessor used after free: bus.as_map() of a freed bus (possibly one whose map symbol was rendered while it
            # was allocated) must raise BusException -- the command is then never issued
            fb = [i for i, u in enumerate(s.buses) if u['freed'] and not u.get('dead')]
            if fb:
                self.tags.add('as_map-after-free')
                warm = [i for i in fb if s.buses[i].get('mapped')]
                return {'v': 'map', 'i': r.choice(warm if warm and r.random() < 0.7 else fb)}
        return self.num()

    def cvalue(self, depth=0):
        r = self.r
        if depth < 2 and r.random() < 0.25:
            items = [self.cvalue(depth + 1) for _ in range(r.choice([0, 1, 2, 3]))]
            if r.random() < 0.1:
                items.append(vs(r.choice(['', 'x'])))    # strings (also the empty one) are legal array elements
            return vl(items) if r.random() < 0.8 else vt(items)
        return self.scalar()

    def ctl(self):
        r = self.r
        return vs(r.choice(CTL_S)) if r.random() < 0.7 else vi(r.randint(0, 6))

    def pairs(self, lo=1, hi=3, flat=False):
        out = []
        for _ in range(self.r.randint(lo, hi)):
            out += [self.ctl(), self.scalar() if flat else self.cvalue()]
        return out

    def ctl_dict(self, lo, hi):
        keys = self.r.sample(CTL_S, self.r.randint(lo, hi))
        return vd([[vs(k_), self.cvalue(1)] for k_ in keys])

    def synth_args(self):
        r = self.r
        k = r.random()
        if k < 0.2:
            return None
        if k < 0.62:
            return vl(self.pairs(0, 3))
        if k < 0.7:
            self.tags.add('set-dict')
            return vl(self.pairs(0, 2) + [self.ctl_dict(1, 2)])
        if k < 0.8:
            return vt(self.pairs(1, 2))
        keys = r.sample(CTL_S, r.randint(0, 3))
        self.tags.add('dict-args')
        return vd([[vs(k_), self.scalar()] for k_ in keys])

    def target(self, need_node=False):
        r, s = self.r, self.s
        ln = s.live_nodes()
        k = r.random()
        if need_node or (k < 0.55 and ln):
            if not ln:
                return None
            return {'t': 'node', 'i': r.choice(ln)}
        if k < 0.7:
            return {'t': 'none'}
        if k < 0.85:
            return {'t': 'server'}
        if k < 0.90:
            return {'t': 'root'}
        # a target given as a number: 0 = root node, 1 = default group, or the id of an existing node
        ids = [nd['id'] for nd in s.nodes if nd is not None and nd.get('id') is not None]
        self.tags.add('int-target')
        return {'t': 'int', 'x': r.choice([0, 0, 1, 1] + ids[-3:] + [2000])}

    def compl(self, buffer_fn=True):
        r = self.r
        k = r.random()
        if k < 0.55:
            return None
        if k < 0.8 or not buffer_fn:
            return r.choice([
                {'k': 'msg', 'addr': '/n_run', 'args': [vi(1000), vi(r.choice([0, 1]))]},
                {'k': 'msg', 'addr': '/b_query', 'args': [vi(r.choice([0, 1, 3]))]},
                {'k': 'msg', 'addr': '/n_free', 'args': [vi(r.choice([1000, 1001]))]},
                {'k': 'msg', 'addr': '/n_set', 'args': [vi(1000), vs('gate'), vf(Fraction(1, 2))]}])
        return {'k': 'fn', 'addr': r.choice(['/b_query', '/b_zero', '/b_close']), 'args': []} \
            if r.random() < 0.7 else {'k': 'fn', 'addr': '/b_set', 'args': [vi(0), vf(Fraction(1, 2))]}

    # ---- ops ----------------------------------------------------------------------
    def stale_map(self, v):
        if isinstance(v, dict):
            if v.get('v') == 'map' and self.s.buses[v['i']]['freed']:
                return True
            return any(self.stale_map(x) for x in v.values())
        if isinstance(v, list):
            return any(self.stale_map(x) for x in v)
        return False

    def emit(self, op):
        # the caller's as_map() raises before the library is called: the op has no effect at all
        self.last_raises = self.stale_map(op.get('args'))
        if op['op'] in ('synth', 'n_set', 'n_setn', 'b_setn', 'bus_setn', 'b_sine1') and self.r.random() < 0.15:
            op = dict(op, then_mutate=True)      # the caller changes his own list / dict arguments after the call
            self.tags.add('args-mutated-after-call')
        self.ops.append(op)

    def op_synth(self):
        r, s = self.r, self.s
        ctor = r.choice(['init'] * 6 + ['new_paused', 'grain', 'replace', 'after', 'before', 'head', 'tail'])
        op = {'op': 'synth', 'ctor': ctor, 'def': r.choice(DEFS), 'args': self.synth_args(),
              'action': r.choice(ACTIONS), 'same_id': False}
        if ctor in ('replace', 'after', 'before', 'head', 'tail'):
            t = self.target(need_node=True)
            if t is None:
                return
            if ctor in ('head', 'tail') and s.nodes[t['i']]['kind'] != 'g':
                gs = s.live_nodes('g')
                if not gs:
                    return
                t = {'t': 'node', 'i': r.choice(gs)}
            op['target'] = t
            op['same_id'] = ctor == 'replace' and r.random() < 0.4
        else:
            op['target'] = self.target()
        self.emit(op)
        if ctor != 'grain' and not self.last_raises:
            if ctor == 'replace' and op['same_id']:
                nid = s.nodes[op['target']['i']].get('id')
            else:
                nid = s.next_id; s.next_id += 1
            s.nodes.append({'kind': 's', 'id': nid})

    def op_play(self):
        # the play() entry point: a function or a Buffer becomes a temporary definition and a Synth object whose creation
        # command travels as completion message; controls as list / tuple / dict, out bus as number or Bus object
        r, s = self.r, self.s
        k = r.random()
        if k < 0.3:
            args = vl(self.pairs(0, 3))
        elif k < 0.45:
            args = vt(self.pairs(0, 2))
        elif k < 0.8:
            keys = r.sample(CTL_S, r.randint(0, 3))
            args = vd([[vs(k_), self.scalar()] for k_ in keys])
            self.tags.add('play-dict-args')
        else:
            args = self.ctl_dict(1, 3)
            self.tags.add('play-dict-args')
        buses = s.live_buses()
        ob = {'v': 'bus', 'i': r.choice(buses)} if buses and r.random() < 0.3 else vi(r.choice([0, 0, 1, 2, 16]))
        op = {'op': 'play', 'kind': 'func', 'args': args, 'outbus': ob, 'fade': r.choice([0.02, 0]),
              'action': r.choice(ACTIONS), 'target': self.target()}
        bs = [i for i in s.live_bufs() if s.bufs[i].get('ch') in (1, 2) and s.bufs[i].get('alloc', True)]
        if bs and r.random() < 0.3:
            op.update({'kind': 'buf', 'b': r.choice(bs), 'loop': r.random() < 0.5})
            del op['target']
        self.emit(op)
        if not self.last_raises:
            s.nodes.append({'kind': 's', 'id': s.next_id}); s.next_id += 1
        self.tags.add('play')

    def op_big_block(self):
        # a bind() block of medium / large size: tens to hundreds of commands, 1 .. 30 KB of OSC, still one datagram
        # (at most 450 commands of < 100 bytes on average: far below the 65504-byte datagram limit and the runner's packet budget)
        r, s = self.r, self.s
        n = r.choice([30, 100, 200, 300, 450])
        self.emit({'op': 'bind_enter'})
        s.depth += 1
        for _ in range(n):
            w = r.random()
            if w < 0.45:
                self.op_synth()
            elif w < 0.5:
                self.op_group()
            elif w < 0.9:
                self.op_node_cmd()
            else:
                self.op_bus()
        self.emit({'op': 'bind_exit'})
        s.depth -= 1
        self.tags.add('bind'); self.tags.add('big-bind-block')

    def op_group(self):
        r, s = self.r, self.s
        ctor = r.choice(['init'] * 5 + ['after', 'before', 'head', 'tail', 'replace'])
        op = {'op': 'group', 'par': r.random() < 0.25, 'ctor': ctor, 'action': r.choice(ACTIONS)}
        if ctor != 'init':
            t = self.target(need_node=True)
            if t is None:
                return
            op['target'] = t
        else:
            op['target'] = self.target()
        self.emit(op)
        s.nodes.append({'kind': 'g', 'id': s.next_id}); s.next_id += 1

    def op_basic_new(self):
        # a client-side Group object for an id chosen by the caller (no command is sent)
        r, s = self.r, self.s
        ids = [nd['id'] for nd in s.nodes if nd is not None and nd.get('id') is not None]
        nid = r.choice([0, 0, 1, 1] + ids[-2:] + [3000 + len(s.nodes)])
        self.emit({'op': 'basic_new', 'id': nid})
        s.nodes.append({'kind': 'g', 'id': nid})
        self.tags.add('basic_new')

    def op_node_cmd(self):
        r, s = self.r, self.s
        ln = s.live_nodes()
        if not ln:
            return self.op_synth()
        n = r.choice(ln)
        k = r.choice(['n_set'] * 4 + ['n_setn'] * 3 + ['n_map', 'n_mapa', 'n_mapn', 'n_mapan', 'n_fill',
                      'n_release', 'n_run', 'n_free', 'n_trace', 'n_query', 'n_move_before', 'n_move_after',
                      'n_move_to_head', 'n_move_to_tail', 'g_free_all', 'g_deep_free', 'g_dump_tree', 's_reorder'])
        if k == 'n_set':
            z = r.random()
            if z < 0.2:        # the controls given as one dict
                self.emit({'op': k, 'n': n, 'args': [self.ctl_dict(1, 3)]})
                self.tags.add('set-dict')
            elif z < 0.3:      # pairs followed by a dict
                self.emit({'op': k, 'n': n, 'args': self.pairs(1, 2) + [self.ctl_dict(1, 2)]})
                self.tags.add('set-dict')
            else:
                self.emit({'op': k, 'n': n, 'args': self.pairs()})
        elif k == 'n_setn':
            args = []
            for _ in range(r.randint(1, 3)):
                if r.random() < 0.7:
                    v = vl([self.num() for _ in range(r.randint(0, 4))])
                else:
                    v = self.num()
                args += [self.ctl(), v]
            self.emit({'op': k, 'n': n, 'args': args})
        elif k in ('n_map', 'n_mapa', 'n_mapn', 'n_mapan'):
            audio = k in ('n_mapa', 'n_mapan')
            args = []
            for _ in range(r.randint(1, 3)):
                lb = s.live_buses(audio)
                if lb and r.random() < 0.7:
                    b = {'v': 'bus', 'i': r.choice(lb)}
                else:
                    b = vi(r.choice([-1, 0, 3, 12]))
                args += [self.ctl(), b]
            self.emit({'op': k, 'n': n, 'args': args})
        elif k == 'n_fill':
            args = []
            for _ in range(r.randint(1, 3)):
                args += [self.ctl(), vi(r.randint(0, 4)), self.num()]
            self.emit({'op': k, 'n': n, 'args': args})
        elif k == 'n_release':
            t = r.choice([None, vi(0), vi(2), vi(-1), vf(Fraction(5, 2)), vf(Fraction(-1, 2)), vf(0)])
            self.emit({'op': k, 'n': n, 'time': t})
        elif k == 'n_run':
            self.emit({'op': k, 'n': n, 'flag': vb(r.random() < 0.5)})
        elif k == 'n_free':
            self.emit({'op': k, 'n': n, 'send': r.random() < 0.9})
        elif k in ('n_trace', 'n_query'):
            self.emit({'op': k, 'n': n})
        elif k in ('n_move_before', 'n_move_after'):
            self.emit({'op': k, 'n': n, 't': r.choice(ln)})
        elif k in ('n_move_to_head', 'n_move_to_tail'):
            gs = s.live_nodes('g')
            self.emit({'op': k, 'n': n, 't': r.choice(gs) if gs and r.random() < 0.7 else None})
        elif k in ('g_free_all', 'g_deep_free', 'g_dump_tree'):
            gs = s.live_nodes('g')
            if not gs:
                return self.op_group()
            op = {'op': k, 'n': r.choice(gs)}
            if k == 'g_dump_tree':
                op['controls'] = r.random() < 0.5
            self.emit(op)
        elif k == 's_reorder':
            self.emit({'op': k, 'nodes': [r.choice(ln) for _ in range(r.randint(1, 3))],
                       'target': self.target(), 'action': r.choice(ACTIONS)})

    def op_server(self):
        r = self.r
        k = r.choice(['s_free_default_group', 's_send_default_groups', 's_dump_osc', 'sd_send', 'sd_load', 'sd_load_dir'])
        if k == 's_free_default_group':
            self.emit({'op': k, 'all': r.random() < 0.5})
        elif k == 's_send_default_groups':
            self.emit({'op': k})
        elif k == 's_dump_osc':
            self.emit({'op': k, 'code': r.randint(0, 3)})
        elif k == 'sd_send':
            self.emit({'op': k, 'compl': self.compl(False)})
        elif k == 'sd_load':
            self.emit({'op': k, 'name': r.choice(DEFS), 'compl': self.compl(False)})
        else:
            self.emit({'op': k, 'compl': self.compl(False)})

    def op_buf_new(self):
        r, s = self.r, self.s
        k = r.choice(['b_new'] * 4 + ['b_consecutive', 'b_new_read', 'b_new_read_channel', 'b_new_cue', 'b_new_noalloc'])
        frames = r.choice([0, 1, 8, 16, 1024, 32768])
        ch = r.choice([1, 1, 2, 4])
        explicit = lambda: r.choice([0, 0, 7, 100]) if r.random() < 0.15 else None
        if k == 'b_new':
            op = {'op': k, 'frames': frames, 'channels': ch, 'compl': self.compl()}
            bn = explicit()
            if bn is not None:
                op['bufnum'] = bn; self.tags.add('explicit-bufnum')
            if r.random() < 0.2:
                op['cache'] = False; self.tags.add('buffer-cache-off')     # every keyword option of the constructor is exercised
            self.emit(op)
            s.bufs.append({'freed': False, 'stale': False, 'frames': frames, 'ch': ch})
        elif k == 'b_new_noalloc':
            self.emit({'op': 'b_new', 'frames': frames, 'channels': ch, 'compl': None, 'alloc': False})
            s.bufs.append({'freed': False, 'stale': False})
            self.emit({'op': 'b_alloc', 'b': len(s.bufs) - 1, 'compl': self.compl()})
        elif k == 'b_consecutive':
            n = r.randint(1, 4)
            op = {'op': k, 'n': n, 'frames': frames, 'channels': ch, 'compl': self.compl()}
            bn = explicit()
            if bn is not None:
                op['bufnum'] = bn; self.tags.add('explicit-bufnum')
            self.emit(op)
            for _ in range(n):
                s.bufs.append({'freed': False, 'stale': False})
            self.tags.add('consecutive')
        elif k == 'b_new_read':
            op = {'op': k, 'path': r.choice(PATHS), 'start': r.choice([0, 0, 100]), 'frames': r.choice([-1, -1, 0, 512])}
            bn = explicit()
            if bn is not None:
                op['bufnum'] = bn; self.tags.add('explicit-bufnum')
            self.emit(op)
            s.bufs.append({'freed': False, 'stale': False})
        elif k == 'b_new_read_channel':
            self.emit({'op': k, 'path': r.choice(PATHS), 'start': r.choice([0, 100]), 'frames': r.choice([-1, 512]),
                       'chans': [r.randint(0, 3) for _ in range(r.randint(1, 3))]})
            s.bufs.append({'freed': False, 'stale': False})
        else:
            self.emit({'op': k, 'path': r.choice(PATHS), 'start': r.choice([0, 5]), 'size': r.choice([32768, 65536]),
                       'channels': ch, 'compl': self.compl()})
            s.bufs.append({'freed': False, 'stale': False})

    def stream_values(self, n):
        r = self.r
        a, m = r.randint(0, 63), r.choice([3, 7, 64])
        return [vf(Fraction((a + k) % m, 4)) for k in range(n)]

    def op_buf_stream(self):
        # multi-packet operations: lengths around the packet sizes (1626 values per /b_setn, 1633 per /b_getn)
        r, s = self.r, self.s
        n = r.choice([1, 2, 3, 3, 5, 1625, 1626, 1627, 2000, 3252, 3253, 4000])
        k = r.choice(['b_send_list', 'b_new_send_list', 'b_get_to_list', 'b_get_to_list'])
        known = [i for i in s.live_bufs() if s.bufs[i].get('frames') is not None]
        if k != 'b_new_send_list' and not known:
            k = 'b_new_send_list'
        if k == 'b_new_send_list':
            ch = r.choice([1, 1, 2, 3])
            self.emit({'op': k, 'values': self.stream_values(n), 'channels': ch})
            s.bufs.append({'freed': False, 'stale': False, 'frames': -(-n // ch), 'ch': ch})
        elif k == 'b_send_list':
            b = r.choice(known)
            self.emit({'op': k, 'b': b, 'values': self.stream_values(n), 'start': r.choice([0, 0, 1, 7])})
        else:
            b = r.choice(known)
            cnt = r.choice([None, None, 1, 1632, 1633, 1634, 3266, 3267, 4000])
            self.emit({'op': k, 'b': b, 'index': r.choice([0, 0, 5, 1633]), 'count': cnt})
        self.tags.add('streaming')

    def op_buf_cmd(self):
        r, s = self.r, self.s
        lb = s.live_bufs()
        if not lb:
            return self.op_buf_new()
        b = r.choice(lb)
        k = r.choice(['b_free'] * 3 + ['b_free_all', 'b_zero', 'b_close', 'b_set', 'b_setn', 'b_fill', 'b_query', 'b_update_info',
                      'b_get', 'b_getn', 'b_gen', 'b_sine1', 'b_sine2', 'b_sine3', 'b_cheby', 'b_normalize', 'b_copy_data',
                      'b_read', 'b_read_channel', 'b_cue', 'b_write', 'b_alloc_read', 'b_alloc_read_channel'])
        flags = lambda: {'normalize': r.random() < 0.5, 'wavetable': r.random() < 0.5, 'clear': r.random() < 0.5}
        nums = lambda lo, hi: [self.num_nb() for _ in range(r.randint(lo, hi))]
        if k == 'b_free':
            self.emit({'op': k, 'b': b, 'compl': self.compl()})
            s.bufs[b]['freed'] = True
            if r.random() < 0.3:                      # double free: the library handles it with a warning
                self.emit({'op': k, 'b': b, 'compl': None})
                self.tags.add('double-buffer-free')
        elif k == 'b_free_all':
            self.emit({'op': k})
            for x in s.bufs:
                x['stale'] = True
            self.tags.add('free_all')
        elif k in ('b_zero', 'b_close'):
            self.emit({'op': k, 'b': b, 'compl': self.compl()})
        elif k == 'b_set':
            args = []
            for _ in range(r.randint(1, 3)):
                args += [vi(r.randint(0, 100)), self.num_nb()]
            self.emit({'op': k, 'b': b, 'args': args})
        elif k == 'b_setn':
            args = []
            for _ in range(r.randint(1, 3)):
                args += [vi(r.randint(0, 100)), vl(nums(0, 4)) if r.random() < 0.7 else self.num_nb()]
            self.emit({'op': k, 'b': b, 'args': args})
        elif k == 'b_fill':
            vals = [self.num_nb()]
            for _ in range(r.randint(0, 2)):
                vals += [vi(r.randint(0, 50)), vi(r.randint(1, 8)), self.num_nb()]
            self.emit({'op': k, 'b': b, 'start': vi(r.randint(0, 50)), 'frames': vi(r.randint(1, 8)), 'values': vals})
        elif k in ('b_query', 'b_update_info'):
            self.emit({'op': k, 'b': b})
        elif k == 'b_get':
            self.emit({'op': k, 'b': b, 'index': r.randint(0, 100)})
        elif k == 'b_getn':
            self.emit({'op': k, 'b': b, 'index': r.randint(0, 100), 'count': r.randint(1, 16)})
        elif k == 'b_gen':
            self.emit(dict({'op': k, 'b': b, 'cmd': r.choice(['sine1', 'cheby', 'sine2']), 'args': nums(1, 4)}, **flags()))
        elif k in ('b_sine1', 'b_cheby'):
            self.emit(dict({'op': k, 'b': b, 'amps': nums(1, 4)}, **flags()))
        elif k == 'b_sine2':
            n = r.randint(1, 3)
            self.emit(dict({'op': k, 'b': b, 'freqs': nums(n, n), 'amps': nums(n, n)}, **flags()))
        elif k == 'b_sine3':
            n = r.randint(1, 3)
            self.emit(dict({'op': k, 'b': b, 'freqs': nums(n, n), 'amps': nums(n, n), 'phases': nums(n, n)}, **flags()))
        elif k == 'b_normalize':
            self.emit({'op': k, 'b': b, 'max': self.num_nb(), 'wavetable': r.random() < 0.5})
        elif k == 'b_copy_data':
            self.emit({'op': k, 'b': b, 'dst': r.choice(lb), 'dst_start': r.randint(0, 9), 'start': r.randint(0, 9), 'n': r.choice([-1, 4])})
        elif k == 'b_read':
            self.emit({'op': k, 'b': b, 'path': r.choice(PATHS), 'fstart': r.choice([0, 10]), 'frames': r.choice([-1, 64]),
                       'bstart': r.choice([0, 3]), 'leave_open': r.random() < 0.5})
        elif k == 'b_read_channel':
            self.emit({'op': k, 'b': b, 'path': r.choice(PATHS), 'fstart': r.choice([0, 10]), 'frames': r.choice([-1, 64]),
                       'bstart': r.choice([0, 3]), 'leave_open': r.random() < 0.5, 'chans': [r.randint(0, 3) for _ in range(r.randint(1, 3))]})
        elif k == 'b_cue':
            self.emit({'op': k, 'b': b, 'path': r.choice(PATHS), 'start': r.choice([0, 7]), 'compl': self.compl()})
            self.tags.add('cue')
        elif k == 'b_write':
            self.emit({'op': k, 'b': b, 'path': r.choice(['/tmp/o.aiff', '/tmp/rec/x.wav']), 'header': r.choice(['aiff', 'wav']),
                       'sample': r.choice(['int24', 'float']), 'frames': r.choice([-1, 100]), 'start': r.choice([0, 4]),
                       'leave_open': r.random() < 0.5, 'compl': self.compl()})
        elif k == 'b_alloc_read':
            self.emit({'op': k, 'b': b, 'path': r.choice(PATHS), 'start': r.choice([0, 9]), 'frames': r.choice([-1, 77]), 'compl': self.compl()})
        elif k == 'b_alloc_read_channel':
            self.emit({'op': k, 'b': b, 'path': r.choice(PATHS), 'start': r.choice([0, 9]), 'frames': r.choice([-1, 77]),
                       'chans': [r.randint(0, 3) for _ in range(r.randint(1, 3))], 'compl': self.compl()})

    def num_nb(self):
        v = self.num()
        return v if v['v'] != 'b' else vi(1)

    def op_bus(self):
        r, s = self.r, self.s
        lc = s.live_buses(False)
        k = r.choice(['bus_new'] * 3 + ['bus_free'] * 2 + ['bus_sub'] * 2 + ['bus_set', 'bus_setn', 'bus_set_at', 'bus_setn_at', 'bus_set_pairs',
                      'bus_fill', 'bus_clear', 'bus_get', 'bus_getn'])
        if k == 'bus_new' or (not lc and k not in ('bus_free',)):
            audio = r.random() < 0.35
            ch = r.choice([1, 1, 2, 3, 4])
            op = {'op': 'bus_new', 'audio': audio, 'channels': ch}
            if r.random() < 0.15:
                op['index'] = r.choice([0, 0, 3, 64]); self.tags.add('explicit-bus-index')
            self.emit(op)
            s.buses.append({'audio': audio, 'freed': False, 'ch': ch})
            return
        if k == 'bus_sub':
            # a view on part of a bus; offsets and sizes around the end of the parent (in range, exactly at the end, one past, far past)
            lb = s.live_buses()
            if not lb:
                return
            u = r.choice(lb)
            pc = s.buses[u]['ch']
            off = r.choice([0, 0, pc - 1, pc, r.randint(0, pc)])
            ch = r.choice([1, 1, pc - off, pc - off + 1, pc, pc + 1, r.randint(1, pc + 1)])
            if ch < 1:
                ch = 1
            self.emit({'op': k, 'u': u, 'offset': off, 'channels': ch})
            ok = not (off > pc or ch + off > pc)
            s.buses.append({'audio': s.buses[u]['audio'], 'freed': not ok, 'ch': ch if ok else 0, 'dead': not ok})
            self.tags.add('sub_bus' if ok else 'sub_bus-out-of-range')
            return
        if k == 'bus_free':
            lb = s.live_buses()
            if not lb:
                return
            u = r.choice(lb)
            self.emit({'op': k, 'u': u})
            s.buses[u]['freed'] = True
            if r.random() < 0.3:
                self.emit({'op': k, 'u': u})
                self.tags.add('double-bus-free')
            return
        u = r.choice(lc)
        ch = s.buses[u]['ch']
        nums = lambda lo, hi: [self.num_nb() for _ in range(r.randint(lo, hi))]
        if k == 'bus_set':
            self.emit({'op': k, 'u': u, 'values': nums(1, ch)})
        elif k == 'bus_setn':
            self.emit({'op': k, 'u': u, 'values': nums(0, ch)})
        elif k == 'bus_set_at':
            off = r.randint(0, ch - 1)      # stay inside the bus (the docstring warns about writing past it)
            self.emit({'op': k, 'u': u, 'offset': off, 'values': nums(1, min(2, ch - off))})
        elif k == 'bus_setn_at':
            self.emit({'op': k, 'u': u, 'offset': r.randint(0, ch - 1), 'values': nums(0, 2)})
        elif k == 'bus_set_pairs':
            p = []
            for _ in range(r.randint(1, 3)):
                p += [vi(r.randint(0, ch - 1)), self.num_nb()]
            self.emit({'op': k, 'u': u, 'pairs': p})
        elif k == 'bus_fill':
            self.emit({'op': k, 'u': u, 'value': self.num_nb(), 'channels': r.randint(1, ch)})
        elif k == 'bus_clear':
            self.emit({'op': k, 'u': u})
        elif k == 'bus_get':
            self.emit({'op': k, 'u': u})
        else:
            self.emit({'op': k, 'u': u, 'count': r.choice([None, 1, ch])})

    # ---- documented misuse (model-compared only) --------------------------------------
    def op_misuse(self):
        r, s = self.r, self.s
        ln = s.live_nodes()
        k = r.choice(['odd_set', 'empty_set', 'dict_setn', 'tuple_setn', 'dict_list_synth', 'bad_action',
                      'buf_after_free', 'bus_after_free', 'frames_none', 'freed_obj_arg', 'empty_bus_set', 'fill_bad'])
        self.tags.add('misuse:' + k)
        if k in ('odd_set', 'empty_set', 'dict_set', 'dict_setn', 'tuple_setn', 'freed_obj_arg') and not ln:
            return self.op_synth()
        if k == 'odd_set':
            o = r.choice(['n_set', 'n_setn', 'n_map', 'n_mapn'])
            # nested lists outside n_set are sent as OSC blobs (messages / bundles): not part of the model
            self.emit({'op': o, 'n': r.choice(ln), 'args': self.pairs(0, 2, flat=(o != 'n_set')) + [self.ctl()]})
        elif k == 'empty_set':
            self.emit({'op': r.choice(['n_set', 'n_setn', 'n_map', 'n_mapn']), 'n': r.choice(ln), 'args': []})
        elif k == 'dict_set':
            keys = r.sample(CTL_S, r.randint(1, 2))
            self.emit({'op': 'n_set', 'n': r.choice(ln), 'args': [vd([[vs(k_), self.cvalue(1)] for k_ in keys])]})
        elif k == 'dict_setn':
            self.emit({'op': 'n_setn', 'n': r.choice(ln), 'args': [vd([[vs('freq'), vl([vi(1), vi(2)])]])]})
        elif k == 'tuple_setn':
            self.emit({'op': 'n_setn', 'n': r.choice(ln), 'args': [self.ctl(), vt([vi(1), vi(2)])]})
        elif k == 'dict_list_synth':
            self.emit({'op': 'synth', 'ctor': 'init', 'def': 'default', 'args': vd([[vs('freq'), vl([vi(1), vi(2)])]]),
                       'target': {'t': 'none'}, 'action': 0, 'same_id': False})
            s.nodes.append(None)      # the constructor raises outside bind; inside bind the flush fails
            if s.depth > 0:
                s.nodes[-1] = {'kind': 's', 'id': s.next_id}
            s.next_id += 1
        elif k == 'bad_action':
            self.emit({'op': 'group', 'par': False, 'ctor': 'init', 'target': {'t': 'none'}, 'action': r.choice(['top', 5, 'x'])})
            s.nodes.append(None); s.next_id += 1
        elif k == 'buf_after_free':
            fb = [i for i, b in enumerate(s.bufs) if b['freed']]
            if not fb:
                return
            b = r.choice(fb)
            o = r.choice(['b_zero', 'b_close', 'b_set', 'b_query', 'b_update_info', 'b_read', 'b_cue', 'b_alloc', 'b_get', 'b_fill'])
            op = {'op': o, 'b': b}
            if o in ('b_zero', 'b_close', 'b_alloc'):
                op['compl'] = None
            elif o == 'b_set':
                op['args'] = [vi(0), vi(1)]
            elif o == 'b_read':
                op.update({'path': PATHS[0], 'fstart': 0, 'frames': -1, 'bstart': 0, 'leave_open': False})
            elif o == 'b_cue':
                op.update({'path': PATHS[0], 'start': 0, 'compl': None})
            elif o == 'b_get':
                op['index'] = 3
            elif o == 'b_fill':
                op.update({'start': vi(0), 'frames': vi(2), 'values': [vi(1)]})
            self.emit(op)
        elif k == 'bus_after_free':
            fu = [i for i, u in enumerate(s.buses) if u['freed'] and not u['audio']]
            if not fu:
                return
            u = r.choice(fu)
            o = r.choice(['bus_set', 'bus_setn', 'bus_fill', 'bus_get', 'bus_getn', 'bus_clear'])
            op = {'op': o, 'u': u}
            if o in ('bus_set', 'bus_setn'):
                op['values'] = [vi(1)]
            elif o == 'bus_fill':
                op.update({'value': vi(1), 'channels': 1})
            elif o == 'bus_getn':
                op['count'] = 1
            self.emit(op)
        elif k == 'frames_none':
            self.emit({'op': 'b_new', 'frames': None, 'channels': 1, 'compl': None})
            s.bufs.append({'freed': True, 'stale': True})
        elif k == 'freed_obj_arg':
            fb = [i for i, b in enumerate(s.bufs) if b['freed']]
            fu = [i for i, u in enumerate(s.buses) if u['freed']]
            if fb:
                v = {'v': 'buf', 'i': r.choice(fb)}
            elif fu:
                v = {'v': 'bus', 'i': r.choice(fu)}
            else:
                return
            o = r.choice(['n_set', 'n_set', 'n_setn', 'n_map', 'n_mapn', 'synth'])
            if o == 'synth':
                self.emit({'op': 'synth', 'ctor': 'init', 'def': 'default', 'args': vl([vs('bufnum'), v]), 'target': {'t': 'none'},
                           'action': 0, 'same_id': False})
                s.nodes.append({'kind': 's', 'id': s.next_id}); s.next_id += 1
            elif o in ('n_map', 'n_mapn') and v['v'] != 'bus':
                self.emit({'op': 'n_set', 'n': r.choice(ln), 'args': [vs('bufnum'), v]})
            else:
                self.emit({'op': o, 'n': r.choice(ln), 'args': [vs('bufnum'), v]})
        elif k == 'empty_bus_set':
            lc = s.live_buses(False)
            if lc:
                self.emit({'op': r.choice(['bus_set', 'bus_set_pairs']), 'u': r.choice(lc), **({'values': []})} if True else {})
                if self.ops[-1]['op'] == 'bus_set_pairs':
                    self.ops[-1] = {'op': 'bus_set_pairs', 'u': self.ops[-1]['u'], 'pairs': []}
        elif k == 'fill_bad':
            lb = s.live_bufs()
            if lb:
                self.emit({'op': 'b_fill', 'b': r.choice(lb), 'start': vi(0), 'frames': vi(4), 'values': [vi(1), vi(2)]})

    # ---- bind structure ---------------------------------------------------------------
    def gen(self, n_ops):
        r, s = self.r, self.s
        budget = n_ops
        while budget > 0:
            budget -= 1
            k = r.random()
            if k < 0.10 and s.depth < 3:
                self.emit({'op': 'bind_enter'})
                s.depth += 1
                self.tags.add('bind')
                continue
            if s.depth > 0 and k < 0.22:
                if r.random() < 0.35:
                    kk = r.randint(1, s.depth)
                    self.emit({'op': 'bind_raise', 'k': kk, 'base': r.random() < 0.3})
                    s.depth -= kk
                    self.tags.add('bind-raise')
                else:
                    self.emit({'op': 'bind_exit'})
                    s.depth -= 1
                continue
            if self.sync and k > 0.9:
                self.emit({'op': 'sync'})
                self.tags.add('sync-in-bind' if s.depth > 0 else 'sync')
                continue
            if self.cls == 'misuse' and k < 0.40:
                self.op_misuse()
                continue
            w = r.random()
            if s.depth == 0 and not self.sync and r.random() < 0.012:
                self.op_buf_stream()
                continue
            if self.cls == 'valid' and s.depth == 0 and r.random() < 0.003:
                self.op_big_block()
                continue
            if w < 0.02 and self.cls == 'valid':
                self.op_play()
            elif w < 0.16:
                self.op_synth()
            elif w < 0.22:
                self.op_group()
            elif w < 0.25:
                self.op_basic_new()
            elif w < 0.50:
                self.op_node_cmd()
            elif w < 0.56:
                self.op_server()
            elif w < 0.66:
                self.op_buf_new()
            elif w < 0.84:
                self.op_buf_cmd()
            else:
                self.op_bus()
        while s.depth > 0:
            if r.random() < 0.25:
                kk = r.randint(1, s.depth)
                self.emit({'op': 'bind_raise', 'k': kk})
                s.depth -= kk
                self.tags.add('bind-raise')
            else:
                self.emit({'op': 'bind_exit'})
                s.depth -= 1
        return self.ops


def gen_history(rng, cls='valid', n_ops=None, sync=False):
    g = Gen(rng, cls, sync)
    ops = g.gen(n_ops or rng.choice([4, 8, 12, 20, 30]))
    # Server.latency: the time of the bundle a bind() block sends and of release(); 0 is the NRT default
    lat = rng.choice([None, None, '0', '1/4', '1'])
    # login configuration: default (one login, client 0) or a client id of several logins, with or without reserved ids
    cfg = None
    if rng.random() < 0.35:
        m = rng.choice([2, 2, 3, 4])
        cfg = {'max_logins': m, 'client_id': rng.randrange(m)}
        if rng.random() < 0.4:
            cfg.update({'reserved_buffers': rng.choice([0, 3]), 'reserved_control_buses': rng.choice([0, 2]),
                        'reserved_audio_buses': rng.choice([0, 2])})
        g.tags.add('client-%d-of-%d' % (cfg['client_id'], m))
    return {'cls': cls, 'ops': ops, 'tags': sorted(g.tags), 'latency': lat, 'config': cfg}
