"""C02: invalid-input sweep over the WHOLE unit library.

For every installed UGen class, every rate constructor it has (ar / kr / ir / dr / new) and every
argument position that takes a plain number in a graph that builds, the same graph is built again
with that argument replaced by NaN (and by a str / None): "a graph the library cannot compile (NaN or
non-numeric input) is rejected with an exception instead of producing bytes".
The verdict does not depend on guessing which arguments are unit inputs: a run is a violation only
when bytes WERE produced and the emitted definition contains a NaN constant or a unit input that is
neither a number nor a unit output.
in : {'kinds': ['nan', 'str', 'none'], 'shard': i, 'nshards': n}
out: {'stats': {...}, 'bad': [{'cls', 'meth', 'arg', 'kind', 'what', 'bytes', 'python'}]}"""
import inspect, json, math, os, struct, sys
import c02_build as B            # sc3.init + helpers
import sc3.synth.ugens as ugs
from sc3.synth import ugen as ugn
from sc3.synth.synthdef import SynthDef
from sc3.synth.envelope import Env
import sc3.base.main as _main

METHS = ('ar', 'kr', 'ir', 'dr', 'new')
SIGNAL_NAMES = ('input', 'in0', 'in1', 'in_a', 'in_b', 'left', 'right', 'x', 'y', 'z', 'w', 'source', 'src', 'trig', 'reset',
                'sig', 'signal', 'output', 'inputs', 'lst', 'input_list', 'chain', 'demand_ugens')
LIST_NAMES = ('lst', 'input_list', 'inputs', 'demand_ugens', 'array', 'in_array', 'channels_array')
BADS = {'nan': float('nan'), 'str': 'abc', 'none': None}


def is_nan_word(w):
    return (w & 0x7f800000) == 0x7f800000 and (w & 0x007fffff) != 0


def base_args(cls, meth):
    """A plausible argument list from the signature: defaults where there are, signals of the unit's
    rate for signal-like names, small numbers elsewhere.  None = do not know how to call it."""
    try:
        sig = inspect.signature(getattr(cls, meth))
    except (TypeError, ValueError):
        return None
    args = []
    for p in sig.parameters.values():
        if p.kind not in (p.POSITIONAL_OR_KEYWORD,):
            return None
        if p.name in LIST_NAMES:
            args.append(('siglist', p.name))
        elif p.name in ('env', 'envelope'):
            args.append(('val', p.name, Env.adsr()))
        elif p.name in ('spec', 'specs', 'specifications_array_ref'):
            args.append(('val', p.name, ([440, 550], [0.1, 0.2], [0, 0])))
        elif p.name in ('weights',):
            args.append(('val', p.name, [0.5, 0.5]))
        elif p.name in SIGNAL_NAMES and meth in ('ar', 'kr'):
            args.append(('sig', p.name))
        elif p.default is not inspect.Parameter.empty:
            args.append(('val', p.name, p.default))
        elif p.name in ('channels', 'num_channels', 'num_chans'):
            args.append(('val', p.name, 2))
        else:
            args.append(('val', p.name, 0.5))
    return args


def build(cls, meth, args, subst=None):
    """Build a definition around one constructor call; returns the SynthDef."""
    def graph():
        vals = []
        for i, a in enumerate(args):
            if subst is not None and subst[0] == i and isinstance(subst[1], tuple) and subst[1] and subst[1][0] == 'rates':
                vals.append([{'a': lambda: ugs.DC.ar(0.25), 'k': lambda: ugs.DC.kr(0.25), 's': lambda: 0.25}[r_]()
                             for r_ in subst[1][1]])
            elif subst is not None and subst[0] == i:
                vals.append(subst[1])
            elif a[0] == 'sig':
                vals.append(ugs.DC.ar(0.25) if meth == 'ar' else ugs.DC.kr(0.25))
            elif a[0] == 'siglist':
                vals.append([ugs.DC.ar(0.25), ugs.DC.ar(0.5)] if meth == 'ar' else [ugs.DC.kr(0.25), ugs.DC.kr(0.5)])
            else:
                vals.append(a[2])
        if issubclass(cls, B.iou.AbstractControl) and hasattr(cls, 'add_name'):
            cls.add_name('c0')                  # a control is registered under a name before it is created
        r = getattr(cls, meth)(*vals)
        outs = [x for x in B.flat(r) if isinstance(x, ugn.UGen)] if r is not None else []
        # a unit that DECLARES no outputs (its class overrides _num_outputs: SendPeakRMS, SendReply, ...) is not a
        # signal; a multi-output unit that ended up without channels is wired like any other value
        outs = [x for x in outs if not (x._num_outputs() == 0 and '_num_outputs' in type(x).__dict__)]
        for x in outs[:12]:
            rate = B.rate_of(x)
            if rate == 'audio':
                ugs.Out.ar(0, x)
            elif rate == 'control':
                ugs.Out.kr(0, x)
    sd = SynthDef('bs', graph)
    # the hand-registered control 'c0' as the live control unit describes it (add_name's own record keeps
    # neither the rate nor, for some classes, the default)
    for u in sd._children:
        if isinstance(u, B.iou.AbstractControl):
            B.LAST_REC['c0'] = [u._special_index, B.RATE.get(u.rate, -1), [B.f32word(v) for v in u.values]]
            break
    return sd


def accepted(cls, meth, args, i, rates):
    """does the library emit bytes when argument i is the list of signals with these rates?"""
    try:
        sd = build(cls, meth, args, subst=(i, ('rates', rates)))
        B.take_bytes(sd)
        return True
    except BaseException:
        _main.main._current_synthdef = None
        return False


MIXES = (['a', 'k'], ['k', 'a'], ['a', 's'], ['s', 'a'], ['k', 's'], ['a', 'a', 'k'], ['k', 'k', 'a'])


def rate_sweep(cls, name, meth, args, stats, ratebad):
    """RATE rules, per class: every signal-like argument is given as a LIST of signals (audio, control,
    constant).  Whatever the class's rule is, a list must be judged element by element: it is accepted
    exactly when each of its elements alone is (multichannel expansion and spread lists alike)."""
    for i, a in enumerate(args):
        if a[0] not in ('sig', 'siglist'):
            continue
        single = {r_: accepted(cls, meth, args, i, [r_]) for r_ in ('a', 'k', 's')}
        stats['rate-singletons'] = stats.get('rate-singletons', 0) + 3
        if not any(single.values()):
            continue                       # this argument does not take a list at all
        for mix in MIXES:
            stats['rate-mixes'] = stats.get('rate-mixes', 0) + 1
            got = accepted(cls, meth, args, i, mix)
            want = all(single[r_] for r_ in mix)
            # only ACCEPTING a list that contains an element the class rejects on its own is against the property
            # (Lag.ar([audio, 0.5]) is refused although Lag.ar([0.5]) returns the constant: stricter, not looser)
            if got and not want:
                names = {'a': 'audio', 'k': 'control', 's': 'constant'}
                ratebad.append({
                    'ctor': '%s.%s' % (name, meth), 'arg': a[1], 'mix': [names[r_] for r_ in mix], 'got': got,
                    'single': {names[k_]: v for k_, v in single.items()},
                    'checker': getattr(getattr(cls, '_check_inputs', None), '__qualname__', '?'),
                    'python': '%s.%s with %s=[%s] (other arguments from the signature)' % (
                        name, meth, a[1], ', '.join({'a': 'DC.ar(0.25)', 'k': 'DC.kr(0.25)', 's': '0.25'}[r_] for r_ in mix))})
                break


def verdict(sd, b):
    """None, or why the emitted definition is one the library should have refused."""
    for v in list(sd._constants.keys()):
        if isinstance(v, float) and math.isnan(v):
            return 'the constant table of the emitted definition contains NaN'
    for u in sd._children:
        for i in u.inputs:
            if isinstance(i, float) and math.isnan(i):
                return 'unit %s has a NaN input' % type(u).__name__
            if not isinstance(i, (int, float, ugn.SynthObject)):
                return 'unit %s has the input %r (%s), which is neither a number nor a unit output' % (
                    type(u).__name__, i if not isinstance(i, (list, tuple)) else '<sequence>', type(i).__name__)
    return None


def main():
    try:
        main_()
    except BaseException:
        import traceback
        json.dump({'stats': {}, 'bad': [], 'built': [], 'failed': [], 'ratebad': [],
                   'crash': traceback.format_exc()[-1500:]}, open(sys.argv[2], 'w'))


def main_():
    req = json.load(open(sys.argv[1]))
    kinds = req.get('kinds', ['nan'])
    shard, nshards = req.get('shard', 0), req.get('nshards', 1)
    stats = {'classes': 0, 'constructors': 0, 'baseline-built': 0, 'baseline-failed': 0, 'substitutions': 0,
             'raised': 0, 'accepted-harmless': 0}
    bad = []
    built = []
    failed = []
    ratebad = []
    names = sorted(ugs.installed_ugens)
    for ci, name in enumerate(names):
        if ci % nshards != shard:
            continue
        cls = ugs.installed_ugens[name]
        stats['classes'] += 1
        for meth in METHS:
            if not hasattr(cls, meth):
                continue
            args = base_args(cls, meth)
            if args is None:
                continue
            stats['constructors'] += 1
            sd = None
            err = None
            variants_ = [args]
            for nsig in (1, 2):          # fallbacks: the first one / two arguments as signals of the unit's rate
                if meth in ('ar', 'kr') and len(args) >= nsig:
                    variants_.append([('sig', a[1]) if j < nsig and a[0] == 'val' else a for j, a in enumerate(args)])
            if args:
                variants_.append([('siglist', args[0][1])] + list(args[1:]))
            if meth in ('ar', 'kr'):
                for first in list(variants_):
                    for j in range(1, len(first)):
                        if first[j][0] == 'val' and isinstance(first[j][2], (int, float)) and not isinstance(first[j][2], bool):
                            variants_.append([('sig', a[1]) if q == j else a for q, a in enumerate(first)])
            for cand in variants_:
                try:
                    B.LAST_REC.clear()
                    sd = build(cls, meth, cand)
                    B.take_bytes(sd)
                    args = cand
                    break
                except BaseException as e:
                    _main.main._current_synthdef = None
                    sd = None
                    err = err or e
            if sd is None:
                stats['baseline-failed'] += 1
                failed.append('%s.%s: %s' % (name, meth, (type(err).__name__ + ' ' + str(err))[:80]))
                continue
            stats['baseline-built'] += 1
            if req.get('describe', True):
                # the definition around this constructor, for the byte-level checks (model parser / writer,
                # independent reader, the library's reader): every installed class is emitted at least once
                r = B.describe_sd(B.new_result(), sd, None, probe_cache=False)
                r['ctor'] = '%s.%s' % (name, meth)
                built.append(r)
            if req.get('rates', True) and meth in ('ar', 'kr'):
                rate_sweep(cls, name, meth, args, stats, ratebad)
            for i, a in enumerate(args):
                if a[0] == 'val' and (isinstance(a[2], bool) or not isinstance(a[2], (int, float))):
                    continue
                for kind in kinds:
                    stats['substitutions'] += 1
                    sd = None
                    try:
                        sd = build(cls, meth, args, subst=(i, BADS[kind]))
                        b = B.take_bytes(sd)
                    except BaseException as e:
                        if sd is not None:
                            # the definition was built and as_bytes() raised: a second call must not hand out
                            # what the failed attempt left behind
                            try:
                                again = bytes(sd.as_bytes())
                                bad.append({'cls': name, 'meth': meth, 'arg': a[1], 'kind': kind, 'bytes': again.hex(),
                                            'checker': 'SynthDef.as_bytes (second call after a failed one)',
                                            'what': 'as_bytes() raised %s, the same call repeated RETURNED %d bytes' % (type(e).__name__, len(again)),
                                            'python': 'as_bytes() twice on the SynthDef of %s.%s with %s=%s' % (name, meth, a[1], kind)})
                            except BaseException:
                                pass
                        _main.main._current_synthdef = None
                        stats['raised'] += 1
                        key = 'exc:' + type(e).__name__ + ':' + str(e)[:40]
                        if os.environ.get('C02_SWEEP_DEBUG'):
                            stats[key] = stats.get(key, 0) + 1
                        continue
                    why = verdict(sd, b)
                    if why is None:
                        stats['accepted-harmless'] += 1      # the argument is not a unit input (or was converted)
                        continue
                    call = '%s.%s(%s)' % (name, meth, ', '.join(
                        ('%s=%s' % (x[1], {'nan': "float('nan')", 'str': "'abc'", 'none': 'None'}[kind])) if j == i else
                        ('%s=DC.%s(0.25)' % (x[1], meth) if x[0] == 'sig' else
                         '%s=[DC.%s(0.25), DC.%s(0.5)]' % (x[1], meth, meth) if x[0] == 'siglist' else '%s=%r' % (x[1], x[2]))
                        for j, x in enumerate(args)))
                    bad.append({'cls': name, 'meth': meth, 'arg': a[1], 'kind': kind, 'what': why, 'bytes': b.hex(),
                                'checker': getattr(getattr(cls, '_check_inputs', None), '__qualname__', '?'),
                                'python': "SynthDef('bs', lambda: %s).as_bytes()" % call})
    json.dump({'stats': stats, 'bad': bad, 'built': built, 'failed': failed, 'ratebad': ratebad}, open(sys.argv[2], 'w'))


main()
