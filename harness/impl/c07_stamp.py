"""C07 unit level: the stamping kernels of the real library on exact inputs.
cases: ['tag_rt', send_time, lat] | ['tag_nrt_out', send_time, lat] | ['sub', p, s] | ['osc', t] | ['back', z]
(q = Fraction string, lat = null | q).  Output: ints / bools / Fraction strings / 'raise'."""
import json, os, sys
from fractions import Fraction
import sc3
sc3.init('nrt', 'CRITICAL')
import sc3.base._oscinterface as osci
from sc3.base.clock import SystemClock


def f(x):
    if x == '-0':
        return -0.0
    return None if x is None else float(Fraction(x))


def main():
    cases = json.load(open(sys.argv[1]))['cases']
    out = []
    for c in cases:
        try:
            k = c[0]
            if k == 'tag_rt':
                v = osci.OscInterface._get_timetag(f(c[1]), f(c[2]))
                out.append(str(int(v)) if v == int(v) else 'nonint:%r' % v)
            elif k == 'tag_nrt_out':
                out.append(str(osci.OscNrtInterface._get_timetag(f(c[1]), f(c[2]))))
            elif k == 'sub':
                try:
                    osci.OscInterface._check_subtime(f(c[1]), f(c[2]))
                    out.append(True)
                except ValueError:
                    out.append(False)
            elif k == 'osc':
                v = SystemClock.elapsed_time_to_osc(f(c[1]))
                out.append(str(int(v)) if v == int(v) else 'nonint:%r' % v)   # NRT offset is the float 0.0
            elif k == 'back':
                out.append(str(Fraction(SystemClock.osc_to_elapsed_time(int(c[1])))))
        except Exception as e:
            out.append('raise:' + type(e).__name__)
    with open(sys.argv[2], 'w') as fo:
        json.dump({'out': out, 'offset': str(int(SystemClock._elapsed_osc_offset))}, fo)


main()
