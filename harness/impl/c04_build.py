"""C04: build REAL SynthDefs from generated signatures and report the control layout.

For every case a Python function with exactly the generated signature is created (exec of
generated source: annotations, defaults, keyword-only / var-positional parameters for the
malformed stream, SynthDef.wrap calls in the body), SynthDef(name, func, rates=, prepend=,
variants=, metadata=) is built with the real library in NRT mode and the following is
extracted (all numbers as exact fractions):

  all      _all_control_names: [name, index, rate, [defaults], is_scalar, lag, arg_num]
  controls the definition's control array (_controls)
  units    the control UGens in creation order: [class, rate, special index, outputs, [values], [lag inputs]]
  recv     per function (build order), per parameter: [name, is_scalar, [[unit creation index, output index] ...]]
           recorded INSIDE the function body from the objects it was called with
  callable what __call__ zips positional arguments with
  desc     the parameter-name table / control array read back from the bytes by SynthDesc
  variants the variants section decoded from the bytes (announced count, entries present)
  calls    for each generated call: the [name, value] pairs of the /s_new message
"""
import copy, io, json, math, os, struct, sys, logging, threading
from fractions import Fraction

import sc3
sc3.init(os.environ.get('SC3_MODE', 'nrt'))
logging.disable(logging.CRITICAL)

from sc3.base import main as _libsc3
from sc3.synth.synthdef import SynthDef
from sc3.synth.synthdesc import SynthDesc
from sc3.synth.ugens import inout as iou
from sc3.synth.ugens.line import DC
from sc3.synth.ugens.inout import Out
from sc3.synth.spec import ControlSpec
from sc3.synth.server import Server
from sc3.synth import ugen as ugn

RATE = {'scalar': 'ir', 'trigger': 'tr', 'audio': 'ar', 'control': 'kr'}


def fr(x):
    f = Fraction(x)
    return '%d/%d' % (f.numerator, f.denominator)


def num(s, as_int=False):
    """[fraction, kind]: kind True = int, False = float, 'b' = bool, 'nz' = float -0.0"""
    f = Fraction(s)
    if as_int == 'b':
        return bool(f)
    if as_int == 'nz':
        return -0.0
    if as_int and f.denominator == 1:
        return int(f)
    return float(f)


def tag(x):
    """type tag of a value as the library holds it (exact comparison, class "falsy zero")"""
    if isinstance(x, bool):
        return 'b'
    if isinstance(x, int):
        return 'i'
    if isinstance(x, float):
        return 'f-' if (x == 0 and math.copysign(1.0, x) < 0) else 'f'
    if x is None:
        return 'none'
    return type(x).__name__


def dec_any(v):
    """prepended values: tagged json -> python object"""
    k = v[0]
    if k == 'n':
        return num(v[1], v[2])
    return {'none': None, 'str': '', 'tuple': (), 'list': [], 'str1': 'ab', 'tuple2': (1, 2)}[k]


def enc_any(x):
    if isinstance(x, (bool, int, float)):
        return ['n', fr(x), tag(x)]
    if x is None:
        return ['none']
    if isinstance(x, ugn.OutputProxy):
        return ['proxy']
    return [{'': 'str', 'ab': 'str1'}.get(x, 'str?')] if isinstance(x, str) else \
           [{(): 'tuple', (1, 2): 'tuple2'}.get(x, 'tuple?')] if isinstance(x, tuple) else \
           ['list' if x == [] else 'list?'] if isinstance(x, list) else [type(x).__name__]


def lit(d):
    """source text of a default value"""
    k = d[0]
    if k == 's':
        return repr(num(d[1], d[2]))
    if k == 't':
        return '(' + ''.join(repr(num(x, i)) + ', ' for x, i in d[1]) + ')'
    if k == 'None':
        return 'None'
    if k == 'str':
        return "'zz'"
    if k == 'nested':
        return '(1, (2, 3))' if d[1] == 0 else ('([1, 2], 0)' if d[1] == 1 else "(1, 'ab')")
    raise ValueError(k)


class Recorder:
    def __init__(self):
        self.funcs = []          # per function: list of [name, value]
        self.children = []       # snapshots of _children at body entry / exit
        self.pre = []            # per function: what the prepended parameters received
        self.caught = []         # exceptions of failing wraps the body caught

    def enter(self, names, loc, pre=()):
        self.funcs.append([(n, loc[n]) for n in names])
        self.pre.append([enc_any(loc[n]) for n in pre])
        self.snap()

    def snap(self):
        sd = _libsc3.main._current_synthdef
        self.children.append(list(sd._children))


def make_source(tree, path, out, rates=None, prep=None, form='keyword'):
    """append the source of tree's function (children first); returns its name"""
    kids = [make_source(w, path + [i], out, rates, prep, form) for i, w in enumerate(tree['wraps'])]
    name = 'f_' + '_'.join(map(str, path))
    parts = []
    seen_star = False
    for p in tree['params']:
        s = p['name']
        if p['kind'] == 'varargs':
            s = '*' + s
            seen_star = True
        elif p['kind'] == 'kwonly' and not seen_star:
            parts.append('*')
            seen_star = True
        elif p['kind'] == 'varkw':
            s = '**' + s
        if p['annot'] is not None:
            a = p['annot']
            s += ': ' + (repr(a) if a in ('ir', 'tr', 'ar', 'kr') else {'bad_float': 'float', 'bad_num': '0.8', 'bad_str': "'xr'"}[a])
        if p['default'][0] != 'none' and p['kind'] in ('pok', 'kwonly'):
            s += ' = ' + lit(p['default'])
        parts.append(s)
    ctl = [p['name'] for p in tree['params'][tree['prepend']:] if p['kind'] in ('pok', 'kwonly')]
    pre = [p['name'] for p in tree['params'][:tree['prepend']] if p['kind'] in ('pok', 'kwonly')]
    body = ['    _R.enter(%r, locals(), %r)' % (ctl, pre), '    _x = DC.ar(0.0)']
    for i, w in enumerate(tree['wraps']):
        key = '_'.join(map(str, path + [i]))
        call = 'SynthDef.wrap(%s, rates=RATES[%r], prepend=PREP[%r])' % (kids[i], key, key)
        if form == 'positional':
            call = 'SynthDef.wrap(%s, RATES[%r], PREP[%r])' % (kids[i], key, key)
        elif form == 'omit_none' and rates is not None:
            call = 'SynthDef.wrap(%s%s%s)' % (kids[i], '' if rates[key] is None else ', rates=RATES[%r]' % key,
                                              '' if prep[key] is None else ', prepend=PREP[%r]' % key)
        if w.get('fail') in ('caught_sig', 'caught_body'):
            # the body survives a failing wrap and goes on building
            body.append('    try:\n        %s\n        _R.caught.append(None)\n    except (ValueError, TypeError, C04Body) as e:\n        _R.caught.append(type(e).__name__)' % call)
        else:
            body.append('    ' + call)
    body.append('    Out.ar(0, _x)')
    body.append('    _R.snap()')
    if tree.get('fail') == 'caught_body' or tree.get('raise_body') == 'exc':
        body.append("    raise C04Body('c04 body')")
    elif tree.get('raise_body') == 'base':
        body.append("    raise C04Base('c04 base')")
    out.append('def %s(%s):\n%s\n' % (name, ', '.join(parts), '\n'.join(body)))
    return name


class C04Body(RuntimeError):
    pass


class C04Base(BaseException):
    pass


def rates_value(tree):
    if tree['rates'] is None:
        return None
    res = []
    for r in tree['rates']:
        if r is None or isinstance(r, str):
            res.append(r)
        elif r[0] == 'lag':
            res.append(num(r[1], r[2]))
        elif r[0] == 'lags':
            res.append([num(x, i) for x, i in r[1]])
    return res


def collect(tree, path, rates, prep):
    key = '_'.join(map(str, path))
    rates[key] = rates_value(tree)
    pv = tree.get('prepend_vals')
    if pv is None:
        prep[key] = [1000.0 + i for i in range(tree['prepend'])] or None
    elif pv[0] == 'scalar':
        prep[key] = dec_any(pv[1])
    else:
        prep[key] = [dec_any(v) for v in pv[1]]
    for i, w in enumerate(tree['wraps']):
        collect(w, path + [i], rates, prep)


def err_code(e):
    s = str(e)
    if isinstance(e, ValueError) and 'POSITIONAL_OR_KEYWORD' in s:
        return 1
    if isinstance(e, ValueError) and 'tuple rank' in s:
        return 2
    if isinstance(e, ValueError) and 'rate annotation' in s:
        return 3
    if isinstance(e, TypeError) and 'positional argument' in s:
        return 4
    if 'wrong number of channels' in s:
        return 5
    if isinstance(e, AttributeError) and "'NoneType' object has no attribute 'name'" in s:
        return 6
    if isinstance(e, C04Body):
        return 7
    if isinstance(e, C04Base):
        return 8
    return 99


def lagrepr(l):
    if isinstance(l, list):
        return ['l', [fr(x) for x in l]]
    return ['n', fr(l)]


def parse_variants(data, ncontrols_expected):
    """independent minimal SCgf-2 walk up to the variants section"""
    b = bytes(data)
    pos = 0

    def take(n):
        nonlocal pos
        if pos + n > len(b):
            raise EOFError
        r = b[pos:pos + n]
        pos += n
        return r

    def i32(): return struct.unpack('>i', take(4))[0]
    def i16(): return struct.unpack('>h', take(2))[0]
    def i8(): return struct.unpack('>b', take(1))[0]
    def pstr(): return take(take(1)[0]).decode('utf8')
    def f32(): return struct.unpack('>f', take(4))[0]

    assert take(4) == b'SCgf' and i32() == 2 and i16() == 1
    pstr()
    for _ in range(i32()): f32()
    nc = i32()
    ctl = [f32() for _ in range(nc)]
    negz = lambda xs: [i for i, x in enumerate(xs) if x == 0 and math.copysign(1.0, x) < 0]
    names = []
    for _ in range(i32()):
        n = pstr(); names.append([n, i32()])
    for _ in range(i32()):
        pstr(); i8(); nin = i32(); nout = i32(); i16()
        take(8 * nin); take(nout)
    count = i16()
    present = []
    present_nz = []
    try:
        for _ in range(count):
            vn = pstr()
            vals = [f32() for _ in range(nc)]
            present.append([vn, [fr(x) for x in vals]])
            present_nz.append(negz(vals))
    except EOFError:
        pass
    return {'count': count, 'written': present, 'raised': False, 'trailing': len(b) - pos,
            'table': names, 'controls': [fr(x) for x in ctl], 'controls_negzero': negz(ctl), 'written_negzero': present_nz}


SENT = []


def install_capture():
    addr_t = type(Server.default.addr)

    def cap(self, *a):
        SENT.append(a)
    addr_t.send_msg = cap


class Poison(dict):
    """a specs dictionary that has a spec (default 77777) for EVERY name"""
    _spec = ControlSpec(0, 99999, default=77777)

    def __contains__(self, k):
        return True

    def __getitem__(self, k):
        return dict.get(self, k, self._spec)

    def get(self, k, d=None):
        return dict.get(self, k, self._spec)


def make_spec(e):
    """a real ControlSpec of the generated shape (ordered / inverted / empty range, any warp, step, default or None)"""
    if len(e) < 3:
        return ControlSpec(-1e9, 1e9, default=num(e[1][0], e[1][1]))
    sh = e[2]
    w = sh['warp'] if isinstance(sh['warp'], str) else num(sh['warp'][0], sh['warp'][1])
    return ControlSpec(num(*sh['minval']), num(*sh['maxval']), w,
                       None if sh['step'] is None else num(*sh['step']),
                       None if sh['default'] is None else num(*sh['default']))


def context_state():
    """what the NEXT operation would see: build context released?"""
    st = {'ctx_clear': _libsc3.main._current_synthdef is None}
    got = []
    t = threading.Thread(target=lambda: got.append(_libsc3.main._def_build_lock.acquire(timeout=0.5)
                                                   and (_libsc3.main._def_build_lock.release() or True)))
    t.start(); t.join()
    st['lock_free'] = bool(got and got[0])
    if not st['ctx_clear']:
        u = DC.ar(0.0)          # a unit created outside any build must not belong to a definition
        st['stale_attach'] = getattr(u, '_synthdef', None) is not None
        _libsc3.main._current_synthdef = None
    return st


def run_case(idx, case):
    res = {'err': 0}
    src = []
    rates, prep = {}, {}
    collect(case['tree'], [], rates, prep)
    top = make_source(case['tree'], [], src, rates, prep, case.get('arg_form', 'keyword'))
    rec = Recorder()
    scope = {'SynthDef': SynthDef, 'DC': DC, 'Out': Out, '_R': rec, 'RATES': rates, 'PREP': prep,
             'C04Body': C04Body, 'C04Base': C04Base}
    exec('\n'.join(src), scope)
    func = scope[top]
    md = None
    if case.get('specs') is not None:
        md = {'specs': {e[0]: make_spec(e) for e in case['specs']}}
    variants = None
    if case.get('variants') is not None:
        variants = {}
        for vn, pairs in case['variants']:
            variants[vn] = {cn: (num(vals[1], vals[2]) if vals[0] == 's' else [num(x, i) for x, i in vals[1]])
                            for cn, vals in pairs}
    if case.get('empty_dicts'):
        # explicit empty containers instead of None (falsy, but not None)
        md = {} if md is None else md
        variants = {} if variants is None else variants

    def snapshot():
        return repr((rates, prep, variants, None if md is None else sorted((k, v.default) for k, v in md.get('specs', {}).items())))
    before = snapshot()
    res['before'] = before
    try:
        # the four optional arguments in the generated passing form: given by keyword, given
        # positionally, explicit None, or OMITTED (then the library's own defaults are used)
        opt = [('rates', rates['']), ('prepend', prep['']), ('variants', variants), ('metadata', md)]
        form = case.get('arg_form', 'keyword')
        if form == 'positional':
            sd = SynthDef(case['name'], func, *[v for _, v in opt])
        elif form == 'omit_none':
            sd = SynthDef(case['name'], func, **{k: v for k, v in opt if v is not None})
        else:
            sd = SynthDef(case['name'], func, **dict(opt))
    except BaseException as e:
        res['err'] = err_code(e)
        res['errtext'] = '%s: %s' % (type(e).__name__, e)
        res.update(context_state())
        res['args_mutated'] = snapshot() != before
        return res
    res.update(context_state())
    res['pre'] = rec.pre
    res['caught'] = rec.caught
    res['controls_tags'] = [tag(x) for x in sd._controls]
    res['all'] = [[cn.name, cn.index, RATE.get(cn.rate, cn.rate),
                   [fr(x) for x in (cn.default_value if isinstance(cn.default_value, list) else [cn.default_value])],
                   not isinstance(cn.default_value, list), lagrepr(cn.lag), cn.arg_num]
                  for cn in sd._all_control_names]
    res['controls'] = [fr(x) for x in sd._controls]
    res['control_index'] = sd._control_index
    created = rec.children[-1] if rec.children else []
    # the outermost function's exit snapshot is the last one taken
    cunits = [u for u in created if isinstance(u, iou.AbstractControl)]
    res['units'] = [[type(u).__name__, u.rate, u._special_index, len(u._channels),
                     [fr(x) for x in u.values], [fr(x) for x in (u.inputs or ())]] for u in cunits]
    res['units_kept'] = all(any(u is c for c in sd._children) for u in cunits)
    pos = {id(u): i for i, u in enumerate(cunits)}

    def px(v):
        if isinstance(v, ugn.OutputProxy) and id(v.source_ugen) in pos:
            return [pos[id(v.source_ugen)], v._output_index]
        return [-1, -1]
    res['recv'] = [[[n, not isinstance(v, list), [px(x) for x in (v if isinstance(v, list) else [v])]]
                    for n, v in f] for f in rec.funcs]
    res['callable'] = list(getattr(sd, '_callable_args', []))
    # bytes
    try:
        data = sd.as_bytes()
        res['variants'] = parse_variants(data, len(sd._controls))
    except Exception as e:
        res['variants'] = {'count': 0, 'written': [], 'raised': True, 'text': '%s: %s / %r' % (type(e).__name__, e, e.__cause__)}
        data = None
    if data is not None:
        try:
            d = SynthDesc.new_from(sd)
            res['desc'] = {'names': list(d.control_names),
                           'controls': [[c.name, c.index, c.rate,
                                         [fr(x) for x in (c.default_value if isinstance(c.default_value, list) else [c.default_value])]]
                                        for c in d.controls]}
        except Exception as e:
            res['desc'] = {'error': '%s: %s' % (type(e).__name__, e)}
    # calls
    res['calls'] = []
    for c in case.get('calls', []):
        del SENT[:]
        try:
            sd(*[num(x, i) for x, i in c['args']], **{k: num(v[0], v[1]) for k, v in c['kwargs']})
            m = SENT[-1]
            assert m[0] == '/s_new' and m[1] == case['name']
            a = list(m[5:])
            res['calls'].append([[a[i], fr(a[i + 1])] for i in range(0, len(a), 2)])
        except Exception as e:
            res['calls'].append({'error': '%s: %s' % (type(e).__name__, e)})
    res['args_mutated'] = snapshot() != before
    if res['args_mutated']:
        res['after'] = snapshot()
    # every build must depend on its own arguments only: afterwards the PUBLIC dictionaries of this
    # definition are edited (a spec for every possible parameter name, a variant valid for any
    # definition); a later definition in this process must not see any of it
    try:
        if not isinstance(sd.metadata.get('specs'), Poison):
            sd.metadata['specs'] = Poison(sd.metadata.get('specs') or {})
        sd.variants['zzpoison'] = {}
    except Exception as e:
        res['poison_error'] = '%s: %s' % (type(e).__name__, e)
    # as_bytes() keeps a memoryview exported from a BytesIO; release it explicitly, otherwise the
    # cyclic collector may free the BytesIO first ("deallocated BytesIO object has exported buffers")
    try:
        if sd._bytes is not None:
            sd._bytes.release()
            sd._bytes = None
    except Exception:
        pass
    return res


def main():
    cases = json.load(open(sys.argv[1]))['cases']
    install_capture()
    out = []
    for i, c in enumerate(cases):
        try:
            out.append(run_case(i, c))
        except Exception as e:
            import traceback
            out.append({'err': 98, 'errtext': 'harness: %s: %s' % (type(e).__name__, e), 'tb': traceback.format_exc()[-1500:]})
            _libsc3.main._current_synthdef = None
    with open(sys.argv[2], 'w') as f:
        json.dump({'out': out}, f)
        f.flush()
    sys.stdout.flush()
    os._exit(0)      # skip interpreter teardown (see the note on as_bytes above)


main()
