"""C10: compile script programs of coq/model/KRand.v (xprog) into REAL sc3 routines and run them.

JSON program:
  {"tempos": [q..], "bodies": [[act..]..], "nconds": n, "nflows": n, "mseed": int, "tail": q}
  act = ["Y", q] | ["S", lat, [elem..]] | ["P", b, clock] | ["F", b] | ["T", i, q] | ["sb", i, q] (tempoclocks[i].beats = q)
      | ["seed", s] | ["D", req]
      | ["SB", k]   (send the SAME nested list object shared[k] = [lat, [elem..]] again: a template kept in a variable)
      | quantisation API of TempoClock i, called from inside the routine, results logged as values (NOT in the Coq model:
        compared NRT vs NRT vs RT only):  ["nb", i] next_bar() | ["nbb", i, q] next_bar(q) | ["ntg", i, quant, phase]
        next_time_on_grid | ["ttnb", i, quant] time_to_next_beat | ["bar", i] bar() and beat_in_bar() | ["cb", i] beats, seconds
        | ["bpb", i, q] beats_per_bar = q (then base_bar, base_bar_beat) | ["pnb", b, i] play_next_bar(Routine(body b))
        | ["PQ", b, clock, quant, phase] Routine(body b).play(clock, [quant, phase]) | ["CP", b, i, quant] clocks[i].play(Routine, quant)
        | ["sch", clock, q] clock.sched(q, function logging its logical time) | ["scha", i, q] clocks[i].sched_abs(clocks[i].beats + q, function)
        | ["newc", q] TempoClock(q) created now: its beats, next_bar()
      | ["raise", kind]  kind = "V" ValueError | "S" StopStream | "K" KeyError | "R" RuntimeError  (the routine dies there)
      | not in the Coq model (NRT vs NRT vs RT only): ["stop", b] | ["reset", b] | ["replay", b] (reset then play(None, 0))
        | ["play2", b] (play() the latest instance of body b once more) on the latest instance of body b;
        ["cbs"] logs SystemClock.beats/seconds, the routine's own clock.beats/seconds, current_tt._seconds (all relative to
        the start) and whether main.elapsed_time() >= the logical time (a task never runs early)
      | ["W", c] | ["sig", c] | ["test", c, bool] | ["fget", f] | ["fset", f, v] | ["pause", b] | ["resume", b] | ["R"]
  elem, lat, clock, q as in c05_kscript.py.
The whole program is Routine(body 0).play(SystemClock); the root creates the TempoClocks when it starts.
Random requests (["D", req]) call the library's builtin random functions (REQS below); every value is
recorded together with the generator OBJECT that served it (identity of main._rgen at the call).

Modes (one per process): nrt -> run + main.process(tail); rt -> real clocks under injected jitter,
outgoing datagrams captured by replacing the OSC interface's _send.  payload['delay'] (rt only):
{"clock": "S"|i, "seconds": x} makes that clock's thread sleep x seconds (main lock released) before
it reads the time -- the experiment for cross-clock programs.
"""
import json, os, sys, struct, threading, time, math, random, logging, hashlib
from fractions import Fraction

import decimal
import c05_kscript as K5                       # initialises sc3 in SC3_MODE (and LIB_PORT) at import
from c05_kscript import fr, num, lat_of, parse_packet, msg_id, merge, MODE

from sc3.base.main import main
from sc3.base.stream import Routine, Condition, FlowVar, StopStream
from sc3.base.clock import SystemClock, AppClock, TempoClock
from sc3.base.netaddr import NetAddr
import sc3.base.builtins as bi
import sc3.base.functions as sc3fn
from props._c10seed import seed_value, seed_code, main_code

CH = [10, 20, 30, 40, 50]
# request number -> (the call on the library, the same request on a plain random.Random: independent reference)
REQS = {
    0: (lambda: bi.rand(8), lambda R: R.randrange(0, 8, 1)),
    1: (lambda: bi.rrand(3, 17), lambda R: R.randrange(3, 17, 1)),
    2: (lambda: bi.choice(CH), lambda R: R.choice(CH)),
    3: (lambda: bi.rand(1.0), lambda R: R.random() * 1.0),
    4: (lambda: bi.coin(0.5), lambda R: R.random() < 0.5),
    5: (lambda: bi.rand2(5), lambda R: R.randint(-5, 5)),
    6: (lambda: bi.linrand(10), lambda R: min(R.randrange(0, 10, 1), R.randrange(0, 10, 1))),
    7: (lambda: bi.rrand(0.0, 4.0), lambda R: 0.0 + R.random() * (4.0 - 0.0)),
    8: (lambda: bi.exprand(1.0, 2.0), lambda R: 1.0 * math.exp(math.log(2.0 / 1.0) * R.random())),
    9: (lambda: bi.bilinrand(6), lambda R: (lambda a, b: a - b)(R.randrange(0, 6, 1), R.randrange(0, 6, 1))),
    # explicit zeros, empty ranges, one-element collections, descending ranges
    10: (lambda: bi.rand(0), lambda R: 0),
    11: (lambda: bi.rrand(0, 0), lambda R: 0),
    12: (lambda: bi.rrand(5, 5), lambda R: 5),
    13: (lambda: bi.choice([42]), lambda R: R.choice([42])),
    14: (lambda: bi.rand(0.0), lambda R: R.random() * 0.0),
    15: (lambda: bi.rand2(0), lambda R: R.randint(0, 0)),
    16: (lambda: bi.coin(0.0), lambda R: R.random() < 0.0),
    17: (lambda: bi.rand(-3), lambda R: R.randrange(0, -3, -1)),
    18: (lambda: bi.rrand(7, 3), lambda R: R.randrange(7, 3, -1)),
    19: (lambda: bi.rand(1), lambda R: R.randrange(0, 1, 1)),
    20: (lambda: bi.coin(1.0), lambda R: R.random() < 1.0),
}


def enc(v):
    """exact, type-tagged: bool -> 0/1, int -> 4n+2 (so that 0 and 0.0 and False differ), float -> its bits * 4 + 3"""
    if isinstance(v, bool):
        return int(v)
    if isinstance(v, int):
        return 4 * v + 2
    return 4 * struct.unpack('>q', struct.pack('>d', float(v)))[0] + 3


def reference(seed, reqs):
    R = random.Random(seed)
    return [enc(REQS[r][1](R)) for r in reqs]


class Script(Exception):
    pass


YVALS = {'inf': lambda: float('inf'), 'ninf': lambda: float('-inf'), 'nan': lambda: float('nan'), 'none': lambda: None,
         'true': lambda: True, 'false': lambda: False, 'str': lambda: '', 'list': lambda: [], 'nzero': lambda: -0.0,
         'fzero': lambda: 0.0, 'izero': lambda: 0, 'neg': lambda: -0.125, 'big': lambda: 1e308, 'tuple': lambda: (1, 2),
         # real numbers that are neither int nor float (numpy scalars behave like these): not re-scheduled on any clock, in any mode
         'frac': lambda: Fraction(1, 4), 'dec': lambda: decimal.Decimal('0.25'), 'real': lambda: _Real(1, 8), 'cplx': lambda: complex(0.25, 0)}


class _Real(Fraction):
    """a numbers.Real that is not a Fraction proper (stands for numpy.float32 and the like)"""


class XRun:
    def __init__(self, prog, mode):
        self.prog = prog
        self.mode = mode
        self.events = []
        self.vals = []
        self.schedule = []          # rt: [rid, now] for every __awake__ (also the dropped ones)
        self.routs = []             # rid -> Routine
        self.paths = []             # rid -> path
        self.nplay = []             # rid -> plays made so far
        self.latest = {}            # body -> rid
        self.clocks = []
        self.extra_clocks = []
        self.has_tempo_change = any(a[0] in ('T', 'sb') for b_ in prog['bodies'] for a in b_)
        self.nfun = {}
        self.conds = [Condition() for _ in range(prog['nconds'])]
        self.flows = [FlowVar() for _ in range(prog['nflows'])]
        main._m_rgen.seed(prog['mseed'])
        self.gens = [main._m_rgen]  # generator objects in order of creation (kept alive)
        self.gen_seed = [main_code(prog['mseed'])]     # the model's name of the seed
        self.gen_seedval = [prog['mseed']]             # the Python value given to the library
        # bundle templates kept in variables: the nested list OBJECTS are built once and sent again and again
        self.shared = [(lat_of(t[0]), self.build_elems(t[1])) for t in prog.get('shared', [])]
        self.gen_hist = [[]]
        self.gen_vals = [[]]
        self.addr = NetAddr('127.0.0.1', 57110)
        self.last_dgram = None
        self.errors = []
        self.lock = main._main_lock
        self.t0 = None

    # ------------------------------------------------------------ helpers
    def clock_of(self, c):
        if c == 'S':
            return SystemClock
        if c == 'A':
            return AppClock
        return self.clocks[c[1]]

    def code_of(self, clock):
        if clock is SystemClock:
            return 'S'
        if clock is AppClock:
            return 'A'
        return ['T', self.clocks.index(clock)]

    def build_elems(self, es):
        out = []
        for e in es:
            if e[0] == 'm':
                out.append(['/m', int(e[1])])
            else:
                out.append([lat_of(e[1])] + self.build_elems(e[2]))
        return out

    def stamped_of_last(self):
        if self.mode == 'nrt':
            score = main._osc_interface._osc_score
            ent = max((x for x in score._scoreq._queue), key=lambda x: x[1])
            entry = ent[2]
            return merge(entry.bndl, parse_packet(bytes(entry.msg[4:])))
        return merge(None, parse_packet(self.last_dgram), SystemClock._elapsed_osc_offset)

    def gen_index(self, obj):
        for i, g in enumerate(self.gens):
            if g is obj:
                return i
        self.gens.append(obj)           # an object the harness did not see being created
        self.gen_seed.append(None)
        self.gen_seedval.append(None)
        self.gen_hist.append([])
        self.gen_vals.append([])
        return len(self.gens) - 1

    # ------------------------------------------------------------ actions
    def do_send(self, org, lat, es, shared=None):
        T = main.current_tt._m_seconds
        self.last_dgram = None
        try:
            if shared is not None:
                self.addr.send_bundle(shared[0], *shared[1])      # the very same element lists as last time
            else:
                self.addr.send_bundle(lat_of(lat), *self.build_elems(es))
            ok = True
        except Exception:
            ok = False
        res = self.stamped_of_last() if ok else None
        self.events.append(['send', org, fr(T), lat, es, res])
        return ok

    def do_msg(self, rid, k, a):
        """a plain MESSAGE (send_msg) with a completion bundle as argument: ['M', id, lat, elements].  The bundle travels as a blob
        whose time tags are set when the message is built: logged relative to the start (no model: NRT vs RT only)"""
        self.last_dgram = None
        try:
            self.addr.send_msg('/c', int(a[1]), [lat_of(a[2])] + self.build_elems(a[3]))
            if self.mode == 'nrt':
                score = main._osc_interface._osc_score
                ent = max((x for x in score._scoreq._queue), key=lambda x: x[1])
                wire = parse_packet(bytes(ent[2].msg[4:]))
                assert wire[0] == 'b' and len(wire[2]) == 1
                outer = Fraction(wire[1], 1 << 32)            # the score time of the message: the logical time it was sent at
                wire = wire[2][0]
                off = 0
            else:
                wire = parse_packet(self.last_dgram)
                outer = None
                off = SystemClock._elapsed_osc_offset
            assert wire[0] == 'm' and wire[1] == '/c' and isinstance(wire[2][1], bytes)
            t0 = Fraction(self.t0)

            def tags(w):
                if w[0] == 'm':
                    return ['m', msg_id(w[1], w[2])]
                if w[1] == 1:
                    return ['b', 'imm', [tags(x) for x in w[2]]]
                rel = Fraction(w[1] - off, 1 << 32) - t0
                return ['b', fr(Fraction(round(rel * (1 << 24)), 1 << 24)), [tags(x) for x in w[2]]]
            self.qlog(rid, k, 'msg', int(wire[2][0]), json.dumps(tags(parse_packet(wire[2][1]))))
            if outer is not None and abs(outer - Fraction(main.current_tt._seconds)) > Fraction(1, 1 << 31):
                self.errors.append('message %s entered the score at %s, logical time %s' % (a, outer, main.current_tt._seconds))
            return True
        except Exception as e:
            self.errors.append('message action %s: %r' % (a, e))
            return False

    def new_routine(self, b, path):
        rid = len(self.routs)
        run = self

        class R(Routine):
            def __awake__(self, clock):
                if run.mode == 'rt':
                    run.schedule.append([rid, fr(K5._jit.elapsed())])
                return Routine.__awake__(self, clock)
        rout = R(self.make_body(b, rid))
        self.routs.append(rout)
        self.paths.append(path)
        self.nplay.append(0)
        self.latest[b] = rid
        return rid, rout

    def do_play(self, org, b, clock):
        prid = org[0]
        path = self.paths[prid] + [self.nplay[prid]]
        self.nplay[prid] += 1
        T = main.current_tt._m_seconds
        rid, rout = self.new_routine(b, path)
        rout.play(clock, 0)
        self.events.append(['play', org, rid, self.code_of(clock), fr(T)])
        return True

    def do_tempo(self, org, i, v):
        try:
            self.clocks[i].tempo = num(v)
            ok = True
        except ValueError:
            ok = False
        self.events.append(['tempo', org, i, v, ok])
        return ok

    def act(self, rid, k, rout, a, cclk):
        org = [rid, k]
        kind = a[0]
        if kind == 'S':
            return self.do_send(org, a[1], a[2])
        if kind == 'SB':
            if a[1] >= len(self.shared):
                return False
            t = self.prog['shared'][a[1]]
            return self.do_send(org, t[0], t[1], shared=self.shared[a[1]])
        if kind == 'P':
            if a[1] >= len(self.prog['bodies']):
                return False
            if a[2] not in ('S', 'A') and a[2][1] >= len(self.clocks):
                return False
            if a[2] == 'A' and self.mode == 'rt':
                return False
            return self.do_play(org, a[1], self.clock_of(a[2]))
        if kind == 'F':
            if a[1] >= len(self.prog['bodies']):
                return False
            return self.do_play(org, a[1], cclk)
        if kind == 'T':
            if a[1] >= len(self.clocks):
                self.events.append(['tempo', org, a[1], a[2], False])
                return False
            return self.do_tempo(org, a[1], a[2])
        if kind == 'sb':            # the documented beats setter; logged as a 'tempo' event with index 1000 + i
            if a[1] >= len(self.clocks):
                return False
            self.clocks[a[1]].beats = num(a[2])
            self.events.append(['tempo', org, 1000 + a[1], a[2], True])
            return True
        if kind in ('nb', 'nbb', 'ntg', 'ttnb', 'bar', 'cb', 'bpb', 'pnb', 'PQ', 'CP', 'sch', 'scha', 'newc'):
            return self.quant_act(rid, k, a, cclk)
        if kind == 'seed':
            rout.rand_seed = seed_value(a[1])
            self.gens.append(rout._rgen)
            self.gen_seed.append(seed_code(a[1]))
            self.gen_seedval.append(seed_value(a[1]))
            self.gen_hist.append([])
            self.gen_vals.append([])
            return True
        if kind == 'D':
            g = self.gen_index(main._rgen)
            v = enc(REQS[a[1]][0]())
            self.gen_hist[g].append(a[1])
            self.gen_vals[g].append(v)
            self.vals.append(['draw', rid, k, g, a[1], v])
            return True
        if kind == 'sig':
            if a[1] >= len(self.conds):
                return False
            self.conds[a[1]].signal()
            return True
        if kind == 'test':
            if a[1] >= len(self.conds):
                return False
            self.conds[a[1]].test = bool(a[2])
            return True
        if kind == 'fset':
            if a[1] >= len(self.flows):
                return False
            try:
                self.flows[a[1]].value = int(a[2])
            except Exception:
                return False
            return True
        if kind == 'cbs':
            lt = main.current_tt._seconds
            vals = [SystemClock.beats - self.t0, SystemClock.seconds - self.t0, cclk.seconds - self.t0, lt - self.t0]
            if cclk is not SystemClock:
                vals.append(cclk.beats)
            self.qlog(rid, k, 'cbs', *vals)
            if self.mode == 'rt' and not self.has_tempo_change:
                # a lower bound on physical progress only: the task's time has come
                self.qlog(rid, k, 'not-early', bool(K5._jit.elapsed() >= lt))
            return True
        if kind == 'M':
            return self.do_msg(rid, k, a)
        if kind in ('resumeon', 'playon', 'replayon'):
            # the routine is put on ANOTHER clock while its wake-up on the first one may still be pending
            t = self.latest.get(a[1])
            if t is None:
                return True
            if a[2] != 'S' and a[2][1] >= len(self.clocks):
                return False
            try:
                if kind == 'replayon':
                    self.routs[t].reset()
                if kind == 'resumeon':
                    self.routs[t].resume(self.clock_of(a[2]), 0)
                else:
                    self.routs[t].play(self.clock_of(a[2]), 0)
            except Exception:
                return False
            return True
        if kind == 'sch2':
            # ONE Function object scheduled on several clocks: every clock serves its own wake-up
            n = self.nfun.get(rid, 0)
            self.nfun[rid] = n + 1
            run = self

            def fn2(_self, clock, n=n, rid=rid):
                run.vals.append(['q', rid, -1, 'fn', n, run.code_of(clock), run.rel(main.current_tt._seconds)])
            task = sc3fn.Function(fn2)
            for code, d in a[1]:
                if code != 'S' and code[1] >= len(self.clocks):
                    return False
                self.clock_of(code).sched(num(d), task)
            self.qlog(rid, k, 'sch2', n)
            return True
        if kind in ('pause', 'resume', 'stop', 'reset', 'replay', 'play2'):
            t = self.latest.get(a[1])
            if t is None:
                return True
            try:
                if kind == 'pause':
                    self.routs[t].pause()
                elif kind == 'stop':
                    self.routs[t].stop()
                elif kind == 'reset':
                    self.routs[t].reset()
                elif kind == 'replay':
                    self.routs[t].reset()
                    self.routs[t].play(None, 0)
                elif kind == 'play2':
                    self.routs[t].play(None, 0)
                else:
                    self.routs[t].resume(None, 0)
            except Exception:       # RoutineException: cannot be paused within itself
                return False
            return True
        raise AssertionError(a)

    # ------------------------------------------------------------ quantisation API (logged values)
    def qlog(self, rid, k, name, *vals):
        self.vals.append(['q', rid, k, name] + [v if isinstance(v, (str, bool, type(None))) else fr(v) for v in vals])

    def rel(self, secs):
        return fr(Fraction(secs) - Fraction(self.t0))

    def quant_act(self, rid, k, a, cclk):
        kind = a[0]
        org = [rid, k]
        try:
            if kind == 'newc':
                c = TempoClock(num(a[1]))
                self.extra_clocks.append(c)
                self.qlog(rid, k, 'newc', c.beats, c.next_bar(), c.next_time_on_grid(1, 0), self.rel(c.seconds))
                return True
            if kind in ('PQ', 'sch'):
                code = a[2] if kind == 'PQ' else a[1]
            elif kind in ('pnb', 'CP'):
                code = ['T', a[2]]
            else:
                code = ['T', a[1]]
            if code != 'S' and code[1] >= len(self.clocks):
                return False
            clock = self.clock_of(code)
            if kind == 'nb':
                self.qlog(rid, k, 'nb', clock.next_bar())
            elif kind == 'nbb':
                self.qlog(rid, k, 'nbb', clock.next_bar(num(a[2])))
            elif kind == 'ntg':
                self.qlog(rid, k, 'ntg', clock.next_time_on_grid(num(a[2]), num(a[3])))
            elif kind == 'ttnb':
                self.qlog(rid, k, 'ttnb', clock.time_to_next_beat(num(a[2])))
            elif kind == 'bar':
                self.qlog(rid, k, 'bar', clock.bar(), clock.beat_in_bar())
            elif kind == 'cb':
                self.qlog(rid, k, 'cb', clock.beats, self.rel(clock.seconds), clock.tempo)
            elif kind == 'bpb':
                try:
                    clock.beats_per_bar = num(a[2])
                    ok = True
                except Exception:           # ClockError: only from the clock's own scheduling thread
                    ok = False
                if clock is cclk:
                    self.qlog(rid, k, 'bpb', ok, clock.beats_per_bar, clock.base_bar, clock.base_bar_beat)
                else:           # another clock's meter is that clock's routines' business: only whether the setter refused
                    self.qlog(rid, k, 'bpb', ok)
            elif kind in ('pnb', 'PQ', 'CP'):
                b = a[1]
                if b >= len(self.prog['bodies']):
                    return False
                prid = rid
                path = self.paths[prid] + [self.nplay[prid]]
                self.nplay[prid] += 1
                T = main.current_tt._m_seconds
                crid, rout = self.new_routine(b, path)
                if kind == 'pnb':
                    clock.play_next_bar(rout)
                elif kind == 'PQ':
                    rout.play(clock, [num(a[3]), num(a[4])])
                else:
                    clock.play(rout, num(a[3]))
                self.events.append(['play', org, crid, self.code_of(clock), fr(T)])
            elif kind in ('sch', 'scha'):
                n = self.nfun.get(rid, 0)          # numbered per scheduling routine (the global order across clocks is not fixed)
                self.nfun[rid] = n + 1
                run = self

                def fn(*_args, n=n, rid=rid, clock=clock):
                    run.vals.append(['q', rid, -1, 'fn', n, run.rel(clock.seconds), fr(clock.beats) if clock is not SystemClock else None])
                if kind == 'sch':
                    clock.sched(num(a[2]), fn)
                else:
                    clock.sched_abs(clock.beats + num(a[2]), fn)
                self.qlog(rid, k, kind, n)
            return True
        except Exception as e:
            self.errors.append('quant action %s: %r' % (a, e))
            return False

    def make_body(self, b, rid):
        acts = self.prog['bodies'][b]
        run = self

        def body(inval):
            rout, clock = inval
            k = 0
            try:
                if rid == 0:
                    for t in run.prog['tempos']:
                        run.clocks.append(TempoClock(num(t)))
                    run.t0 = main.current_tt._seconds
                run.on_resume(rid, k, clock)
                for a in acts:
                    kind = a[0]
                    if kind == 'Y':
                        back = yield num(a[1])
                        if isinstance(back, tuple) and len(back) == 2 and back[0] is rout:
                            clock = back[1]             # the clock that performs this wake-up (a routine can be moved to another one)
                        k += 1
                        run.on_resume(rid, k, clock)
                    elif kind == 'YV':        # a yielded value that is not a finite number >= 0
                        yield YVALS[a[1]]()
                        k += 1
                        run.on_resume(rid, k, clock)
                    elif kind == 'R':
                        break
                    elif kind == 'raise':
                        run.events.append(['end', rid, k, True])
                        raise {'V': ValueError, 'S': StopStream, 'K': KeyError, 'R': RuntimeError}[a[1]]('script raise')
                    elif kind == 'W':
                        if a[1] >= len(run.conds):
                            raise Script()
                        yield from run.conds[a[1]].wait()
                        k += 1
                        run.on_resume(rid, k, clock)
                    elif kind == 'fget':
                        if a[1] >= len(run.flows):
                            raise Script()
                        v = yield from run.flows[a[1]].value
                        k += 1
                        run.on_resume(rid, k, clock)
                        run.vals.append(['flow', rid, k, a[1], v if isinstance(v, int) else None])
                    else:
                        if not run.act(rid, k, rout, a, clock):
                            raise Script()
            except Script:
                run.events.append(['end', rid, k, True])
                raise RuntimeError('script action raised')
            run.events.append(['end', rid, k, False])
        return body

    def on_resume(self, rid, k, clock):
        self.events.append(['resume', rid, k, self.code_of(clock), fr(main.current_tt._seconds), fr(clock.beats)])

    def start(self):
        with self.lock:
            rid, rout = self.new_routine(0, [])
            rout.play(SystemClock, 0)
            self.events.append(['play', None, 0, 'S', None])      # time filled in once the root has started

    # ------------------------------------------------------------ result
    def table(self):
        """reference table for the model: (seed, requests before, request, value computed on a plain random.Random)"""
        tab, bad = [], []
        for g, (seed, sval, hist, got) in enumerate(zip(self.gen_seed, self.gen_seedval, self.gen_hist, self.gen_vals)):
            if seed is None:
                bad.append('generator object %d was not created by a seed action' % g)
                continue
            ref = reference(sval, hist)
            for j, r in enumerate(hist):
                tab.append([seed, hist[:j], r, ref[j]])
            if ref != got:
                bad.append('generator object %d seeded %r served %s for the requests %s; random.Random(%r) gives %s'
                           % (g, sval, got, hist, sval, ref))
        return tab, bad

    def result(self, extra):
        if self.t0 is not None:
            for e in self.events:
                if e[0] == 'play' and e[1] is None:
                    e[4] = fr(self.t0)
        tab, bad = self.table()
        out = {'events': self.events, 'vals': self.vals, 'paths': self.paths, 'errors': self.errors,
               'table': tab, 'stream_errors': bad, 't0': fr(self.t0) if self.t0 is not None else None,
               'gen_seed': self.gen_seed, 'gen_seedval': [repr(x) for x in self.gen_seedval], 'gen_hist': self.gen_hist, 'gen_vals': self.gen_vals}
        out.update(extra)
        return out


def run_nrt(prog):
    main.reset()
    run = XRun(prog, 'nrt')
    run.start()
    score = main.process(num(prog['tail']))
    lst = score.list
    raw = bytes(score.raw)
    chunks, pos = [], 0
    while pos < len(raw):
        n = struct.unpack('>i', raw[pos:pos + 4])[0]
        chunks.append(raw[pos + 4:pos + 4 + n])
        pos += 4 + n
    ok_raw = (pos == len(raw)) and len(chunks) == len(lst)
    sc = []
    if ok_raw:
        for b, ch in zip(lst, chunks):
            sc.append(merge(b, parse_packet(ch)))
    post = {'current_is_main': main.current_tt is main.main_tt, 'no_parent_left': all(r.parent is None for r in run.routs),
            'none_running': not any(r.state == r.State.Running for r in run.routs)}
    # two sites: the time of every (nested) bundle in the list view against the timetag in the binary form
    twosite = []

    def walk(node, where):
        if node[0] != 'b':
            return
        if node[2] is None or int(Fraction(node[2]) * (1 << 32)) != node[3]:
            twosite.append('%s: list view time %s, timetag in the bytes %s' % (where, node[2], node[3]))
        for j, sub in enumerate(node[4]):
            walk(sub, where + '.%d' % j)
    for i, node in enumerate(sc):
        walk(node, 'score entry %d' % i)
    return run.result({'score': sc, 'twosite': twosite[:5], 'raw_ok': ok_raw, 'elapsed': fr(main.elapsed_time()), 'post': post,
                       'raw_sha1': hashlib.sha1(raw).hexdigest(), 'raw_len': len(raw),
                       'list_repr_sha1': hashlib.sha1(repr(lst).encode()).hexdigest(), 'completed': True})


_delay = None


def install_delay(delay):
    """make one clock thread late: it sleeps (main lock released) whenever it is about to read the time"""
    global _delay
    _delay = delay


def run_rt(prog, delay=None):
    run = XRun(prog, 'rt')
    iface = main._osc_interface

    def logging_send(msg, target):
        run.last_dgram = bytes(msg.dgram)
    iface._send = logging_send
    late_thread = {}
    if delay is not None:
        base = K5._jit.elapsed

        def elapsed():
            th = threading.current_thread()
            name = th.name
            hit = (delay['clock'] == 'S' and name == 'SystemClock') or \
                  (delay['clock'] != 'S' and name.startswith('TempoClock') and
                   len(run.clocks) > delay['clock'] and th is run.clocks[delay['clock']]._thread)
            if hit and run.t0 is not None and not main._in_awake_call:
                # a late thread: wait with the lock released (Condition.wait releases the RLock fully)
                cond = SystemClock._sched_cond if delay['clock'] == 'S' else run.clocks[delay['clock']]._sched_cond
                end = time.time() + delay['seconds']
                while time.time() < end:
                    cond.wait(max(0.0005, end - time.time()))
            return base()
        main.elapsed_time = elapsed
    run.start()
    deadline = time.time() + 8.0
    done = False
    while time.time() < deadline:
        with run.lock:
            if run.t0 is not None and SystemClock._task_queue.empty() and all(c._task_queue.empty() for c in run.clocks + run.extra_clocks):
                done = True
                break
        time.sleep(0.01)
    if delay is not None:
        main.elapsed_time = K5._jit.elapsed
    with run.lock:
        for c in run.clocks + run.extra_clocks:
            c.clear()
        SystemClock.clear()
    for c in run.clocks + run.extra_clocks:
        c.stop()
    # what the NEXT unrelated operation (the main thread) finds: no flag left set, the main thread's logical time refreshes
    with run.lock:
        before = K5._jit.elapsed()
        v1 = main.main_tt._seconds
        v2 = main.main_tt._seconds
        post = {'current_is_main': main.current_tt is main.main_tt, 'in_awake_call': bool(main._in_awake_call),
                'no_parent_left': all(r.parent is None for r in run.routs),
                'none_running': not any(r.state == r.State.Running for r in run.routs),
                'main_time_refreshes': bool(v1 >= before and v2 >= v1)}
    return run.result({'schedule': run.schedule, 'completed': done, 'offset': str(SystemClock._elapsed_osc_offset), 'post': post})


def main_():
    payload = json.load(open(sys.argv[1]))
    out = []
    if MODE == 'rt':
        K5.rt_setup(payload.get('seed', 1))
    for prog in payload['cases']:
        try:
            out.append(run_nrt(prog) if MODE == 'nrt' else run_rt(prog, payload.get('delay')))
        except Exception as e:
            import traceback
            out.append({'fatal': '%r\n%s' % (e, traceback.format_exc())})
    with open(sys.argv[2], 'w') as f:
        json.dump({'out': out}, f)
    K5._burn = False


if __name__ == '__main__':
    main_()
    sys.stdout.flush()
    os._exit(0)
