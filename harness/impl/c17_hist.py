"""C17 -- run op histories on the REAL sc3 client objects and capture every command at the
OSC-interface boundary (what NetAddr hands to the interface), encoded by the library's own
encoder and decoded again by the small independent reader below (wire-level types).

in : {"histories": [[op, ...], ...]}
out: {"out": [ {"steps": [ {"ev": [...], "exc": str|None, "alloc": [...], "free": [...]}, ... ]} ... ]}

Wire events:  ["M", msg]  |  ["B", time|None, [msg, ...]]
msg = [addr, [arg, ...]];  arg = ["i", int] | ["f", "n/d"] | ["s", str] | ["b", msg | ["#", len]] |
      ["["] | ["]"] | ["m", ...] | ["?", tag]
"""
import json, os, struct, sys, traceback
from fractions import Fraction

import sc3
sc3.init(os.environ.get('SC3_MODE', 'nrt'))
import logging
logging.disable(logging.CRITICAL)

from sc3.base.main import main
from sc3.base import _oscinterface as osci
from sc3.synth.server import Server
from sc3.synth.node import Synth, Group, ParGroup, RootNode
from sc3.synth.buffer import Buffer
from sc3.synth.bus import AudioBus, ControlBus
from sc3.synth import synthdef as sdf
from sc3.synth import systemdefs as sds

s = Server.default
itf = main._osc_interface
DEFAULT_LATENCY = s.latency
from sc3.base.netaddr import NetAddr
OTHER = Server('other', NetAddr('127.0.0.1', 57111))     # a second, non-default server (never booted)
SERVERS = [s, OTHER]
PORT_OF = {srv.addr._target: k for k, srv in enumerate(SERVERS)}


# ---- independent OSC reader (wire-level view) -------------------------------------------

def _rd_str(d, p):
    e = d.index(b'\0', p)
    st = d[p:e].decode('latin1')
    p = e + 1
    p += (-p) % 4
    return st, p


def decode_msg(d):
    d = bytes(d)
    addr, p = _rd_str(d, 0)
    if p >= len(d):
        return [addr, []]
    tags, p = _rd_str(d, p)
    args = []
    for t in tags[1:]:
        if t == 'i':
            args.append(['i', struct.unpack('>i', d[p:p + 4])[0]]); p += 4
        elif t == 'f':
            args.append(['f', str(Fraction(struct.unpack('>f', d[p:p + 4])[0]))]); p += 4
        elif t == 'd':
            args.append(['d', str(Fraction(struct.unpack('>d', d[p:p + 8])[0]))]); p += 8
        elif t == 'h':
            args.append(['h', struct.unpack('>q', d[p:p + 8])[0]]); p += 8
        elif t == 's':
            st, p = _rd_str(d, p); args.append(['s', st])
        elif t == 'b':
            n = struct.unpack('>i', d[p:p + 4])[0]; p += 4
            blob = d[p:p + n]; p += n; p += (-p) % 4
            sub = None
            try:
                # a nested message (the library turns any list whose first item is a str into one)
                a2, q = _rd_str(blob, 0)
                if a2 and q < len(blob) and blob[q:q + 1] == b',' and all(32 < c < 127 for c in a2.encode('latin1')):
                    sub = decode_msg(blob)
                    if any(x[0] == '?' for x in sub[1]):
                        sub = None
            except Exception:
                sub = None
            args.append(['b', sub if sub is not None else ['#', n]])
        elif t in '[]':
            args.append([t])
        elif t == 'T':
            args.append(['T'])
        elif t == 'F':
            args.append(['F'])
        elif t == 'N':
            args.append(['N'])
        elif t == 'm':
            args.append(['m', list(d[p:p + 4])]); p += 4
        else:
            args.append(['?', t])
    return [addr, args]


# ---- capture ----------------------------------------------------------------------------

LOG = []


def _enc_msg(args):
    # the library's own encoder (raises exactly where a real send would raise)
    return decode_msg(osci.OscInterface._build_msg(itf, 0.0, list(args)).dgram)


def cap_send_msg(target, *args):
    check_budget(1)
    LOG.append(['M', _enc_msg(args), PORT_OF.get(tuple(target), -1)])


def cap_send_bundle(target, time, *elements):
    check_budget(len(elements))
    msgs = []
    for e in elements:
        if isinstance(e[0], str):
            msgs.append(_enc_msg(e))
        else:
            msgs.append(['#nested-bundle', []])
    t = None if time is None else str(Fraction(time))
    LOG.append(['B', t, msgs, PORT_OF.get(tuple(target), -1)])


itf.send_msg = cap_send_msg
itf.send_bundle = cap_send_bundle


class Budget(BaseException):
    """the run produced more than any history of the model can (a packet with far too many commands, a history
    that takes far too long): stop instead of grinding on a broken tree"""


MAX_PACKET = 600          # commands in one packet; the longest generated history issues well under 200
MAX_HISTORY_S = 20.0      # wall seconds for one history (normal: a few milliseconds)
MAX_TOTAL_S = 420.0       # wall seconds for the whole batch
MAX_BUDGET_HITS = 3       # after that many histories over budget the rest of the batch is skipped
import time as _time
_T0 = [_time.time(), _time.time()]     # [batch start, history start]


MAX_HISTORY_CMDS = 2500   # commands reaching the interface during one history
_CNT = [0]


def check_budget(n_cmds=0):
    now = _time.time()
    _CNT[0] += n_cmds
    if _CNT[0] > MAX_HISTORY_CMDS:
        raise Budget('%d commands reached the OSC interface during one history (cap %d)' % (_CNT[0], MAX_HISTORY_CMDS))
    if n_cmds > MAX_PACKET:
        raise Budget('a packet with %d commands reached the OSC interface (cap %d)' % (n_cmds, MAX_PACKET))
    if now - _T0[1] > MAX_HISTORY_S:
        raise Budget('the history ran for more than %.0f s' % MAX_HISTORY_S)


import resource, signal
MAX_MEMORY = 3 * 1024 ** 3        # address space of the runner; a normal batch needs well under 1 GB
try:
    resource.setrlimit(resource.RLIMIT_AS, (MAX_MEMORY, MAX_MEMORY))
except (ValueError, OSError):
    pass


def _alarm(signum, frame):
    raise Budget('the history ran for more than %.0f s' % MAX_HISTORY_S)


try:
    signal.signal(signal.SIGALRM, _alarm)
except (ValueError, OSError):
    pass


class Boom(Exception):
    pass


class BoomBase(BaseException):     # not an Exception subclass (like KeyboardInterrupt / GeneratorExit)
    pass


# ---- op execution -----------------------------------------------------------------------

class World:
    def __init__(self, latency=None, k=0, shared=None, config=None):
        s = self.srv = SERVERS[k]
        self.k = k
        # a history must not inherit a server address that an earlier history failed to restore
        guard = 0
        while type(s._addr).__name__ == 'BundleNetAddr' and guard < 1000:
            s._addr = s._addr._save_addr; guard += 1
        # login configuration: number of logins the server allows, the client id it handed out, reserved ids
        cfg = config or {}
        s.options.max_logins = cfg.get('max_logins', 1)
        s._status_watcher._max_logins = cfg.get('max_logins', 1)
        s.options.reserved_buffers = cfg.get('reserved_buffers', 0)
        s.options.reserved_control_buses = cfg.get('reserved_control_buses', 0)
        s.options.reserved_audio_buses = cfg.get('reserved_audio_buses', 0)
        s._set_client_id(cfg.get('client_id', 0))       # new node / bus / buffer allocators, default groups
        Buffer._server_caches.pop(s, None)
        if k == 0:
            sds.SystemDefs._tmp_def_count = 0        # names of the temporary definitions play() generates: per history
        s.latency = DEFAULT_LATENCY if latency is None else float(Fraction(latency))
        self.passed = []          # mutable argument objects handed to the library by the current op
        self.nodes, self.bufs, self.buses = [], [], []
        self.tag = shared is not None
        if shared is None:
            self.alloc, self.free = [], []
        else:                     # several servers in one history: one record of allocator calls, tagged with the server
            self.alloc, self.free = shared.alloc, shared.free
        self._wrap(s._node_allocator, 'node')
        self._wrap(s._buffer_allocator, 'buf')
        self._wrap(s._control_bus_allocator, 'cbus')
        self._wrap(s._audio_bus_allocator, 'abus')

    def _wrap(self, al, kind):
        w = self
        oa = al.alloc

        def alloc(*a):
            r = oa(*a)
            w.alloc.append([kind, r, (a[0] if a else 1)] + ([w.k] if w.tag else []))
            return r
        al.alloc = alloc
        if hasattr(al, 'free'):
            of = al.free

            def free(addr):
                before = {(b.address, b.size) for b in al.blocks()}
                of(addr)
                after = {(b.address, b.size) for b in al.blocks()}
                for b in sorted(before - after):
                    w.free.append([kind, b[0], b[1]] + ([w.k] if w.tag else []))
            al.free = free


def val(w, v):
    k = v['v']
    if k == 'i':
        return int(v['x'])
    if k == 'f':
        return float(Fraction(v['x']))
    if k == 'b':
        return bool(v['x'])
    if k == 's':
        return v['x']
    if k == 'none':
        return None
    if k == 'l':
        r = [val(w, x) for x in v['x']]
        w.passed.append(r)
        return r
    if k == 't':
        return tuple(val(w, x) for x in v['x'])
    if k == 'd':
        r = {val(w, a): val(w, b) for a, b in v['x']}
        w.passed.append(r)
        return r
    if k == 'bus':
        return w.buses[v['i']]
    if k == 'buf':
        return w.bufs[v['i']]
    if k == 'node':
        return w.nodes[v['i']]
    if k == 'map':
        return w.buses[v['i']].as_map()
    raise ValueError(k)


def vals(w, lst):
    return [val(w, x) for x in lst]


def target(w, t):
    k = t['t']
    if k == 'none':
        return None
    if k == 'server':
        return w.srv
    if k == 'root':
        return RootNode(w.srv)
    if k == 'node':
        return w.nodes[t['i']]
    if k == 'int':
        return int(t['x'])
    raise ValueError(k)


def compl(w, c):
    """completion message: None | {'k':'msg','m':[addr, vals]} | {'k':'fn', 'cmd': '/b_query'|...}"""
    if c is None:
        return None
    if c['k'] == 'msg':
        return [c['addr']] + vals(w, c['args'])
    if c['k'] == 'fn':      # function of the buffer (and index): [addr, buf.bufnum, *args]
        return lambda buf, *i: [c['addr'], buf.bufnum] + vals(w, c['args'])
    raise ValueError(c['k'])


_SD = None


def the_synthdef():
    global _SD
    if _SD is None:
        from sc3.synth.ugens import SinOsc, Out
        _SD = sdf.SynthDef('c17', lambda freq=440: Out.ar(0, SinOsc.ar(freq)))
    return _SD


INFO = {}        # what the current op learnt from the objects the library returned (generated definition name ...)


def play_graph(freq=440, amp=0.1, pan=0):
    from sc3.synth.ugens import SinOsc
    return SinOsc.ar(freq) * amp


def do_play(w, op):
    """the play() entry point: a function or a Buffer becomes a temporary definition + a Synth client object"""
    from sc3.base.play import play
    a = val(w, op['args'])
    ob = val(w, op['outbus'])
    sw = w.srv._status_watcher
    saved = (sw._has_booted, sw._notified)
    sw._has_booted = sw._notified = True           # precondition of play(): the server is running
    orig = sdf.SynthDef._do_send

    def rec(self_, server, completion_msg):
        INFO['defbytes'] = len(bytes(self_.as_bytes()))
        return orig(self_, server, completion_msg)
    sdf.SynthDef._do_send = rec
    w.nodes.append(None)
    try:
        if op['kind'] == 'func':
            x = play(play_graph, target(w, op['target']), ob, op['fade'], op['action'], a)
        else:
            x = play(w.bufs[op['b']], op['loop'], 0.5, outbus=ob, fade=op['fade'], add_action=op['action'], args=a)
    finally:
        sdf.SynthDef._do_send = orig
        sw._has_booted, sw._notified = saved
    w.nodes[-1] = x
    INFO['defname'] = x.def_name


def drive(call):
    """run `call`; every routine it (or a routine it starts) plays is captured instead of being scheduled and is then run
    to its end from here, each resumption standing for the elapsed wait / the server's reply"""
    from sc3.base.stream import Routine
    queue = []
    orig = Routine.play

    def play(self, clock=None, quant=None):
        queue.append(self)
    Routine.play = play
    try:
        res = call()
        while queue:
            r = queue.pop(0)
            for _ in range(100000):
                check_budget(0)
                try:
                    next(r)
                except StopIteration:
                    break
        return res
    finally:
        Routine.play = orig


def exec_op(w, op):
    o = op['op']
    N, B, U = w.nodes, w.bufs, w.buses
    if o == 'synth':
        c = op.get('ctor', 'init')
        a = None if op['args'] is None else val(w, op['args'])
        t = target(w, op['target'])
        if c == 'init':
            N.append(None); N[-1] = Synth(op['def'], a, t, op['action'])
        elif c == 'new_paused':
            N.append(None); N[-1] = Synth.new_paused(op['def'], a, t, op['action'])
        elif c == 'grain':
            Synth.grain(op['def'], a, t, op['action'])
        elif c == 'replace':
            N.append(None); N[-1] = Synth.replace(t, op['def'], a, op['same_id'])
        elif c in ('after', 'before', 'head', 'tail'):
            N.append(None); N[-1] = getattr(Synth, c)(t, op['def'], a)
        else:
            raise ValueError(c)
    elif o == 'group':
        cls = ParGroup if op['par'] else Group
        c = op.get('ctor', 'init')
        t = target(w, op['target'])
        N.append(None)
        if c == 'init':
            N[-1] = cls(t, op['action'])
        else:
            N[-1] = getattr(cls, c)(t)
    elif o == 'play':
        do_play(w, op)
    elif o == 'basic_new':       # client-side only object with a user supplied id
        N.append(None); N[-1] = Group.basic_new(w.srv, op['id'])
    elif o in ('n_set', 'n_setn', 'n_map', 'n_mapa', 'n_mapn', 'n_mapan', 'seti'):
        getattr(N[op['n']], o[2:] if o != 'seti' else o)(*vals(w, op['args']))
    elif o == 'n_fill':
        N[op['n']].fill(*vals(w, op['args']))
    elif o == 'n_release':
        N[op['n']].release(None if op['time'] is None else val(w, op['time']))
    elif o == 'n_run':
        N[op['n']].run(val(w, op['flag']))
    elif o == 'n_free':
        N[op['n']].free(op.get('send', True))
    elif o in ('n_trace', 'n_query'):
        getattr(N[op['n']], o[2:])()
    elif o in ('n_move_before', 'n_move_after'):
        getattr(N[op['n']], o[2:])(N[op['t']])
    elif o in ('n_move_to_head', 'n_move_to_tail'):
        getattr(N[op['n']], o[2:])(None if op['t'] is None else N[op['t']])
    elif o in ('g_free_all', 'g_deep_free'):
        getattr(N[op['n']], o[2:])()
    elif o == 'g_dump_tree':
        N[op['n']].dump_tree(op['controls'])
    elif o == 's_reorder':
        w.srv.reorder([N[i] for i in op['nodes']], target(w, op['target']), op['action'])
    elif o == 's_free_default_group':
        w.srv.free_default_group(op['all'])
    elif o == 's_send_default_groups':
        w.srv._send_default_groups()
    elif o == 's_dump_osc':
        w.srv.dump_osc(op['code'])
    elif o == 'sd_send':
        the_synthdef()._do_send(w.srv, compl(w, op['compl']))
    elif o == 'sd_load':
        sdf.SynthDef.load_from_file(w.srv, op['name'], compl(w, op['compl']), '/tmp/defs')
    elif o == 'sd_load_dir':
        sdf.SynthDef.load_directory(w.srv, '/tmp/defs', compl(w, op['compl']))
    # ---- buffers
    elif o == 'b_new':
        B.append(None)
        B[-1] = Buffer(op['frames'], op['channels'], w.srv, op.get('bufnum'), compl(w, op['compl']), alloc=op.get('alloc', True), cache=op.get('cache', True))
    elif o == 'b_consecutive':
        lst = Buffer.new_consecutive(op['n'], op['frames'], op['channels'], w.srv, op.get('bufnum'), compl(w, op['compl']))
        B.extend(lst)
    elif o == 'b_new_read':
        B.append(None); B[-1] = Buffer.new_read(op['path'], op['start'], op['frames'], w.srv, op.get('bufnum'))
    elif o == 'b_new_read_channel':
        B.append(None); B[-1] = Buffer.new_read_channel(op['path'], op['start'], op['frames'], op['chans'], w.srv, op.get('bufnum'))
    elif o == 'b_new_cue':
        B.append(None); B[-1] = Buffer.new_cue(op['path'], op['start'], op['size'], op['channels'], w.srv, op.get('bufnum'), compl(w, op['compl']))
    elif o == 'b_alloc':
        B[op['b']].alloc(compl(w, op['compl']))
    elif o == 'b_alloc_read':
        B[op['b']].alloc_read(op['path'], op['start'], op['frames'], compl(w, op['compl']))
    elif o == 'b_alloc_read_channel':
        B[op['b']].alloc_read_channel(op['path'], op['start'], op['frames'], op['chans'], compl(w, op['compl']))
    elif o == 'b_read':
        B[op['b']].read(op['path'], op['fstart'], op['frames'], op['bstart'], op['leave_open'])
    elif o == 'b_read_channel':
        B[op['b']].read_channel(op['path'], op['fstart'], op['frames'], op['bstart'], op['leave_open'], op['chans'])
    elif o == 'b_cue':
        B[op['b']].cue(op['path'], op['start'], compl(w, op['compl']))
    elif o == 'b_write':
        B[op['b']].write(op['path'], op['header'], op['sample'], op['frames'], op['start'], op['leave_open'], compl(w, op['compl']))
    elif o in ('b_close', 'b_free', 'b_zero'):
        getattr(B[op['b']], o[2:])(compl(w, op['compl']))
    elif o == 'b_free_all':
        Buffer.free_all(w.srv)
    elif o == 'b_fill':
        B[op['b']].fill(val(w, op['start']), val(w, op['frames']), vals(w, op['values']))
    elif o in ('b_set', 'b_setn'):
        getattr(B[op['b']], o[2:])(*vals(w, op['args']))
    elif o == 'b_query':
        B[op['b']].query()
    elif o == 'b_update_info':
        B[op['b']].update_info()
    elif o == 'b_get':
        B[op['b']].get(op['index'], lambda *a: None)
    elif o == 'b_getn':
        B[op['b']].getn(op['index'], op['count'], lambda *a: None)
    elif o == 'b_gen':
        B[op['b']].gen(op['cmd'], vals(w, op['args']), op['normalize'], op['wavetable'], op['clear'])
    elif o in ('b_sine1', 'b_cheby'):
        getattr(B[op['b']], o[2:])(vals(w, op['amps']), op['normalize'], op['wavetable'], op['clear'])
    elif o == 'b_sine2':
        B[op['b']].sine2(vals(w, op['freqs']), vals(w, op['amps']), op['normalize'], op['wavetable'], op['clear'])
    elif o == 'b_sine3':
        B[op['b']].sine3(vals(w, op['freqs']), vals(w, op['amps']), vals(w, op['phases']), op['normalize'], op['wavetable'], op['clear'])
    elif o == 'b_normalize':
        B[op['b']].normalize(val(w, op['max']), op['wavetable'])
    elif o == 'b_send_list':
        drive(lambda: B[op['b']].send_list(vals(w, op['values']), op['start'], 0))
    elif o == 'b_new_send_list':
        B.append(None)
        B[-1] = drive(lambda: Buffer.new_send_list(vals(w, op['values']), op['channels'], w.srv, 0))
    elif o == 'b_get_to_list':
        drive(lambda: B[op['b']].get_to_list(lambda *a: None, op['index'], op['count'], 0))
    elif o == 'b_copy_data':
        B[op['b']].copy_data(B[op['dst']], op['dst_start'], op['start'], op['n'])
    # ---- buses
    elif o == 'bus_new':
        U.append(None)
        U[-1] = (AudioBus if op['audio'] else ControlBus)(op['channels'], w.srv, op.get('index'))
    elif o == 'bus_sub':
        U.append(None); U[-1] = U[op['u']].sub_bus(op['offset'], op['channels'])
    elif o == 'bus_free':
        U[op['u']].free()
    elif o == 'bus_set':
        U[op['u']].set(*vals(w, op['values']))
    elif o == 'bus_setn':
        U[op['u']].setn(vals(w, op['values']))
    elif o == 'bus_set_at':
        U[op['u']].set_at(op['offset'], *vals(w, op['values']))
    elif o == 'bus_setn_at':
        U[op['u']].setn_at(op['offset'], vals(w, op['values']))
    elif o == 'bus_set_pairs':
        U[op['u']].set_pairs(*vals(w, op['pairs']))
    elif o == 'bus_fill':
        U[op['u']].fill(val(w, op['value']), op['channels'])
    elif o == 'bus_clear':
        U[op['u']].clear()
    elif o == 'bus_get':
        U[op['u']].get(lambda *a: None)
    elif o == 'bus_getn':
        U[op['u']].getn(op['count'], lambda *a: None)
    elif o == 'sync':          # yield from server.sync(), driven from a routine; the '/synced' reply is simulated
        from sc3.base.stream import Routine

        def body():
            yield from w.srv.sync()
        r = Routine(body)
        for _ in range(50):     # each resumption stands for "the server answered"
            try:
                next(r)
            except StopIteration:
                break
    elif o == 'raw_msg':       # direct use of the address inside/outside bind
        w.srv.addr.send_msg(op['addr'], *vals(w, op['args']))
    else:
        raise ValueError('unknown op ' + o)


def exc_name(e):
    return type(e).__name__


def run_history(ops, latency=None, config=None):
    multi = any('srv' in op for op in ops)
    if multi:
        # several servers in one history: op['srv'] names the server the op addresses; latency = one value per server
        lats = latency if isinstance(latency, list) else [latency] * len(SERVERS)
        cfgs = config if isinstance(config, list) else [config] * len(SERVERS)
        w0 = World(lats[0], 0, shared=None, config=cfgs[0])
        w0.tag = True
        worlds = [w0] + [World(lats[k], k, shared=w0, config=cfgs[k]) for k in range(1, len(SERVERS))]
    else:
        worlds = [World(latency, config=config)]
    w = worlds[0]
    steps = [None] * len(ops)
    n = len(ops)

    def wof(op):
        return worlds[op.get('srv', 0)]

    def mark(i, exc=None):
        steps[i] = {'ev': LOG[:], 'exc': exc, 'alloc': w.alloc[:], 'free': w.free[:]}
        if INFO:
            steps[i]['info'] = dict(INFO)
        LOG.clear(); w.alloc.clear(); w.free.clear(); INFO.clear()

    def level(pos):
        """run ops from pos at the current nesting level; returns (next_pos, k) where k > 0 means an
        exception is propagating through k more enclosing bind blocks."""
        while pos < n:
            op = ops[pos]
            o = op['op']
            if o == 'bind_enter':
                mark(pos)
                k = 0
                close_pos = None
                bs = wof(op).srv
                try:
                    with bs.bind():
                        pos, k = level(pos + 1)
                        close_pos = pos - 1
                        if k > 0:
                            raise (BoomBase() if ops[close_pos].get('base') else Boom())
                    mark(close_pos)                      # normal exit: flush recorded at the bind_exit op
                    steps[close_pos]['addr'] = type(bs.addr).__name__
                except (Boom, BoomBase):
                    mark(close_pos)                      # nothing must have been sent
                    k -= 1
                    steps[close_pos]['addr'] = type(bs.addr).__name__
                    if k > 0:
                        return pos, k
                except Exception as e:                   # flush failed (unencodable message) or library error
                    if isinstance(e, MemoryError):
                        raise Budget('MemoryError inside the library (address space capped at %d MB)' % (MAX_MEMORY >> 20))
                    if close_pos is None:
                        raise
                    mark(close_pos, 'flush:' + exc_name(e))
                continue
            if o == 'bind_exit':
                return pos + 1, 0
            if o == 'bind_raise':
                return pos + 1, int(op['k'])
            try:
                wo = wof(op)
                wo.passed = []
                exec_op(wo, op)
                if op.get('then_mutate'):
                    # the caller re-uses / changes his own argument objects after the call returned
                    for obj in wo.passed:
                        if isinstance(obj, list):
                            obj.append(12345); obj.insert(0, 'zzz')
                        elif isinstance(obj, dict):
                            obj['zzz'] = 12345
                mark(pos)
            except Exception as e:
                if isinstance(e, MemoryError):
                    raise Budget('MemoryError inside the library (address space capped at %d MB)' % (MAX_MEMORY >> 20))
                mark(pos, exc_name(e))
            pos += 1
        return pos, 0

    level(0)
    for i in range(n):
        if steps[i] is None:
            steps[i] = {'ev': [], 'exc': 'not-run', 'alloc': [], 'free': []}
    # final snapshot of the allocators and of the client objects
    finals = []
    for wk in worlds:
        sv = wk.srv
        final = {
            'buf_blocks': sorted([b.address, b.size] for b in sv._buffer_allocator.blocks()),
            'cbus_blocks': sorted([b.address, b.size] for b in sv._control_bus_allocator.blocks()),
            'abus_blocks': sorted([b.address, b.size] for b in sv._audio_bus_allocator.blocks()),
            'bufnums': [None if b is None else b.bufnum for b in wk.bufs],
            'bus_index': [None if u is None else u.index for u in wk.buses],
            'node_ids': [None if x is None else x.node_id for x in wk.nodes],
            'node_servers': [None if x is None else SERVERS.index(x.server) for x in wk.nodes],
            'buf_servers': [None if b is None else SERVERS.index(b.server) for b in wk.bufs],
            'bus_servers': [None if u is None else SERVERS.index(u.server) for u in wk.buses],
            'default_group': sv.default_group.node_id,
            'default_groups': [g.node_id for g in sv._default_groups],
            'client_id': sv.client_id,
        }
        if sv.addr is not sv._addr or type(sv.addr).__name__ != 'NetAddr':
            final['addr_not_restored'] = type(sv.addr).__name__
        cache = Buffer._server_caches.get(sv, {})
        final['cached'] = sorted(k for k in cache if isinstance(k, int))
        final['cached_none'] = sum(1 for k in cache if k is None)
        final['latency'] = str(Fraction(sv.latency)) if sv.latency is not None else None
        finals.append(final)
    if multi:
        return {'steps': steps, 'finals': finals, 'final': finals[0]}
    return {'steps': steps, 'final': finals[0]}


def main_():
    payload = json.load(open(sys.argv[1]))
    out = []
    lats = payload.get('latencies') or [None] * len(payload['histories'])
    cfgs = payload.get('configs') or [None] * len(payload['histories'])
    hits = 0
    for ops, lat, cfg in zip(payload['histories'], lats, cfgs):
        LOG.clear()
        _T0[1] = _time.time()
        _CNT[0] = 0
        if hits >= MAX_BUDGET_HITS or _T0[1] - _T0[0] > MAX_TOTAL_S:
            out.append({'steps': [], 'final': {}, 'skipped': 'budget exhausted earlier in this batch'})
            continue
        try:
            try:
                signal.setitimer(signal.ITIMER_REAL, MAX_HISTORY_S)
            except (ValueError, OSError):
                pass
            try:
                out.append(run_history(ops, lat, cfg))
            finally:
                try:
                    signal.setitimer(signal.ITIMER_REAL, 0)
                except (ValueError, OSError):
                    pass
        except (Budget, MemoryError) as e:
            hits += 1
            LOG.clear()
            import gc; gc.collect()
            out.append({'steps': [], 'final': {}, 'budget': str(e) or type(e).__name__})
            for sv in SERVERS:
                while type(sv.addr).__name__ == 'BundleNetAddr':
                    sv._addr = sv._addr._save_addr
        except Exception as e:
            out.append({'steps': [], 'final': {}, 'crash': exc_name(e) + ': ' + str(e) + '\n' + traceback.format_exc()[-1500:]})
            # make sure a half-open bind does not leak into the next history
            for sv in SERVERS:
                while type(sv.addr).__name__ == 'BundleNetAddr':
                    sv._addr = sv._addr._save_addr
    json.dump({'out': out, 'latency': str(Fraction(s.latency)), 'sd_nbytes': len(bytes(the_synthdef().as_bytes())),
               'default_group': s.default_group.node_id}, open(sys.argv[2], 'w'))


main_()
