"""C13: the lifting law of EVERY operator method that AbstractObject defines, on patterns.

Part 1 (forwarding): each public method is called on a recording AbstractObject with a distinct sentinel
for every parameter (optional ones given explicitly, positionally and by keyword); the composed node must
carry the method's selector and ALL the arguments, in order.
Part 2 (end to end): list(getattr(Pseq(xs), m)(*args)) == [selector(x, *args_i)] with the library's own scalar
kernel as selector (C15's), for constant arguments, pattern-valued arguments (zip, shortest ends), the default
and every explicit value of optional arguments (clip modes, frac, curve, mod), method and function spelling,
standalone and nested.
Output: {'bad': [{'expr', 'got', 'want'}], 'methods': n}"""
import inspect, json, operator, os, sys
import sc3
sc3.init(os.environ.get('SC3_MODE', 'nrt'))
import sc3.base.builtins as bi
from sc3.base import absobject as aob
from sc3.seq.patterns.listpatterns import Pseq
from sc3.seq.patterns.filterpatterns import Pn

RANDOM = ('rand', 'coin')
# the kernel every method must compose: the builtins function of the same name, or the Python operator
ALIAS = {'abs': operator.abs, 'bitand': operator.and_, 'bitnot': operator.invert, 'bitor': operator.or_, 'bitxor': operator.xor,
         'lshift': operator.lshift, 'neg': operator.neg, 'not_': operator.not_, 'pow': operator.pow, 'rshift': operator.rshift}
DUNDER = {'__neg__': operator.neg, '__pos__': operator.pos, '__abs__': operator.abs, '__invert__': operator.invert,
          '__add__': operator.add, '__sub__': operator.sub, '__mul__': operator.mul, '__truediv__': operator.truediv,
          '__floordiv__': operator.floordiv, '__mod__': None, '__pow__': operator.pow, '__lshift__': operator.lshift,
          '__rshift__': operator.rshift, '__and__': operator.and_, '__or__': operator.or_, '__xor__': operator.xor,
          '__lt__': operator.lt, '__le__': operator.le, '__eq__': operator.eq, '__ne__': operator.ne, '__gt__': operator.gt,
          '__ge__': operator.ge}


class Rec(aob.AbstractObject):
    def _compose_unop(self, selector):
        return ('un', selector, ())

    def _compose_binop(self, selector, other):
        return ('bin', selector, (other,))

    def _rcompose_binop(self, selector, other):
        return ('rbin', selector, (other,))

    def _compose_narop(self, selector, *args):
        return ('nar', selector, tuple(args))


NUM = {'inmin': 1.0, 'inmax': 4.0, 'outmin': 10.0, 'outmax': 20.0, 'incenter': 2.0, 'outcenter': 15.0, 'curve': -2,
       'lo': 1, 'hi': 4, 'frac': 0.25, 'mod': 3.0, 'other': 3, 'ndigits': 0.5}
CLIPS = ['minmax', 'min', 'max', None]
XS = [0.5, 1, 2.5, 4.0, 6.0, 3]


def run(p):
    try:
        return list(p)
    except Exception as e:
        return 'err:' + type(e).__name__


def scal(f, rows):
    try:
        return [f(*r) for r in rows]
    except Exception as e:
        return 'err:' + type(e).__name__


def same(a, b):
    if isinstance(a, str) or isinstance(b, str):
        return isinstance(a, str) and isinstance(b, str)
    return len(a) == len(b) and all(type(x) is type(y) and (x == y or (x != x and y != y)) for x, y in zip(a, b))


def main():
    bad, nmeth = [], 0
    rec = Rec()
    for name, meth in inspect.getmembers(aob.AbstractObject, inspect.isfunction):
        if name.startswith('_') or any(r in name for r in RANDOM):
            continue
        params = list(inspect.signature(meth).parameters.values())[1:]
        nmeth += 1
        # ---- part 1: forwarding of every argument
        sent = [object() for _ in params]
        for how in ('positional', 'keyword'):
            try:
                node = meth(rec, *sent) if how == 'positional' else meth(rec, **{p.name: s for p, s in zip(params, sent)})
            except Exception as e:
                bad.append({'expr': 'AbstractObject.%s called %s' % (name, how), 'got': 'err:' + type(e).__name__, 'want': 'a composed node'})
                continue
            if len(node[2]) != len(sent) or any(a is not s for a, s in zip(node[2], sent)):
                bad.append({'expr': 'x.%s(%s) [%s]' % (name, ', '.join(p.name for p in params), how),
                            'got': 'operands forwarded: %d of %d, in order: %s' % (len(node[2]), len(sent), [a is s for a, s in zip(node[2], sent)]),
                            'want': 'every argument forwarded to the operator node, in order'})
        # defaults: omitted optional arguments must compose with their default VALUES
        req = [object() for p in params if p.default is inspect.Parameter.empty]
        try:
            node = meth(rec, *req)
            dflt = [p.default for p in params if p.default is not inspect.Parameter.empty]
            if list(node[2][len(req):]) != dflt and len(node[2]) != len(req):
                bad.append({'expr': 'x.%s(...) with defaults' % name, 'got': repr(node[2][len(req):]), 'want': repr(dflt)})
        except Exception:
            pass
        selector = meth(rec, *sent)[1]
        expect = ALIAS.get(name, getattr(bi, name, None))
        if expect is None or selector is not expect:
            bad.append({'expr': 'x.%s(...)' % name, 'got': 'composes %s' % getattr(selector, '__qualname__', selector),
                        'want': 'the kernel of the same name (%s)' % getattr(expect, '__qualname__', expect)})
        # ---- part 2: end to end on patterns
        choices = [[NUM.get(p.name, 2.0)] if p.name != 'clip' else CLIPS for p in params]
        combos = [[]]
        for ch in choices:
            combos = [c + [v] for c in combos for v in ch]
        for args in combos[:8]:
            want = scal(selector, [[x] + args for x in XS])
            p = Pseq(XS)
            forms = [('Pseq(xs).%s%r' % (name, tuple(args)), lambda: meth(p, *args), want),
                     ('Pn(Pseq(xs).%s%r, 2)' % (name, tuple(args)), lambda: Pn(meth(p, *args), 2),
                      want if isinstance(want, str) else want * 2)]
            if args:
                # every argument position as a PATTERN (shortest operand ends; constants elsewhere)
                for i in range(len(args)):
                    if isinstance(args[i], (int, float)):
                        vals = [args[i], args[i] + 1, args[i]]
                        pa = list(args)
                        pa[i] = Pseq(vals)
                        rows = [[x] + args[:i] + [v] + args[i + 1:] for x, v in zip(XS, vals)]
                        forms.append(('Pseq(xs).%s(arg %d = Pseq(%r))' % (name, i, vals), (lambda pa=pa: meth(p, *pa)), scal(selector, rows)))
            bf = getattr(bi, name, None)
            if bf is not None and bf is selector:
                forms.append(('bi.%s(Pseq(xs), %r)' % (name, tuple(args)), lambda: bf(p, *args), want))
            for label, build, w in forms:
                try:
                    got = run(build())
                except Exception as e:
                    got = 'err:' + type(e).__name__
                if not same(got, w):
                    bad.append({'expr': label.replace('xs', repr(XS)), 'got': repr(got), 'want': repr(w)})
    # the Python operator methods (forward and reflected spellings)
    for dn, op in DUNDER.items():
        if op is None:
            op = bi.mod
        m = getattr(aob.AbstractObject, dn)
        arity = len(inspect.signature(m).parameters) - 1
        s = object()
        node = m(rec, *([s] * arity))
        if node[1] is not op or (arity and node[2][0] is not s) or node[0] not in ('un', 'bin'):
            bad.append({'expr': 'AbstractObject.%s' % dn, 'got': repr(node[:2]), 'want': 'compose %r on (self, other)' % op})
        rn = '__r' + dn[2:]
        if arity and hasattr(aob.AbstractObject, rn) and dn not in ('__lt__', '__le__', '__eq__', '__ne__', '__gt__', '__ge__'):
            node = getattr(aob.AbstractObject, rn)(rec, s)
            if node[0] != 'rbin' or node[1] is not op or node[2][0] is not s:
                bad.append({'expr': 'AbstractObject.%s' % rn, 'got': repr(node[:2]), 'want': 'REFLECTED composition of %r' % op})
        nmeth += 1
    json.dump({'bad': bad[:12], 'methods': nmeth}, open(sys.argv[2], 'w'))


main()
