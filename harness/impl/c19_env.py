"""Run the REAL sc3.synth.envelope.Env on exact inputs; print canonical exact outputs.

Input : {'cases': [case, ...]}; a case is
  {'k': 'fmt',  'env': ENV}                        -> _envgen_format() and _interpolation_format()
  {'k': 'ctor', 'name': str, 'args': {...}}        -> same two formats + offset of Env.<name>(**args)
  {'k': 'at',   'env': ENV | 'ctor': ..., 'ts': [frac, ...]}  -> Env._at(t) for each t
ENV = {'levels': [NUM]|null, 'times': null|NUM|[NUM], 'curves': CURVE|[CURVE], 'rel': int|null,
       'loop': int|null, 'offset': NUM|null ('absent' = do not pass)}
NUM = ['I', 'int'] | ['F', 'p/q'];  CURVE = ['N', name] | NUM
Output numbers: [0, n, 1] int, [1, n, d] float (exact), errors: {'err': ExceptionName}.
"""
import json, sys, os
from fractions import Fraction
import sc3
sc3.init(os.environ.get('SC3_MODE', 'nrt'))
from sc3.synth.envelope import Env
import sc3.base.builtins as bi


def num(a):
    if a is None:
        return None
    return int(a[1]) if a[0] == 'I' else float(Fraction(a[1]))


def curve(c):
    return c[1] if c[0] == 'N' else num(c)


def curves(c):
    if isinstance(c, list) and (len(c) == 0 or isinstance(c[0], list)):
        return [curve(x) for x in c]
    return curve(c)


def nums(x):
    if x is None:
        return None
    if isinstance(x, list) and (len(x) == 0 or isinstance(x[0], list)):
        return [num(i) for i in x]
    return num(x)


def enc(r):
    if isinstance(r, bool):
        return [7, int(r), 1]
    if isinstance(r, int):
        return [0, str(r), '1']
    if isinstance(r, float):
        if r != r or r in (float('inf'), float('-inf')):
            return [3, str(r), '0']
        fr = Fraction(r)
        return [1, str(fr.numerator), str(fr.denominator)]
    return [4, repr(r), '0']


def env_args(spec):
    kw = {}
    if spec.get('offset', 'absent') != 'absent':
        kw['offset'] = num(spec['offset'])
    return [nums(spec['levels']), nums(spec['times']), curves(spec['curves']), spec['rel'], spec['loop']], kw


def ctor_args(args):
    a = {}
    for k, v in args.items():
        if k in ('curve', 'curves'):
            a[k] = None if v is None else curves(v)
        elif k in ('release_level', 'loop_level'):
            a[k] = v
        elif k == 'xyc':
            a[k] = [[num(p[0]), num(p[1]), curve(p[2])] for p in v]
        elif k == 'pairs':
            a[k] = [[num(p[0]), num(p[1])] for p in v]
        else:
            a[k] = nums(v)
    return [], a


def call_spec(c):
    """(callable, positional args, keyword args) of a case"""
    if 'name' in c:
        pos, kw = ctor_args(c['args'])
        return getattr(Env, c['name']), pos, kw
    pos, kw = env_args(c['env'])
    return Env, pos, kw


def typed(x):
    """exact, type-tagged rendering of a Python value (distinguishes 0, 0.0, -0.0, False)"""
    if isinstance(x, (list, tuple)):
        return [typed(i) for i in x]
    return [type(x).__name__, repr(x)]


def encattr(x):
    if x is None:
        return None
    if isinstance(x, str):
        return ['N', x]
    if isinstance(x, (list, tuple)):
        return [encattr(i) for i in x]
    if isinstance(x, bool):
        return ['B', str(x)]
    if isinstance(x, int):
        return ['I', str(x)]
    if isinstance(x, float) and x == x and x not in (float('inf'), float('-inf')):
        return ['F', str(Fraction(x))]
    return ['X', repr(x)]


def one_channel(fmt):
    if not (isinstance(fmt, list) and len(fmt) == 1 and isinstance(fmt[0], tuple)):
        raise AssertionError('multichannel')
    return [enc(x) for x in fmt[0]]


def guarded(f):
    try:
        return f()
    except (ValueError, ZeroDivisionError, TypeError, IndexError, KeyError, AssertionError) as e:
        return {'err': type(e).__name__}
    except Exception as e:
        return {'err': 'Other:' + type(e).__name__}


def ugen_sites(e):
    """what EnvGen / IEnvGen / a node argument receive from the SAME Env object"""
    from sc3.synth.ugens.envgen import EnvGen, IEnvGen
    from sc3.synth.synthdef import SynthDef
    cap = {}

    def graph():
        u = EnvGen.kr(e)
        cap['ugen_in'] = [enc(x) for x in u.inputs[5:]]
        v = IEnvGen.kr(e, 0)
        cap['iugen_in'] = [enc(x) for x in v.inputs[1:]]
        u2 = EnvGen.ar(e)                       # the same Env in a second EnvGen
        cap['ugen_in2'] = [enc(x) for x in u2.inputs[5:]]
    SynthDef('c19', graph)
    ctl = e._as_control_input()
    cap['ctl'] = [enc(x) for x in (ctl if isinstance(ctl, (list, tuple)) else [ctl])]
    return cap


def snapshot(e, ts):
    return {'attrs': {'levels': encattr(e.levels), 'times': encattr(e.times), 'curves': encattr(e.curves),
                      'rel': e.release_node, 'loop': e.loop_node, 'offset': encattr(e.offset)},
            'env': guarded(lambda: one_channel(e._envgen_format())),
            'ienv': guarded(lambda: one_channel(e._interpolation_format())),
            'at': [guarded(lambda: enc(e._at(float(Fraction(t))))) for t in ts]}


def fresh_snapshot(e, ts):
    """a NEW Env built from e's current attributes: what e must encode / evaluate to"""
    f = guarded(lambda: Env(e.levels, e.times, e.curves, e.release_node, e.loop_node, e.offset))
    if isinstance(f, dict):
        return {'ctor': f}
    s = snapshot(f, ts)
    del s['attrs']
    return s


def run_hist(c):
    """one Env object through a history of reads and modifications; after every step its current
    attributes and what it encodes / evaluates to"""
    import copy
    f, pos, kw = call_spec(c)
    e = guarded(lambda: f(*pos, **kw))
    if isinstance(e, dict):
        return {'ctor': e}
    steps = [snapshot(e, c['ts'])]
    original = None
    for op in c['ops']:
        try:
            if op[0] == 'set':
                val = op[2] if op[1] in ('release_node', 'loop_node') else \
                    (curves(op[2]) if op[1] == 'curves' else nums(op[2]))
                setattr(e, op[1], val)
            elif op[0] == 'duration':
                e.duration = num(op[1])
            elif op[0] in ('range', 'exprange', 'curverange'):
                before = snapshot(e, c['ts'])
                r = getattr(e, op[0])(*[num(x) for x in op[1:]])
                after = snapshot(e, c['ts'])
                steps.append({'unchanged_original': before == after})
                e = r
            elif op[0] == 'copy':
                e = copy.copy(e) if op[1] == 'copy' else copy.deepcopy(e)
            elif op[0] == 'read':
                pass
            st = snapshot(e, c['ts'])
            st['fresh'] = fresh_snapshot(e, c['ts'])
            st['op'] = op
            steps.append(st)
        except Exception as ex:
            steps.append({'err': type(ex).__name__})
            break
    return {'steps': steps}


def run_mc(c):
    """multichannel: items may be ['L', [...]] lists"""
    def item(a, f):
        return [f(x) for x in a[1]] if a[0] == 'L' else f(a)
    sp = c['env']
    def mk():
        kw = {} if sp.get('offset', 'absent') == 'absent' else {'offset': num(sp['offset'])}
        return Env([item(a, num) for a in sp['levels']], [item(a, num) for a in sp['times']],
                   [item(a, curve) for a in sp['curves']], sp['rel'], sp['loop'], **kw)
    e = guarded(mk)
    if isinstance(e, dict):
        return {'chans': e, 'at': [e for _ in c['ts']]}
    def chans():
        fmt = e._envgen_format()
        if not (isinstance(fmt, list) and all(isinstance(ch, tuple) for ch in fmt)):
            raise AssertionError('shape')
        return [[enc(x) for x in ch] for ch in fmt]
    def at(t):
        v = e._at(float(Fraction(t)))
        return [enc(x) for x in (v if isinstance(v, list) else [v])]
    return {'chans': guarded(chans), 'at': [guarded(lambda: at(t)) for t in c['ts']]}


def run(c):
    import copy
    if c['k'] == 'mc':
        return run_mc(c)
    if c['k'] == 'hist':
        return run_hist(c)
    if c['k'] == 'raw':
        f = getattr(Env, c['name']) if c.get('name') else Env
        e = guarded(lambda: f(*c.get('pos', []), **c.get('kw', {})))
        if isinstance(e, dict):
            return {'env': e, 'ienv': e}
        def chan(fmt):
            if not (isinstance(fmt, list) and len(fmt) == 1):
                raise AssertionError('multichannel')
            return typed(fmt[0])
        return {'env': guarded(lambda: chan(e._envgen_format())), 'ienv': guarded(lambda: chan(e._interpolation_format()))}
    f, pos, kw = call_spec(c)
    keep = copy.deepcopy((pos, kw))
    if c['k'] in ('fmt', 'ctor'):
        e = guarded(lambda: f(*pos, **kw))
        unchanged = typed_args(keep) == typed_args((pos, kw))
        if isinstance(e, dict):
            return {'env': e, 'ctor': e, 'args_unchanged': unchanged}
        out = {'env': guarded(lambda: one_channel(e._envgen_format())),
               'ienv': guarded(lambda: one_channel(e._interpolation_format())),
               'repeat': guarded(lambda: one_channel(e._envgen_format())),   # memoised second call
               'offset': guarded(lambda: enc(e.offset)),
               'args_unchanged': unchanged}
        # the same argument objects used a second time
        e2 = guarded(lambda: f(*pos, **kw))
        out['again'] = e2 if isinstance(e2, dict) else guarded(lambda: one_channel(e2._envgen_format()))
        if c.get('sites') and not isinstance(out['env'], dict):
            out['sites'] = guarded(lambda: ugen_sites(e))
        return out
    if c['k'] == 'at':
        e = guarded(lambda: f(*pos, **kw))
        if isinstance(e, dict):
            return {'at': [e for _ in c['ts']]}
        return {'at': [guarded(lambda: enc(e._at(float(Fraction(t))))) for t in c['ts']]}
    return {'err': 'bad case'}


def typed_args(a):
    if isinstance(a, dict):
        return {k: typed_args(v) for k, v in a.items()}
    if isinstance(a, (list, tuple)):
        return [typed_args(i) for i in a]
    return [type(a).__name__, repr(a)]


def main():
    cases = json.load(open(sys.argv[1]))['cases']
    json.dump({'out': [run(c) for c in cases], 'eps': enc(bi.dbamp(-100))}, open(sys.argv[2], 'w'))


main()
