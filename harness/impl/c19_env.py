"""Run the REAL sc3.synth.envelope.Env on exact inputs; print canonical exact outputs.

Input : {'cases': [case, ...]}; a case is
  {'k': 'fmt',  'env': ENV}                        -> _envgen_format() and _interpolation_format()
  {'k': 'ctor', 'name': str, 'args': {...}}        -> same two formats + offset of Env.<name>(**args)
  {'k': 'at',   'env': ENV | 'ctor': ..., 'ts': [frac, ...]}  -> Env._at(t) for each t
ENV = {'levels': [NUM]|null, 'times': null|NUM|[NUM], 'curves': CURVE|[CURVE], 'rel': int|null,
       'loop': int|null, 'offset': NUM|null ('absent' = do not pass)}
NUM = ['I', 'int'] | ['F', 'p/q'];  CURVE = ['N', name] | NUM
Output numbers: [0, n, 1] int, [1, n, d] float (exact), errors: {'err': ExceptionName}.
"""
import json, sys, os
from fractions import Fraction
import sc3
sc3.init(os.environ.get('SC3_MODE', 'nrt'))
from sc3.synth.envelope import Env
import sc3.base.builtins as bi


def num(a):
    if a is None:
        return None
    return int(a[1]) if a[0] == 'I' else float(Fraction(a[1]))


def curve(c):
    return c[1] if c[0] == 'N' else num(c)


def curves(c):
    if isinstance(c, list) and (len(c) == 0 or isinstance(c[0], list)):
        return [curve(x) for x in c]
    return curve(c)


def nums(x):
    if x is None:
        return None
    if isinstance(x, list) and (len(x) == 0 or isinstance(x[0], list)):
        return [num(i) for i in x]
    return num(x)


def enc(r):
    if isinstance(r, bool):
        return [7, int(r), 1]
    if isinstance(r, int):
        return [0, str(r), '1']
    if isinstance(r, float):
        if r != r or r in (float('inf'), float('-inf')):
            return [3, str(r), '0']
        fr = Fraction(r)
        return [1, str(fr.numerator), str(fr.denominator)]
    return [4, repr(r), '0']


def build_env(spec):
    kw = {}
    if spec.get('offset', 'absent') != 'absent':
        kw['offset'] = num(spec['offset'])
    return Env(nums(spec['levels']), nums(spec['times']), curves(spec['curves']),
               spec['rel'], spec['loop'], **kw)


def build_ctor(name, args):
    a = {}
    for k, v in args.items():
        if k in ('curve', 'curves'):
            a[k] = None if v is None else curves(v)
        elif k in ('release_level', 'loop_level'):
            a[k] = v
        elif k == 'xyc':
            a[k] = [[num(p[0]), num(p[1]), curve(p[2])] for p in v]
        elif k == 'pairs':
            a[k] = [[num(p[0]), num(p[1])] for p in v]
        else:
            a[k] = nums(v)
    return getattr(Env, name)(**a)


def one_channel(fmt):
    if not (isinstance(fmt, list) and len(fmt) == 1 and isinstance(fmt[0], tuple)):
        raise AssertionError('multichannel')
    return [enc(x) for x in fmt[0]]


def guarded(f):
    try:
        return f()
    except (ValueError, ZeroDivisionError, TypeError, IndexError, KeyError, AssertionError) as e:
        return {'err': type(e).__name__}
    except Exception as e:
        return {'err': 'Other:' + type(e).__name__}


def run(c):
    def mk():
        return build_ctor(c['name'], c['args']) if 'name' in c else build_env(c['env'])
    if c['k'] in ('fmt', 'ctor'):
        e = guarded(mk)
        if isinstance(e, dict):
            return {'env': e, 'ctor': e}
        return {'env': guarded(lambda: one_channel(e._envgen_format())),
                'ienv': guarded(lambda: one_channel(e._interpolation_format())),
                'repeat': guarded(lambda: one_channel(e._envgen_format())),   # memoised second call
                'offset': guarded(lambda: enc(e.offset))}
    if c['k'] == 'at':
        e = guarded(mk)
        if isinstance(e, dict):
            return {'at': [e for _ in c['ts']]}
        return {'at': [guarded(lambda: enc(e._at(float(Fraction(t))))) for t in c['ts']]}
    return {'err': 'bad case'}


def main():
    cases = json.load(open(sys.argv[1]))['cases']
    json.dump({'out': [run(c) for c in cases], 'eps': enc(bi.dbamp(-100))}, open(sys.argv[2], 'w'))


main()
