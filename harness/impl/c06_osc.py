"""C06: run the REAL sc3 OSC encoder / parser / size predictions on generated cases.

payload: {'cases': [case...]}; a case is
  {'kind': 'msg'|'bundle', 'v': <tree>, 'send_time': float, 'itf': 'nrt'|'base',
   'clump': [size...] (optional, bundle cases), 'sync': bool}
or {'kind': 'parse', 'dgram': hex}
or {'kind': 'strpad4', 'n': [ints]}
Tree encoding (JSON): null, true/false, {'i': '123'}, {'f': float.hex()}, {'s': str},
{'y': hex}, {'z': n} (n zero bytes), {'o': kind} (unsupported object), [..] list.

Every result is canonical: exceptions are mapped to the model's enum
(1 ValueError family, 2 OscBuildError family, 3 OscParseError family, 4 anything else,
5 did not return within the time limit)."""
import json, os, signal, struct, sys
from fractions import Fraction

import sc3
INIT_ERROR = None
try:
    sc3.init(os.environ.get('SC3_MODE', 'nrt'))
except BaseException as e:      # a broken encoder can make the library fail to start: keep going
    INIT_ERROR = '%s: %s' % (type(e).__name__, e)
from sc3.base.main import main
from sc3.base import _osclib as oli, _oscinterface as osci, clock as clk, netaddr as nad


class _Base(osci.OscInterface):
    """The RT variant of _get_timetag/_build_* (base class), without a socket."""
    def _send(self, msg, target):
        pass


BASE_OFFSET = 3913056000 << 32
BASE_ITF = _Base()
NRT_ITF = getattr(main, '_osc_interface', None) if INIT_ERROR is None else None
if NRT_ITF is None:
    NRT_ITF = BASE_ITF
ADDR = nad.NetAddr.__new__(nad.NetAddr)      # the size methods use no instance state


class Hang(Exception):
    pass


def _alarm(*a):
    raise Hang()


signal.signal(signal.SIGALRM, _alarm)


def limited(f, secs=2.0):
    signal.setitimer(signal.ITIMER_REAL, secs)
    try:
        return f()
    finally:
        signal.setitimer(signal.ITIMER_REAL, 0)


def make_mv(d):
    """{'fmt': struct format, 'hex': the underlying bytes, 'shape': [..] or None, 'step': n} -> memoryview
    (the same construction as harness/props/C06.py:mv_bytes, which gives the bytes it stands for)"""
    m = memoryview(bytes.fromhex(d['hex']))
    if d.get('shape'):
        m = m.cast(d['fmt'], shape=d['shape'])
    elif d['fmt'] != 'B':
        m = m.cast(d['fmt'])
    if d.get('step', 1) != 1:
        m = m[::d['step']]
    return m


def dec(t):
    if t is None or isinstance(t, bool):
        return t
    if isinstance(t, list):
        return [dec(x) for x in t]
    if 'i' in t:
        return int(t['i'])
    if 'f' in t:
        return float.fromhex(t['f'])
    if 's' in t:
        return t['s']
    if 'y' in t:
        return bytes.fromhex(t['y'])
    if 'z' in t:
        return bytes(t['z'])
    if 't' in t:                    # the sequence type of a list-shaped value: tuple instead of list
        return tuple(dec(x) for x in t['t'])
    if 'ya' in t:
        return bytearray(bytes.fromhex(t['ya']))
    if 'ym' in t:
        return memoryview(bytes.fromhex(t['ym']))
    if 'mv' in t:                   # a memoryview whose items may be wider than a byte, multi-dimensional or strided
        return make_mv(t['mv'])
    if 'o' in t:
        return {'dict': {'a': 1}, 'tuple3': (1, 2, 3), 'tuple0': (), 'complex': 1j, 'set': {1}, 'object': object(),
                'emptydict': {}, 'emptyset': set(), 'bytearray0': bytearray()}[t['o']]
    raise ValueError(t)


def err_code(e):
    if isinstance(e, Hang):
        return 5
    if isinstance(e, oli.OscBuildError):
        return 2
    if isinstance(e, oli.OscParseError):
        return 3
    if isinstance(e, ValueError):       # includes UnicodeEncodeError / UnicodeDecodeError
        return 1
    return 4


def canon_param(p):
    if p is True:
        return ['T']
    if p is False:
        return ['F']
    if isinstance(p, int):
        return ['i', str(p)]
    if isinstance(p, float):
        if p != p:
            return ['nan']
        try:
            w4 = struct.pack('>f', p).hex()
        except OverflowError:       # a double that is no binary32: cannot have come from an 'f' tag
            w4 = ''
        return ['f', w4, struct.pack('>d', p).hex()]
    if isinstance(p, str):
        return ['s', p.encode('utf-8', 'surrogatepass').hex()]
    if isinstance(p, (bytes, bytearray, memoryview)):
        return ['b', bytes(p).hex()]
    if isinstance(p, tuple):
        return ['m', bytes(p).hex()]
    if isinstance(p, list):
        return ['a', [canon_param(x) for x in p]]
    return ['?', repr(p)]


def canon_msg(m):
    return [m.address.encode('utf-8', 'surrogatepass').hex(), [canon_param(p) for p in m.params]]


def parse_packet(dgram):
    try:
        pk = limited(lambda: oli.OscPacket(dgram))
        return ['ok', [[None if tm.time is None else str(tm.time), canon_msg(tm.message)] for tm in pk.messages]]
    except UnicodeDecodeError as e:
        return ['unicode', type(e).__name__]
    except BaseException as e:
        return ['err', err_code(e), type(e).__name__]


def heads(itf, send_time, v, out, pos='elem'):
    """timetags the real _get_timetag gives for every list head that is a number or None
    (DFS preorder) -- the model takes them as given (C07 verifies their computation).
    Lists are traversed everywhere; tuples only where the code indexes them like lists (bundle
    elements), not where they are opaque message arguments -- the same rule as harness/props/C06.py."""
    if isinstance(v, list) or (isinstance(v, tuple) and pos == 'elem'):
        bundle_shaped = bool(v) and (v[0] is None or isinstance(v[0], (int, float)))
        if bundle_shaped:
            try:
                out.append(str(int(itf._get_timetag(send_time, v[0]))))
            except Exception as e:          # e.g. int(inf): the latency has no time tag at all
                out.append('raise:' + type(e).__name__)
        for k, x in enumerate(v):
            child = 'elem' if (bundle_shaped and k >= 1) else 'arg'
            if bundle_shaped and pos == 'arg' and k == 1 and isinstance(x, tuple):
                child = 'arg'           # _build_msg wants a list there: the tuple is opaque
            heads(itf, send_time, x, out, child)


def snapshot(v):
    """type- and sign-exact picture of a value tree (repr of a float keeps -0.0; list identity is not part of it)"""
    if isinstance(v, (list, tuple)):
        return [type(v).__name__] + [snapshot(x) for x in v]
    if isinstance(v, (bytes, bytearray, memoryview)):
        return [type(v).__name__, bytes(v).hex() if len(v) < 64 else (len(v), hash(bytes(v)))]
    if isinstance(v, (dict, set)) or type(v) is object:
        return [type(v).__name__]
    return [type(v).__name__, repr(v)]


def size_of(f):
    try:
        return int(f())
    except BaseException as e:
        return -err_code(e)


def run_build(c):
    itf = NRT_ITF if c.get('itf', 'nrt') == 'nrt' else BASE_ITF
    clk.SystemClock._elapsed_osc_offset = BASE_OFFSET if itf is BASE_ITF else 0.0
    v = dec(c['v'])
    st = float(c.get('send_time', 0.0))
    res = {}
    tags = []
    heads(itf, st, v, tags)
    res['tags'] = tags
    before = snapshot(v)
    dgram = None
    try:
        if c['kind'] == 'rawbundle':          # OscBundleBuilder with a given timetag (edges of the uint64 range)
            def raw():
                b = oli.OscBundleBuilder(int(c['tt']))
                for m in v[1:]:
                    b.add_content(itf._build_msg(st, m))
                return b.build()
            pk = limited(raw)
        else:
            pk = limited(lambda: itf._build_msg(st, v) if c['kind'] == 'msg' else itf._build_bundle(st, v))
        dgram = pk.dgram
        res['build'] = ['ok', dgram.hex(), len(dgram)]
        # the same list built a second time gives the same bytes (no state kept between builds)
        if c['kind'] != 'rawbundle' and len(dgram) < 5000:
            again = (itf._build_msg(st, v) if c['kind'] == 'msg' else itf._build_bundle(st, v)).dgram
            res['rebuild_same'] = again == dgram
    except BaseException as e:
        res['build'] = ['err', err_code(e), type(e).__name__]
    if dgram is not None and c.get('parse', True):
        res['parse'] = parse_packet(dgram)
    if c['kind'] == 'rawbundle':
        res['pred'] = 0
        res['mutated'] = snapshot(v) != before
        return res
    if c['kind'] == 'msg':
        res['pred'] = size_of(lambda: ADDR._calc_msg_dgram_size(v))
    else:
        res['pred'] = size_of(lambda: ADDR._calc_bndl_dgram_size(v[1:]))
        res['clumps'] = []
        for size in c.get('clump', []):
            try:
                els = v[1:]
                cl = ADDR._clump_bundle(els, size)
                flat = [e for k in cl for e in k]
                same = len(flat) == len(els) and all(a is b for a, b in zip(flat, els))
                real = []
                for k in cl:
                    item = list(k)
                    if c.get('sync', True):
                        item.append(['/sync', 1001])
                    try:
                        real.append(len(itf._build_bundle(st, [v[0], *item]).dgram))
                    except BaseException as e:
                        real.append(-err_code(e))
                res['clumps'].append({'size': size, 'lens': [len(k) for k in cl], 'partition': same, 'real': real})
            except BaseException as e:
                res['clumps'].append({'size': size, 'err': err_code(e), 'exc': type(e).__name__})
    res['mutated'] = snapshot(v) != before         # building / predicting / clumping must not touch the caller's lists
    return res



# ---------------------------------------------------------------------------
# use sites of the size functions: SynthDef.send/add/_do_send, NetAddr.send_clumped_bundles,
# NetAddr.sync(elements=...), BundleNetAddr.  The target address keeps its real methods; what is
# replaced is the transport: a logging interface whose _send records the datagram the real
# encoder produced (base-class send_msg/send_bundle = the real-time code path).

class _LogItf(osci.OscInterface):
    def __init__(self):
        super().__init__(None)
        self._proto = 'udp'
        self.sent = []

    def _send(self, msg, target):
        self.sent.append(bytes(msg.dgram))


def enc_tree(v):
    if v is None or isinstance(v, bool):
        return v
    if isinstance(v, int):
        return {'i': str(v)}
    if isinstance(v, float):
        return {'f': v.hex()}
    if isinstance(v, str):
        return {'s': v}
    if isinstance(v, (bytes, bytearray, memoryview)):
        b = bytes(v)
        return {'z': len(b)} if len(b) >= 24 and not any(b) else {'y': b.hex()}
    if isinstance(v, tuple):
        return {'t': [enc_tree(x) for x in v]}
    if isinstance(v, list):
        return [enc_tree(x) for x in v]
    return {'o': 'object'}


def make_addr(local=True):
    addr = nad.NetAddr('127.0.0.1' if local else '10.1.2.3', 57231)
    itf = _LogItf()
    addr._osc_interface = itf
    calls = []
    real_send_msg, real_send_bundle = addr.send_msg, addr.send_bundle

    def run(kind, args, f):
        n0 = len(itf.sent)
        rec = {'method': kind, 'args': enc_tree(list(args)), 'st': main.current_tt._seconds}
        calls.append(rec)
        tags = []
        heads(itf, main.current_tt._seconds, list(args), tags)
        rec['tags'] = tags
        if kind == 'send_msg':
            rec['pred'] = size_of(lambda: addr._calc_msg_dgram_size(list(args)))
        else:
            rec['pred'] = size_of(lambda: addr._calc_bndl_dgram_size(list(args[1:])))
        try:
            f()
            rec['dgrams'] = [d.hex() for d in itf.sent[n0:]]
        except BaseException as e:
            rec['error'] = [err_code(e), type(e).__name__]
            rec['dgrams'] = [d.hex() for d in itf.sent[n0:]]

    addr.send_msg = lambda *a: run('send_msg', a, lambda: real_send_msg(*a))
    addr.send_bundle = lambda t, *e: run('send_bundle', (t,) + e, lambda: real_send_bundle(t, *e))
    return addr, calls


_DEF = {}


def small_def():
    if 'sd' not in _DEF:
        from sc3.synth import synthdef as sdf
        from sc3.synth.ugens.oscillators import SinOsc
        from sc3.synth.ugens.inout import Out
        _DEF['sd'] = sdf.SynthDef('c06def', lambda freq=440: Out.ar(0, SinOsc.ar(freq) * 0.1))
        _DEF['real_bytes'] = bytes(_DEF['sd'].as_bytes())
    return _DEF['sd']


class _Cond:
    """stands for the Condition of NetAddr.sync: the reply never arrives here, the generator
    is simply resumed by the driver"""
    test = False

    def wait(self):
        yield 'wait'

    def signal(self):
        pass


def run_site(c):
    import logging
    logging.disable(logging.CRITICAL)
    clk.SystemClock._elapsed_osc_offset = BASE_OFFSET
    res = {}
    if c['kind'] == 'dsend':
        from sc3.synth import server as srv
        sd = small_def()
        if c.get('L') is None:
            sd._bytes = memoryview(bytearray(_DEF['real_bytes']))
        else:
            fill = c.get('fill', 0)
            sd._bytes = memoryview(bytearray((fill * (i + 1)) % 256 for i in range(c['L'])) if fill else bytearray(c['L']))
        res['def_bytes'] = enc_tree(bytes(sd._bytes))
        addr, calls = make_addr(c.get('local', True))
        if 'srv' not in _DEF:
            _DEF['srv'] = srv.Server('c06srv', addr)
        server = _DEF['srv']
        server._addr = addr
        comp = dec(c['comp']) if c.get('comp') is not None else None
        before = snapshot(comp)
        arg = (lambda s, comp=comp: comp) if c.get('comp_fn') else comp
        written = []
        real_write = sd._write_def_file
        sd._write_def_file = lambda *a, **k: written.append(str(a[0]))      # no file is written by the harness
        try:
            via = c.get('via', 'send')
            if via == '_do_send':
                sd._do_send(server, comp)
            elif via == 'add':
                from sc3.synth import synthdesc as sdc
                if 'lib' not in _DEF:
                    _DEF['lib'] = sdc.SynthDescLib('c06lib', [server])
                sd.add('c06lib', arg)
            else:
                sd.send(server, arg)
        except BaseException as e:
            res['error'] = [err_code(e), type(e).__name__, str(e)[:200]]
        finally:
            del sd._write_def_file
        res['calls'] = calls
        res['file_written'] = len(written)
        res['mutated'] = snapshot(comp) != before
    elif c['kind'] == 'nrt_route':
        # the non-real-time route: the far end of the interface is the score of this life.  A fresh score, the
        # real NRT interface, the address's own methods; what is handed over is logged, then the finished score
        # is read back (raw form, split here at its int32 size prefixes, and list form).
        import hashlib
        nrt = main._osc_interface
        if not isinstance(nrt, osci.OscNrtInterface):
            return {'skipped': 'no NRT interface in this process (%s)' % INIT_ERROR}
        in_routine = c.get('ctx') == 'routine'
        if in_routine:
            main.reset()            # a fresh life: time 0, empty scheduler, new score
        else:
            nrt._osc_score = osci.OscScore()
        score = nrt._osc_score
        addr = nad.NetAddr('127.0.0.1', 57232)
        handed = []
        real_msg, real_bndl = addr.send_msg, addr.send_bundle

        def elem_sha(e):
            st = main.current_tt._seconds
            d = (nrt._build_msg(st, list(e)) if isinstance(e[0], str) else nrt._build_bundle(st, list(e))).dgram
            return hashlib.sha1(d).hexdigest()[:16]

        def where():
            return {'st': main.current_tt._seconds, 'routine': main.current_tt is not main.main_tt}

        def log_msg(*a):
            handed.append(dict(where(), method='send_msg', n=1, elems=[elem_sha(a)]))
            real_msg(*a)

        def log_bndl(t, *e):
            handed.append(dict(where(), method='send_bundle', time=enc_tree(t), n=len(e), elems=[elem_sha(x) for x in e]))
            real_bndl(t, *e)
        addr.send_msg, addr.send_bundle = log_msg, log_bndl

        def do(op):
            if op[0] == 'clumped':
                addr.send_clumped_bundles(dec(op[1]), *dec(op[2]))
            elif op[0] == 'bundle':
                addr.send_bundle(dec(op[1]), *dec(op[2]))
            elif op[0] == 'msg':
                addr.send_msg(*dec(op[1]))
            elif op[0] == 'ctx':
                with nad.BundleNetAddr(addr) as b:
                    for e in dec(op[1]):
                        b.send_msg(*e)
        try:
            if in_routine:
                # the sender is a routine played on the clock: its logical time advances with ['wait', dt]
                from sc3.base import stream as stm
                failed = []

                def body():
                    try:
                        for op in c['ops']:
                            if op[0] == 'wait':
                                yield float(op[1])
                            else:
                                do(op)
                    except BaseException as e:
                        failed.append(e)
                stm.Routine(body).play()
                main.process()              # runs the scheduler and finishes the score of this life
                if failed:
                    raise failed[0]
            else:
                for op in c['ops']:
                    do(op)
                score.finish()
            raw = bytes(score.raw)
            entries, i = [], 0
            while i < len(raw):
                n = int.from_bytes(raw[i:i + 4], 'big')
                b = raw[i + 4:i + 4 + n]
                i += 4 + n
                tt = int.from_bytes(b[8:16], 'big')
                els, j = [], 16
                while j < len(b):
                    m = int.from_bytes(b[j:j + 4], 'big', signed=True)
                    els.append(hashlib.sha1(b[j + 4:j + 4 + m]).hexdigest()[:16])
                    j += 4 + m
                entries.append([str(tt), els, b[:8] == b'#bundle\x00' and j == len(b)])
            res['entries'] = entries
            res['list_entries'] = [len(x) - 1 for x in score.list]
            res['marker_shas'] = [elem_sha(['/g_new', 1, 0, 0]), elem_sha(['/c_set', 0, 0])]
        except BaseException as e:
            res['error'] = [err_code(e), type(e).__name__, str(e)[:200]]
        finally:
            if in_routine:
                main.reset()
            else:
                nrt._osc_score = osci.OscScore()
        res['handed'] = handed
    elif c['kind'] == 'sendmsg':
        addr, calls = make_addr(True)
        msg = dec(c['v'])
        before = snapshot(msg)
        try:
            addr.send_msg(*msg)
        except BaseException as e:
            res['error'] = [err_code(e), type(e).__name__, str(e)[:200]]
        res['calls'] = calls
        res['mutated'] = snapshot(msg) != before
    elif c['kind'] in ('clumped', 'sync'):
        addr, calls = make_addr(True)
        els = dec(c['els'])
        t = dec(c['time'])
        before = snapshot(els)
        try:
            via = c.get('via', 'direct')
            if c['kind'] == 'clumped':
                if via == 'direct':
                    addr.send_clumped_bundles(t, *els)
                elif via in ('ctx_server', 'ctx_raise', 'ctx_raise_base'):
                    # Server.bind(): the context swaps server.addr and must restore it on every exit path
                    from sc3.synth import server as srv
                    if 'srv' not in _DEF:
                        _DEF['srv'] = srv.Server('c06srv', addr)
                    server = _DEF['srv']
                    server._addr = addr
                    server.latency = t
                    class _Stop(BaseException):
                        pass
                    try:
                        with server.bind() as b:
                            res['addr_swapped'] = server.addr is b
                            for e in els:
                                server.addr.send_msg(*e)
                            res['calls_in_ctx'] = len(calls)
                            if via == 'ctx_raise':
                                raise RuntimeError('inside bind')
                            if via == 'ctx_raise_base':
                                raise _Stop()
                    except (RuntimeError, _Stop):
                        res['raised'] = True
                    res['addr_restored'] = server.addr is addr
                    server.addr.send_msg('/after', 0)          # the next, unrelated operation goes out directly
                else:                                   # the BundleNetAddr context manager
                    with nad.BundleNetAddr(addr) as b:
                        for e in els:
                            if isinstance(e[0], str):
                                b.send_msg(*e)
                            else:
                                b.send_bundle(None, e)
            else:
                if via == 'direct':
                    g = addr.sync(_Cond(), t, els)
                else:
                    b = nad.BundleNetAddr(addr)
                    g = b.sync(None, t, els)
                    addr_sync = addr.sync
                    addr.sync = lambda cond=None, latency=None, elements=None: addr_sync(_Cond(), latency, elements)
                for _ in range(100000):
                    try:
                        next(g)
                    except StopIteration:
                        break
        except BaseException as e:
            res['error'] = [err_code(e), type(e).__name__, str(e)[:200]]
        res['calls'] = calls
        res['mutated'] = snapshot(els) != before
    logging.disable(logging.NOTSET)
    return res

def main_():
    import resource, time
    try:        # a broken builder that keeps state can grow without bound: fail the case, not the machine
        resource.setrlimit(resource.RLIMIT_AS, (6 << 30, 6 << 30))
    except (ValueError, OSError):
        pass
    deadline = time.time() + float(os.environ.get('C06_IMPL_DEADLINE', '420'))
    payload = json.load(open(sys.argv[1]))
    out = []
    for c in payload['cases']:
        if time.time() > deadline:
            out.append({'crash': 'runner deadline exceeded before this case (the implementation became pathologically slow)'})
            continue
        try:
            if c['kind'] == 'parse':
                out.append({'parse': parse_packet(bytes.fromhex(c['dgram']))})
            elif c['kind'] in ('dsend', 'clumped', 'sync', 'sendmsg', 'nrt_route'):
                out.append(run_site(c))
            elif c['kind'] == 'strpad4':
                out.append({'vals': [int(nad.NetAddr._strpad4(n)) for n in c['n']],
                            'enc': [len(oli.write_string('a' * n)) if n <= 300 else None for n in c['n']]})
            elif c.get('ctx') == 'routine':
                # the sending context: called from inside a routine (main.current_tt is the routine, not the main
                # thread) -- the NRT interface then counts latencies from the routine's logical time
                from sc3.base import stream as stm
                box = []
                stm.Routine(lambda: box.append(run_build(c))).next()
                out.append(box[0] if box else {'crash': 'the routine did not run the case'})
            else:
                out.append(run_build(c))
        except BaseException as e:     # never let one case kill the run
            out.append({'crash': '%s: %s' % (type(e).__name__, e)})
    json.dump({'out': out, 'init_error': INIT_ERROR}, open(sys.argv[2], 'w'))


main_()
