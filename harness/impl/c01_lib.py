"""Shared by the C01 / C20 implementation runners: the UGen catalogue, the compiler from
a `prog` (straight-line list of constructor calls, JSON) to a real Python graph function,
and the canonical description of a built SynthDef.

prog = {"ir": [default, ...], "kr": [default, ...], "ins": [instr, ...], "mce": [[start, count], ...]}
"irshape" / "krshape": [size, ...] partition the ir / kr control slots into PARAMETERS of the graph function: size 1 = a
scalar default, size n > 1 = an array-valued default (a tuple) whose proxies arrive as a list; ["p", "kr", j] is
still slot j of the kr controls (for the model nothing changes: the source expression of a control input is a slot).
"blocks": [[start, count, {"form", "rows", "result"}], ...]: the `count` instructions from `start` are what ONE call of
a sum helper does (ChannelList(rows).sum() / Mix.new(rows), rows flat or nested, plain lists or ChannelLists); only
the instructions named in "result" have a value the rest of the program can use.
"mce": the `count` consecutive instructions from `start` (same kind, same operator / class / rate) are written as
ONE multichannel call in the Python graph function (list arguments where the channels differ); for the model
and the evaluators the program is still the per-channel instruction sequence (multichannel expansion must be
equivalent to the per-channel calls, in order).
arg   = ["c", "p/q"] | ["c", "p/q", "i"] (the same number written as a Python int) | ["c", "0", "z"] (-0.0)
      | ["v", i, k] (channel k of the value of instruction i) | ["p", "ir"|"kr", j]
instr = ["U", name, rate, [arg...]] | ["un", pyname, a] | ["bin", pyname, a, b]
      | ["un", pyname, a, "func"] | ["bin", pyname, a, b, "func"]   (function-call form sc3.base.builtins.f(a[, b]),
        the unit generator on either side; without the tag: infix / reflected infix where Python has syntax, else method)
      | ["madd", a, b, c] | ["sum", [arg...]] | ["sum3", a, b, c] | ["sum4", a, b, c, d]
      | ["out", rate, bus, [arg...]] | ["raise", "exc"|"base"]
"""
import importlib
from fractions import Fraction


class GraphFuncError(Exception):
    pass


class GraphFuncBase(BaseException):
    pass


class Unsupported(Exception):
    """The program is outside the modelled fragment (generator bug if it happens)."""


# name -> (module, class, {rate: method}, ctor(args)->call args, arity)
# 'call' receives the python values of the args and returns the positional arguments.
CATALOGUE = {
    # name:      module,         class,       rates,                          arity, call
    'SinOsc':    ('oscillators', 'SinOsc',    ('audio', 'control'),             2, None),
    'Impulse':   ('oscillators', 'Impulse',   ('audio', 'control'),             2, None),
    'Saw':       ('foscillators', 'Saw',      ('audio', 'control'),             1, None),
    'WhiteNoise': ('noise', 'WhiteNoise',     ('audio', 'control'),             0, None),
    'LFNoise0':  ('noise', 'LFNoise0',        ('audio', 'control'),             1, None),
    'Line':      ('line', 'Line',             ('audio', 'control'),             4, None),
    'LPF':       ('filter', 'LPF',            ('audio', 'control'),             2, None),
    'K2A':       ('line', 'K2A',              ('audio',),                       1, None),
    'DC':        ('line', 'DC',               ('audio', 'control'),             1, None),
    'In1':       ('inout', 'In',              ('audio', 'control'),             1, lambda a: (a[0], 1)),
    'In2':       ('inout', 'In',              ('audio', 'control'),             1, lambda a: (a[0], 2)),
    'Pan2':      ('pan', 'Pan2',              ('audio', 'control'),             3, None),
    'SampleRate': ('infougens', 'SampleRate', ('scalar',),                      0, None),
    'Rand':      ('noise', 'Rand',            ('scalar',),                      2, None),
    'RandSeed':  ('noise', 'RandSeed',        ('audio', 'control', 'scalar'),   2, None),
    'FFT':       ('fft', 'FFT',               ('control',),                     2, None),
    'IFFT':      ('fft', 'IFFT',              ('audio', 'control'),             1, None),
    'Dseries':   ('demand', 'Dseries',        ('demand',),                      3, None),
    'Duty':      ('demand', 'Duty',           ('audio', 'control'),             3, None),
    'Demand1':   ('demand', 'Demand',         ('audio', 'control'),             3, lambda a: (a[0], a[1], [a[2]])),
}
# facts the Coq catalogue (coq/model/Graph.v, `catalogue`) assumes about each class;
# checked against the real classes by check_catalogue().
#            pure   wf     isugen multi
FACTS = {
    'SinOsc': (True, False, True, False), 'Impulse': (True, False, True, False),
    'Saw': (False, False, True, False), 'WhiteNoise': (False, False, True, False),
    'LFNoise0': (False, False, True, False), 'Line': (False, False, True, False),
    'LPF': (True, False, True, False), 'K2A': (True, False, True, False),
    'DC': (True, False, True, True), 'In1': (False, False, True, True), 'In2': (False, False, True, True),
    'Pan2': (False, False, True, True), 'SampleRate': (False, False, True, False),
    'Rand': (False, False, True, False), 'RandSeed': (False, True, False, False),
    'FFT': (False, True, False, False), 'IFFT': (False, True, True, False),
    'Dseries': (False, False, True, False), 'Duty': (False, False, True, False),
    'Demand1': (False, False, True, True),
}
METHOD = {'audio': 'ar', 'control': 'kr', 'scalar': 'ir', 'demand': 'dr'}

# python selector name -> how to apply it.  Infix for the ones Python has syntax for.
import operator as _op
INFIX = {'add': _op.add, 'sub': _op.sub, 'mul': _op.mul, 'truediv': _op.truediv,
         'floordiv': _op.floordiv, 'mod': _op.mod, 'pow': _op.pow,
         'lt': _op.lt, 'gt': _op.gt, 'le': _op.le, 'ge': _op.ge}
UN_INFIX = {'neg': _op.neg, 'abs': abs}


def _cls(name):
    mod, cname = CATALOGUE[name][0], CATALOGUE[name][1]
    return getattr(importlib.import_module('sc3.synth.ugens.' + mod), cname)


def check_catalogue():
    """Return the list of catalogue facts that are wrong about the real classes."""
    import sc3.synth.ugen as ugn
    bad = []
    for name, (pure, wf, isugen, multi) in FACTS.items():
        c = _cls(name)
        got = (issubclass(c, ugn.PureUGenMixin), issubclass(c, ugn.WidthFirstUGen),
               issubclass(c, ugn.UGen), issubclass(c, ugn.MultiOutUGen))
        if got != (pure, wf, isugen, multi):
            bad.append([name, list(got)])
    for c, pure in ((ugn.UnaryOpUGen, True), (ugn.BinaryOpUGen, True), (ugn.MulAdd, False),
                    (ugn.Sum3, False), (ugn.Sum4, False)):
        # "pure" here = _optimize_graph performs dead code elimination
        has = c._optimize_graph is not ugn.SynthObject._optimize_graph
        if has != pure:
            bad.append([c.__name__, has])
    return bad


def is_num(x):
    return isinstance(x, (int, float)) and not isinstance(x, bool)


def mce_call(group, arg):
    """One multichannel call for a group of same-kind instructions; returns the list of channel values."""
    import sc3.synth.ugen as ugn
    n = len(group)
    k = group[0][0]
    if any(g[0] != k for g in group):
        raise Unsupported('mce group of different kinds')

    def col(j):
        """argument j of every channel: the common value, or a list when the channels differ"""
        js = [g[j] for g in group]
        if all(x == js[0] for x in js):
            return arg(js[0]), False
        return [arg(x) for x in js], True

    if k == 'madd':
        (a, la), (b, lb), (c, lc) = col(1), col(2), col(3)
        if not (la or lb or lc):
            raise Unsupported('mce group without differing arguments')
        if la and not isinstance(a[0], (int, float)):
            r = ugn.ChannelList(a).madd(b, c)
        elif not la and not isinstance(a, (int, float)):
            r = a.madd(b, c)
        else:
            r = ugn.MulAdd.new(a, b, c)
    elif k in ('sum3', 'sum4'):
        cols = [col(j) for j in range(1, len(group[0]))]
        if not any(l for _, l in cols):
            raise Unsupported('mce group without differing arguments')
        r = (ugn.Sum3 if k == 'sum3' else ugn.Sum4).new(*[v for v, _ in cols])
    elif k == 'bin':
        name = group[0][1]
        if any(g[1] != name for g in group):
            raise Unsupported('mce group of different operators')
        (a, la), (b, lb) = col(2), col(3)
        if not (la or lb):
            raise Unsupported('mce group without differing arguments')
        left = ugn.ChannelList(a) if la else a
        right = ugn.ChannelList(b) if lb else b
        if len(group[0]) > 4 and group[0][4] == 'func':
            import sc3.base.builtins as bi
            if not hasattr(bi, name) or any(len(g) <= 4 or g[4] != 'func' for g in group):
                raise Unsupported('function form in a multichannel group')
            r = getattr(bi, name)(left, right)
        elif name in INFIX:
            r = INFIX[name](left, right)
        else:
            if is_num(left):
                raise Unsupported('method op on a number')
            r = getattr(left, name)(right)
    elif k == 'un':
        name = group[0][1]
        if any(g[1] != name for g in group):
            raise Unsupported('mce group of different operators')
        a, la = col(2)
        if not la:
            raise Unsupported('mce group without differing arguments')
        left = ugn.ChannelList(a)
        if len(group[0]) > 3 and group[0][3] == 'func':
            import sc3.base.builtins as bi
            if not hasattr(bi, name) or any(len(g) <= 3 or g[3] != 'func' for g in group):
                raise Unsupported('function form in a multichannel group')
            r = getattr(bi, name)(left)
        else:
            r = UN_INFIX[name](left) if name in UN_INFIX else getattr(left, name)()
    elif k == 'U':
        name, rate = group[0][1], group[0][2]
        if any(g[1] != name or g[2] != rate for g in group):
            raise Unsupported('mce group of different classes')
        mod, cname, rates, arity, call = CATALOGUE[name]
        if call is not None or rate not in rates:
            raise Unsupported('mce group of a class with a special call')
        cols = [([arg(g[3][j]) for g in group], True) if any(g[3][j] != group[0][3][j] for g in group)
                else (arg(group[0][3][j]), False) for j in range(arity)]
        if not any(l for _, l in cols):
            raise Unsupported('mce group without differing arguments')
        r = getattr(_cls(name), 'new' if name == 'Rand' else METHOD[rate])(*[v for v, _ in cols])
    else:
        raise Unsupported('mce group of kind ' + str(k))
    r = list(r) if isinstance(r, list) else [r]
    if len(r) != n:
        raise Unsupported('multichannel call gave %d channels for %d instructions' % (len(r), n))
    return r


def helper_call(spec, arg):
    """One call of a sum helper (ChannelList.sum / Mix.new) over a flat list or over nested rows of channels."""
    import sc3.synth.ugen as ugn
    from sc3.synth.ugens.mix import Mix
    form = spec['form']
    rows = [[arg(x) for x in row] for row in spec['rows']]
    nch = len(rows[0])
    if 'nested' in form:
        data = [ugn.ChannelList(r) for r in rows] if form.endswith('_cl') else [list(r) for r in rows]
    else:
        data = [r[0] for r in rows]
    r = Mix.new(data) if form.startswith('mix') else ugn.ChannelList(data).sum()
    if 'nested' in form:
        r = list(r) if isinstance(r, list) else [r]
    else:
        r = [r[0] if isinstance(r, list) and len(r) == 1 else r]
    if len(r) != nch:
        raise Unsupported('sum helper gave %d channels for %d' % (len(r), nch))
    return r


def make_func(prog):
    """Build the real Python graph function of a prog."""
    import sc3.synth.ugen as ugn
    from sc3.synth.ugens import inout as iou
    nir, nkr = len(prog.get('ir', [])), len(prog.get('kr', []))
    irshape = prog.get('irshape') or [1] * nir
    krshape = prog.get('krshape') or [1] * nkr
    if sum(irshape) != nir or sum(krshape) != nkr or any(n < 1 for n in irshape + krshape):
        raise Unsupported('parameter shapes do not partition the control slots')
    names, defaults, slot_of = [], [], []         # slot_of[flat slot] = (parameter number, element or None)
    for tag, shape, vals_ in (('i', irshape, prog.get('ir', [])), ('k', krshape, prog.get('kr', []))):
        pos_ = 0
        for n in shape:
            d = [float(Fraction(x)) for x in vals_[pos_:pos_ + n]]
            for e in range(n):
                slot_of.append((len(names), e if n > 1 else None))
            names.append('%s%d' % (tag, len(names)))
            defaults.append(d[0] if n == 1 else tuple(d))
            pos_ += n
    ins = prog['ins']

    def body(params):
        vals = []

        def arg(a):
            if a[0] == 'c':
                if len(a) > 2 and a[2] == 'i' and Fraction(a[1]).denominator == 1:
                    return int(Fraction(a[1]))          # int 0 / 1 / -1 / ... instead of float
                if len(a) > 2 and a[2] == 'z' and Fraction(a[1]) == 0:
                    return -0.0
                return float(Fraction(a[1]))
            if a[0] == 'p':
                pn, el = slot_of[(0 if a[1] == 'ir' else nir) + a[2]]
                return params[pn] if el is None else params[pn][el]
            v = vals[a[1]]
            if v is None:
                raise Unsupported('reference to an instruction without value')
            if isinstance(v, list):
                return v[a[2]]
            if a[2] != 0:
                raise Unsupported('channel of a scalar value')
            return v

        groups = {g[0]: g[1] for g in prog.get('mce', []) if g[1] >= 2}
        blocks = {b[0]: b for b in prog.get('blocks', [])}
        pos = 0
        while pos < len(ins):
            if pos in blocks:
                _, n, spec = blocks[pos]
                res = helper_call(spec, arg)
                vals.extend([None] * n)
                for ch, a in enumerate(spec['result']):
                    if a[0] == 'v' and pos <= a[1] < pos + n:
                        vals[a[1]] = res[ch]
                pos += n
                continue
            if pos in groups:
                n = groups[pos]
                vals.extend(mce_call(ins[pos:pos + n], arg))
                pos += n
                continue
            ins_ = ins[pos]
            pos += 1
            k = ins_[0]
            if k == 'U':
                _, name, rate, args = ins_
                mod, cname, rates, arity, call = CATALOGUE[name]
                if rate not in rates or len(args) != arity:
                    raise Unsupported('catalogue rate/arity')
                c = _cls(name)
                a = [arg(x) for x in args]
                a = call(a) if call else a
                meth = METHOD[rate]
                if name == 'Rand':
                    meth = 'new'
                r = getattr(c, meth)(*a)
                vals.append(r)
            elif k == 'un' and len(ins_) > 3 and ins_[3] == 'func':
                import sc3.base.builtins as bi
                a = arg(ins_[2])
                if is_num(a) or not hasattr(bi, ins_[1]):
                    raise Unsupported('function form of a unary op')
                vals.append(getattr(bi, ins_[1])(a))
            elif k == 'bin' and len(ins_) > 4 and ins_[4] == 'func':
                import sc3.base.builtins as bi
                a, b = arg(ins_[2]), arg(ins_[3])
                if (is_num(a) and is_num(b)) or not hasattr(bi, ins_[1]):
                    raise Unsupported('function form of a binary op')
                vals.append(getattr(bi, ins_[1])(a, b))
            elif k == 'un':
                a = arg(ins_[2])
                name = ins_[1]
                if is_num(a):
                    if name != 'neg':
                        raise Unsupported('unary op on a number')
                    vals.append(-a)
                elif name in UN_INFIX:
                    vals.append(UN_INFIX[name](a))
                else:
                    vals.append(getattr(a, name)())
            elif k == 'bin':
                name = ins_[1]
                a, b = arg(ins_[2]), arg(ins_[3])
                if is_num(a) and is_num(b):
                    if name not in ('add', 'sub', 'mul'):
                        raise Unsupported('binary op on two numbers')
                    vals.append(INFIX[name](a, b))
                elif name in INFIX:
                    if is_num(a) and name in ('lt', 'gt', 'le', 'ge'):
                        raise Unsupported('reflected comparison')
                    vals.append(INFIX[name](a, b))
                else:
                    if is_num(a):
                        raise Unsupported('method op on a number')
                    vals.append(getattr(a, name)(b))
            elif k == 'madd':
                vals.append(ugn.MulAdd.new(arg(ins_[1]), arg(ins_[2]), arg(ins_[3])))
            elif k == 'sum':
                vals.append(ugn.ChannelList([arg(x) for x in ins_[1]]).sum())
            elif k == 'sum3':
                vals.append(ugn.Sum3.new(arg(ins_[1]), arg(ins_[2]), arg(ins_[3])))
            elif k == 'sum4':
                vals.append(ugn.Sum4.new(arg(ins_[1]), arg(ins_[2]), arg(ins_[3]), arg(ins_[4])))
            elif k == 'out':
                _, rate, bus, args = ins_
                getattr(iou.Out, METHOD[rate])(arg(bus), [arg(x) for x in args])
                vals.append(None)
            elif k == 'raise':
                if ins_[1] == 'base':
                    raise GraphFuncBase('graph function raised a BaseException')
                raise GraphFuncError('graph function raised')
            else:
                raise Unsupported('instruction ' + str(k))

    src = 'def gf(%s):\n    return _body([%s])\n' % (
        ', '.join(["%s:'%s'=%r" % (n, 'ir' if n[0] == 'i' else 'kr', d) for n, d in zip(names, defaults)]),
        ', '.join(names))
    scope = {'_body': body}
    exec(src, scope)
    return scope['gf']


def fr(x):
    f = Fraction(float(x))
    return '%d/%d' % (f.numerator, f.denominator)


def describe(sd):
    """Canonical final structure of a built SynthDef."""
    import sc3.synth.ugen as ugn
    units = []
    bad = []      # two-site consistency: what the writer will use (_synth_index, _output_index) vs the actual objects
    for k, u in enumerate(sd._children):
        ins = []
        if u._synth_index != k:
            bad.append('child %d (%s) has _synth_index %r' % (k, u.name, u._synth_index))
        if getattr(u, '_synthdef', sd) is not sd:
            bad.append('child %d (%s) belongs to another definition' % (k, u.name))
        for i in u.inputs:
            if isinstance(i, (int, float)):
                ins.append(['c', fr(i)])
            else:
                ins.append(['u', i._synth_index, i._output_index])
                src = i.source_ugen if isinstance(i, ugn.OutputProxy) else i
                j = src._synth_index
                if not (isinstance(j, int) and 0 <= j < len(sd._children)) or sd._children[j] is not src:
                    bad.append('input of child %d (%s) refers to index %r which is not its source unit' % (k, u.name, j))
                elif j >= k:
                    bad.append('child %d (%s) reads child %d which is not before it' % (k, u.name, j))
                elif not (0 <= i._output_index < max(1, src._num_outputs())):
                    bad.append('child %d (%s) reads output %r of child %d which has %d outputs' % (k, u.name, i._output_index, j, src._num_outputs()))
        units.append([u.name, u.rate if u.rate is not None else 'scalar', ins, u._num_outputs(), u._special_index])
    consts = [None] * len(sd._constants)
    for v, i in sd._constants.items():
        consts[i] = fr(v)
    d = {'ok': True, 'units': units, 'consts': consts, 'controls': [fr(x) for x in sd._controls]}
    if bad:
        d['inconsistent'] = bad[:6]
    return d


ERR_KINDS = ('KeyError', 'ValueError', 'TypeError', 'AttributeError', 'GraphFuncError', 'GraphFuncBase',
             'Unsupported')


def check_param_table(prog, sd):
    """The parameter table must map every parameter to the first control slot that carries its default(s)."""
    nir = len(prog.get('ir', []))
    exp = []
    for off, shape in ((0, prog.get('irshape') or [1] * nir), (nir, prog.get('krshape') or [1] * len(prog.get('kr', [])))):
        pos_ = off
        for n in shape:
            exp.append(pos_)
            pos_ += n
    got = [cn.index for cn in sd._all_control_names]
    if got != exp:
        return ['parameter table maps the parameters to control slots %s, expected %s' % (got, exp)]
    flat = [float(Fraction(x)) for x in prog.get('ir', [])] + [float(Fraction(x)) for x in prog.get('kr', [])]
    bad = []
    for cn, start in zip(sd._all_control_names, exp):
        d = cn.default_value if isinstance(cn.default_value, (list, tuple)) else [cn.default_value]
        if [float(x) for x in d] != flat[start:start + len(d)] or [float(x) for x in sd._controls[start:start + len(d)]] != [float(x) for x in d]:
            bad.append('parameter %s: defaults %s are not the control values at slot %d' % (cn.name, list(d), start))
    return bad[:3]


def build(prog, name='t'):
    """Build with the real SynthDef; return (description, synthdef or None)."""
    from sc3.synth.synthdef import SynthDef
    try:
        f = make_func(prog)
        sd = SynthDef(name, f)
        d = describe(sd)
        bad = check_param_table(prog, sd)
        if bad:
            d['inconsistent'] = (d.get('inconsistent') or []) + bad
        return d, sd
    except BaseException as e:    # noqa: we classify everything, including BaseException
        kind = type(e).__name__
        if isinstance(e, (KeyboardInterrupt, SystemExit)):
            raise
        return {'ok': False, 'err': kind if kind in ERR_KINDS else 'Other:' + kind, 'msg': str(e)[:200]}, None


def ctx_state():
    """Observable build-context state: (current def is None, lock free)."""
    import sc3.base.main as m
    lock = m.main._def_build_lock
    free = lock.acquire(blocking=False)
    if free:
        lock.release()
    return [m.main._current_synthdef is None, bool(free)]


def outside_ugen_has_no_def():
    from sc3.synth.ugens.oscillators import SinOsc
    u = SinOsc.ar()
    return u._synthdef is None
