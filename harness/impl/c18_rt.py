"""C18 (ii)+(iii): drive the REAL receive path of an RT sc3 process.

Input  {port, histories: [[op, ...], ...], dgrams: [{hex, src}], udp: [{hex}], watchdog, probes: bool}
  op = ['create', path, matching, src|None, rif|None, tmpl|None, fn]
       ['enable'|'disable'|'one_shot'|'free', id]  ['set_func', id, fn]  ['cmd_period']
       ['dgram', hex, [ip, port], iface]
  src = [ip_string, port|None];  rif = 0 | 1 (the two real UDP interfaces) | 'zero' (recv_port=0)
  tmpl = list of items | {'scalar': item};  item = None | ['eq', enc] | ['pred', name]
  fn = {'tag': n, 'share': bool, 'raises': bool}: a fresh function object, or (share) ONE function
       object per tag reused by every responder that names it; raises: logs, then raises ValueError
Every datagram goes through OscInterface._handle_request(bytes, (ip, port)) of the interface
`iface`, in the main thread under a SIGALRM watchdog, then the script waits for the SystemClock
task that runs the responders.
Output per history, per op: {'log': invocations [[rid|77777, tag, msg, time, src_addr, src_port, recv_port, n_received], ...]
        (fn['shape'] picks the callable's signature; fields it did not receive are null)
        (+ 'HANG' / 'RAISED:<type>' / 'OPERROR:<type>' markers),
        'state': {'en': [enabled flags], 'ex': [[path, [rid..]]..], 'mt': same, 'we'/'wm': wrapped_funcs order, 'cp': [rid..]}}
        -- the dispatchers' tables and CmdPeriod's registry restricted to this history's responders;
per dgram {out, hang, raised, alive}."""
import functools, json, os, signal, socket, struct, sys, threading, time

inp = json.load(open(sys.argv[1]))
# non-default binding: the first `busy` ports of the library's range are held by other sockets, so the
# library's interface has to fall back to a later port of its range
BUSY = int(inp.get('busy', 0))
_held = []
for _k in range(BUSY):
    _s = socket.socket(socket.AF_INET, socket.SOCK_DGRAM)
    _s.bind((socket.gethostbyname('localhost'), inp['port'] + _k))
    _held.append(_s)
import sc3
sc3.LIB_PORT = inp['port']
sc3.LIB_PORT_RANGE = BUSY + 1
sc3.init('rt', verbosity='CRITICAL')
from sc3.base.main import main
from sc3.base.responders import OscFunc
from sc3.base.netaddr import NetAddr
from sc3.base import clock as clk
from sc3.base import systemactions as sac
from sc3.base import _oscinterface as osci

# exact, invertible time mapping: elapsed = timetag * 2**-32
clk.SystemClock._elapsed_osc_offset = 0
sac.CmdPeriod.free_servers = False

WATCHDOG = float(inp.get('watchdog', 0.4))
ifaces = [main._osc_interface]
# the port a datagram ARRIVES on is the one the socket is bound to: that is the truth the responders'
# recv_port filters and the model use; what the interface objects report is returned separately
P1 = ifaces[0].socket.getsockname()[1] + 1
main.open_udp_port(P1)
ifaces.append([i for i in osci.OscInterface._local_endpoints.values() if i is not ifaces[0] and i.socket.getsockname()[1] == P1][0])
PORTS = [i.socket.getsockname()[1] for i in ifaces]
REPORTED = {'iface_ports': [i.port for i in ifaces], 'lang_port': NetAddr.lang_port(),
            'endpoints': sorted(k[1] for k in osci.OscInterface._local_endpoints)}
BUSY_OPEN = None
if BUSY:
    try:                                  # opening an extra port that is in use must fail, not bind elsewhere
        main.open_udp_port(inp['port'])
        BUSY_OPEN = 'no error'
    except OSError as e:
        BUSY_OPEN = 'OSError'
DISP = [OscFunc._default_dispatcher, OscFunc._default_matching_dispatcher]
BASELINE = [len(d.active) for d in DISP]
WILD = 77777


def enc(v):
    if isinstance(v, bool):
        return ['B', int(v)]
    if isinstance(v, int):
        return ['i', str(v)]
    if isinstance(v, float):
        if v != v:
            return ['f', str(0x7ff8000000000000)]
        return ['f', str(struct.unpack('>Q', struct.pack('>d', v))[0])]
    if isinstance(v, str):
        return ['s', list(v.encode('utf-8'))]
    if isinstance(v, (bytes, bytearray)):
        return ['b', list(v)]
    if isinstance(v, tuple):
        return ['m', list(v)]
    if isinstance(v, list):
        return ['a', [enc(x) for x in v]]
    return ['?', repr(v)]


def dec(e):
    k, v = e
    if k == 'i':
        return int(v)
    if k == 's':
        return bytes(v).decode('utf-8')
    if k == 'f':
        return struct.unpack('>d', struct.pack('>Q', int(v)))[0]
    if k == 'B':
        return bool(v)
    if k == 'b':
        return bytes(v)
    raise ValueError(e)


PREDS = {'pos': lambda x: isinstance(x, int) and not isinstance(x, bool) and x > 0,
         'isstr': lambda x: isinstance(x, str),
         'ident': lambda x: x,                 # the argument itself: falsy / truthy non-bool results
         'gt5raw': lambda x: x > 5}            # raises TypeError on str / bytes / list arguments

window = [0.0, 0.0]


def enc_time(t):
    # called after the delivery window is closed
    if window[0] <= t <= window[1]:
        return ['now']
    return ['tag', str(int(t * 4294967296))]


class SigCallable:
    """one class; each instance takes the positional parameters named in its __signature__"""
    def __init__(self, f, names):
        import inspect
        self.f = f
        self.k = len(names)
        self.__signature__ = inspect.Signature([inspect.Parameter(n, inspect.Parameter.POSITIONAL_OR_KEYWORD) for n in names])

    def __call__(self, *args):
        if len(args) != self.k:
            raise TypeError('takes %d positional arguments but %d were given' % (self.k, len(args)))
        return self.f(*args)


class Hang(BaseException):
    pass


class Boom(BaseException):
    pass


hung = [False]


def on_alarm(signum, frame):
    hung[0] = True
    raise Hang()


signal.signal(signal.SIGALRM, on_alarm)


def settle():
    ev = threading.Event()
    clk.SystemClock.sched(0, lambda: ev.set())
    return ev.wait(3)


def deliver(iface, data, addr):
    """-> (hang, raised)"""
    hung[0] = False
    raised = None
    window[0] = main.elapsed_time()
    window[1] = 0.0
    signal.setitimer(signal.ITIMER_REAL, WATCHDOG)
    try:
        iface._handle_request(data, addr)
    except Hang:
        pass
    except BaseException as e:
        raised = type(e).__name__
    finally:
        signal.setitimer(signal.ITIMER_REAL, 0)
    window[1] = main.elapsed_time()
    ok = settle()
    if not ok:
        raised = (raised or '') + '+clock-stalled'
    return hung[0], raised


def run_history(ops):
    log = []
    resp = []
    shared = {}

    builtin_owner = [None]

    def rec(rid, tag, got):
        """what the callable RECEIVED: the leading arguments it was given (None for the rest) and how many"""
        n = len(got)
        g = list(got) + [None] * (4 - n)
        log.append([rid, tag,
                    None if n < 1 else [list(g[0][0].encode('utf-8')), [enc(x) for x in g[0][1:]]],
                    g[1], None if n < 3 else g[2].addr, None if n < 3 else g[2].port, g[3], n])

    def mk(rid, fn):
        """a callable of the requested signature shape"""
        tag = fn['tag']
        shape = fn.get('shape', 'full')
        if fn.get('share'):
            if tag not in shared:
                def sf(msg, time, addr, port):
                    rec(WILD, tag, (msg, time, addr, port))
                shared[tag] = sf
            return shared[tag]
        if shape == 'full':
            def f(msg, time, addr, port):
                rec(rid, tag, (msg, time, addr, port))
                if fn.get('raises'):
                    raise ValueError('responder %d raises' % rid)
            return f
        if shape == 'n3':
            return lambda msg, time, addr: rec(rid, tag, (msg, time, addr))
        if shape == 'n2':
            return lambda msg, time: rec(rid, tag, (msg, time))
        if shape == 'n1':
            return lambda msg: rec(rid, tag, (msg,))
        if shape == 'n0':
            return lambda: rec(rid, tag, ())
        if shape == 'posonly':
            def f(msg, time, addr, port, /):
                rec(rid, tag, (msg, time, addr, port))
            return f
        if shape == 'posonly2':
            def f(msg, time, /):
                rec(rid, tag, (msg, time))
            return f
        if shape == 'varargs':
            def f(*args):
                rec(rid, tag, args)
            return f
        if shape == 'mixed':
            def f(msg, *rest):
                rec(rid, tag, (msg,) + rest)
            return f
        if shape == 'kwonly':
            def f(msg, time, *, flag=True, other=None):
                rec(rid, tag, (msg, time))
            return f
        if shape == 'kwargs':
            def f(msg, **kw):
                rec(rid, tag, (msg,))
            return f
        if shape == 'defaults':
            def f(msg, time=None, addr=None, port=None, extra=5):
                rec(rid, tag, (msg, time, addr, port))
            return f
        if shape == 'partial':
            def g(x, y, msg, time):
                rec(rid, tag, (msg, time))
            return functools.partial(g, 'x', 'y')
        if shape.startswith('partial') and shape[7:].isdigit():
            # functools.partial objects (ONE class) of different positional arity
            k = int(shape[7:])
            g = [lambda x: rec(rid, tag, ()), lambda x, msg: rec(rid, tag, (msg,)), lambda x, msg, time: rec(rid, tag, (msg, time)),
                 lambda x, msg, time, addr: rec(rid, tag, (msg, time, addr)),
                 lambda x, msg, time, addr, port: rec(rid, tag, (msg, time, addr, port))][k]
            return functools.partial(g, 'x')
        if shape == 'partialv':
            def g(x, *args):
                rec(rid, tag, args)
            return functools.partial(g, 'x')
        if shape.startswith('method') and shape[6:].isdigit():
            # bound methods (ONE class, types.MethodType) of different arity, of one holder class
            class Holder5:
                def m0(self):
                    rec(rid, tag, ())

                def m1(self, msg):
                    rec(rid, tag, (msg,))

                def m2(self, msg, time):
                    rec(rid, tag, (msg, time))

                def m3(self, msg, time, addr):
                    rec(rid, tag, (msg, time, addr))

                def m4(self, msg, time, addr, port):
                    rec(rid, tag, (msg, time, addr, port))
            return getattr(Holder5(), 'm' + shape[6:])
        if shape.startswith('object') and shape[6:].isdigit():
            # callable objects of ONE class whose instances advertise different signatures (__signature__)
            k = int(shape[6:])
            names = ['msg', 'time', 'addr', 'port'][:k]
            obj = SigCallable(lambda *a: rec(rid, tag, a), names)
            return obj
        if shape == 'object':
            class Callable:
                def __call__(self, msg, time, addr):
                    rec(rid, tag, (msg, time, addr))
            return Callable()
        if shape == 'method':
            class Holder:
                def m(self, msg):
                    rec(rid, tag, (msg,))
            return Holder().m
        if shape == 'builtin':
            builtin_owner[0] = (rid, tag)      # list.append of the log itself: (object, /) -- a builtin bound method
            return log.append
        raise ValueError(shape)

    def finish(x):
        if isinstance(x[0], str):             # appended by the builtin responder: the message list itself
            rid, tag = builtin_owner[0]
            return [rid, tag, [list(x[0].encode('utf-8')), [enc(v) for v in x[1:]]], None, None, None, None, 1]
        return x[:3] + [None if x[3] is None else enc_time(x[3])] + x[4:]

    def item(it):
        return None if it is None else (dec(it[1]) if it[0] == 'eq' else PREDS[it[1]])

    def snapshot():
        st = {'en': [bool(r.enabled) for r in resp]}
        for name, d in (('ex', DISP[0]), ('mt', DISP[1])):
            owner = {}
            for rid, r in enumerate(resp):
                if r in d.wrapped_funcs:
                    owner.setdefault(id(d.wrapped_funcs[r]), []).append(rid)
            tbl = []
            for key, funcs in d.active.items():
                ids = []
                used = {}
                for w in funcs:
                    cands = owner.get(id(w))
                    if cands:
                        k = used.get(id(w), 0)
                        ids.append(cands[min(k, len(cands) - 1)])
                        used[id(w)] = k + 1
                if ids:
                    tbl.append([list(key.encode('utf-8')), ids])
            st[name] = tbl
        mine = {id(r): rid for rid, r in enumerate(resp)}
        # each dispatcher's wrapped_funcs (responder -> wrapper), in dict order
        st['we'] = [mine[id(r)] for r in DISP[0].wrapped_funcs if id(r) in mine]
        st['wm'] = [mine[id(r)] for r in DISP[1].wrapped_funcs if id(r) in mine]
        st['cp'] = [mine[id(a.__self__)] for a in sac.CmdPeriod._actions
                    if getattr(a, '__self__', None) is not None and id(a.__self__) in mine]
        return st

    outs = []
    for op in ops:
        del log[:]
        mark = []
        try:
            k = op[0]
            if k == 'create':
                _, path, matching, src, rif, tmpl, fn = op
                rid = len(resp)
                srcid = NetAddr(src[0], src[1]) if src is not None else None
                rport = None if rif is None else (0 if rif == 'zero' else PORTS[rif])
                if isinstance(tmpl, dict):
                    tmpl = item(tmpl['scalar'])
                elif tmpl is not None:
                    tmpl = [item(it) for it in tmpl]
                ctor = OscFunc.matching if matching else OscFunc
                resp.append(ctor(mk(rid, fn), path, srcid, rport, arg_template=tmpl))
            elif k == 'enable':
                resp[op[1]].enable()
            elif k == 'disable':
                resp[op[1]].disable()
            elif k == 'one_shot':
                resp[op[1]].one_shot()
            elif k == 'free':
                resp[op[1]].free()
            elif k == 'set_func':
                resp[op[1]].func = mk(op[1], op[2])
            elif k == 'cmd_period':
                sac.CmdPeriod.run()
            elif k == 'dgram':
                hang, raised = deliver(ifaces[op[3]], bytes.fromhex(op[1]), (op[2][0], op[2][1]))
                if hang:
                    mark.append('HANG')
                if raised:
                    mark.append('RAISED:' + raised)
        except Exception as e:
            mark.append('OPERROR:' + type(e).__name__)
        outs.append({'log': mark + [finish(x) for x in log], 'state': snapshot()})
    for r in resp:
        try:
            r.free()
        except Exception:
            pass
    leftover = [len(d.active) - b for d, b in zip(DISP, BASELINE)]
    return outs, leftover


def order_probe():
    """cross-dispatcher order (the two dispatchers live in a set): which one gets a message first"""
    seen = []
    a = OscFunc(lambda: seen.append('exact'), '/c18order')
    b = OscFunc.matching(lambda: seen.append('matching'), '/c18order')
    deliver(ifaces[0], b'/c18order\0\0\0,\0\0\0', ('127.0.0.1', 9))
    a.free()
    b.free()
    return seen


def run_dgrams(cases):
    raw = []

    def rawf(msg, time, addr, port):
        raw.append([[list(msg[0].encode('utf-8')), [enc(x) for x in msg[1:]]], time, addr.addr, addr.port, port])

    main.add_osc_recv_func(rawf)
    res = []
    n = 0
    for c in cases:
        del raw[:]
        hang, raised = deliver(ifaces[0], bytes.fromhex(c['hex']), (c['src'][0], c['src'][1]))
        out = [[x[0], enc_time(x[1])] + x[2:] for x in raw]
        del raw[:]
        n += 1
        alive_msg = b'/c18alive\0\0\0,i\0\0' + struct.pack('>i', n)
        h2, r2 = deliver(ifaces[0], alive_msg, ('127.0.0.1', 7))
        alive = (len(raw) == 1 and raw[0][0] == [list(b'/c18alive'), [['i', str(n)]]] and raw[0][2:] == [2130706433, 7, PORTS[0]] and not h2 and not r2)
        res.append({'out': out, 'hang': hang, 'raised': raised, 'alive': alive})
    main.remove_osc_recv_func(rawf)
    return res


def run_udp(cases):
    """the same through the real socket and the real receive thread"""
    raw = []
    got = threading.Event()

    def rawf(msg, time, addr, port):
        raw.append([[list(msg[0].encode('utf-8')), [enc(x) for x in msg[1:]]], addr.addr, addr.port, port])
        if msg[0] == '/c18alive':
            got.set()

    main.add_osc_recv_func(rawf)
    s = socket.socket(socket.AF_INET, socket.SOCK_DGRAM)
    s.bind(('127.0.0.1', PORTS[1] + 1))
    res = []
    dead = False
    for n, c in enumerate(cases):
        if dead:
            res.append({'out': [], 'alive': False, 'skipped': True})
            continue
        del raw[:]
        got.clear()
        s.sendto(bytes.fromhex(c['hex']), ('127.0.0.1', PORTS[0]))
        s.sendto(b'/c18alive\0\0\0,i\0\0' + struct.pack('>i', n), ('127.0.0.1', PORTS[0]))
        alive = got.wait(1.5)
        time.sleep(0.02)
        settle()
        out = [x for x in raw if x[0][0] != list(b'/c18alive')]
        res.append({'out': out, 'alive': bool(alive), 'thread_alive': ifaces[0]._udp_thread.is_alive()})
        if not alive:
            dead = True
    main.remove_osc_recv_func(rawf)
    s.close()
    return res


def probes():
    """fixed scenarios whose outcome the harness turns into signatured findings (run LAST: the
    BaseException one may end the clock thread)"""
    out = {}
    log = []
    m = b'/c18p\0\0\0,i\0\0\0\0\0\1'

    def F(msg, time, addr, port):
        log.append('F')

    def G(msg, time, addr, port):
        log.append('G')
    # the same function object in two responders, then function replacement on the second
    r0, r1 = OscFunc(F, '/c18p'), OscFunc(F, '/c18p')
    r1.func = G
    deliver(ifaces[0], m, ('127.0.0.1', 9))
    out['shared_replace'] = list(log)
    r0.free()
    r1.free()
    del log[:]
    # callables with keyword-only / **kwargs parameters take fewer positional arguments than they have parameters
    got = []

    def kwf(msg, time, *, flag=True):
        got.append(['kwonly', 2])

    def kwa(msg, **kw):
        got.append(['kwargs', 1])

    def last(msg):
        got.append(['last', 1])
    k0, k1, k2 = OscFunc(kwf, '/c18p'), OscFunc(kwa, '/c18p'), OscFunc(last, '/c18p')
    deliver(ifaces[0], m, ('127.0.0.1', 9))
    out['signatures'] = got
    for q in (k0, k1, k2):
        q.free()
    # matching responders on /c18a, /c18b, /c18a and a pattern that matches both paths
    def mk2(tag):
        return lambda msg, time, addr, port: log.append(tag)
    q0, q1, q2 = OscFunc.matching(mk2(0), '/c18a'), OscFunc.matching(mk2(1), '/c18b'), OscFunc.matching(mk2(2), '/c18a')
    deliver(ifaces[0], b'/c18?\0\0\0,\0\0\0', ('127.0.0.1', 9))
    out['matching_order'] = list(log)
    for q in (q0, q1, q2):
        q.free()
    del log[:]
    # a responder raising an Exception, then one raising a BaseException; then the next datagram
    def mk(tag, exc=None):
        def f(msg, time, addr, port):
            log.append(tag)
            if exc is not None:
                raise exc()
        return f
    a, b, c = OscFunc(mk('a'), '/c18p'), OscFunc(mk('b', ValueError), '/c18p'), OscFunc(mk('c'), '/c18p')
    h, r = deliver(ifaces[0], m, ('127.0.0.1', 9))
    out['exception'] = {'log': list(log), 'hang': h, 'raised': r, 'in_awake_call': bool(main._in_awake_call)}
    del log[:]
    b.func = mk('b')
    h, r = deliver(ifaces[0], m, ('127.0.0.1', 9))
    out['after_exception'] = {'log': list(log), 'hang': h, 'raised': r}
    del log[:]
    b.func = mk('b', Boom)
    h, r = deliver(ifaces[0], m, ('127.0.0.1', 9))
    out['baseexception'] = {'log': list(log), 'hang': h, 'raised': r, 'in_awake_call': bool(main._in_awake_call)}
    del log[:]
    b.func = mk('b')
    h, r = deliver(ifaces[0], m, ('127.0.0.1', 9))
    out['after_baseexception'] = {'log': list(log), 'hang': h, 'raised': r}
    return out


result = {'ports': PORTS, 'reported': REPORTED, 'busy_open': BUSY_OPEN, 'histories': [], 'leftover': []}
for h in inp.get('histories', []):
    o, l = run_history(h)
    result['histories'].append(o)
    result['leftover'].append(l)
result['order'] = order_probe()
result['dgrams'] = run_dgrams(inp.get('dgrams', []))
result['udp'] = run_udp(inp.get('udp', []))
result['probes'] = probes() if inp.get('probes') else {}
json.dump(result, open(sys.argv[2], 'w'))
sys.stdout.flush()
os._exit(0)
