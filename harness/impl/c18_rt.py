"""C18 (ii)+(iii): drive the REAL receive path of an RT sc3 process.

Input  {port, histories: [[op, ...], ...], dgrams: [{hex, src}], udp: [{hex}], watchdog}
  op = ['create', path, matching, src|None, recv_iface|None, tmpl|None, tag]
       ['enable'|'disable'|'one_shot'|'free', id]  ['set_func', id, tag]  ['cmd_period']
       ['dgram', hex, [ip, port], iface]
  src = [ip_string, port|None];  tmpl item = None | ['eq', enc] | ['pred', name]
Every datagram goes through OscInterface._handle_request(bytes, (ip, port)) of the interface
`iface` (0 = the library port, 1 = an extra UDP port), in the main thread under a SIGALRM
watchdog, then the script waits for the SystemClock task that runs the responders.
Output: per history, per op, the invocation log [[rid, tag, msg, time, src_addr, src_port, recv_port], ...]
        (plus 'HANG' / 'RAISED:<type>' markers); per dgram {out, hang, raised, alive}."""
import json, os, signal, socket, struct, sys, threading, time

inp = json.load(open(sys.argv[1]))
import sc3
sc3.LIB_PORT = inp['port']
sc3.LIB_PORT_RANGE = 1
sc3.init('rt', verbosity='CRITICAL')
from sc3.base.main import main
from sc3.base.responders import OscFunc
from sc3.base.netaddr import NetAddr
from sc3.base import clock as clk
from sc3.base import systemactions as sac
from sc3.base import _oscinterface as osci

# exact, invertible time mapping: elapsed = timetag * 2**-32
clk.SystemClock._elapsed_osc_offset = 0
sac.CmdPeriod.free_servers = False

WATCHDOG = float(inp.get('watchdog', 0.4))
ifaces = [main._osc_interface]
P1 = inp['port'] + 1
main.open_udp_port(P1)
ifaces.append(osci.OscInterface._local_endpoints[(socket.gethostbyname('localhost'), P1)])
PORTS = [i.port for i in ifaces]
BASELINE = [len(OscFunc._default_dispatcher.active), len(OscFunc._default_matching_dispatcher.active)]


def enc(v):
    if isinstance(v, bool):
        return ['B', int(v)]
    if isinstance(v, int):
        return ['i', str(v)]
    if isinstance(v, float):
        if v != v:
            return ['f', str(0x7ff8000000000000)]
        return ['f', str(struct.unpack('>Q', struct.pack('>d', v))[0])]
    if isinstance(v, str):
        return ['s', list(v.encode('utf-8'))]
    if isinstance(v, (bytes, bytearray)):
        return ['b', list(v)]
    if isinstance(v, tuple):
        return ['m', list(v)]
    if isinstance(v, list):
        return ['a', [enc(x) for x in v]]
    return ['?', repr(v)]


def dec(e):
    k, v = e
    if k == 'i':
        return int(v)
    if k == 's':
        return bytes(v).decode('utf-8')
    raise ValueError(e)


PREDS = {'pos': lambda x: isinstance(x, int) and not isinstance(x, bool) and x > 0,
         'isstr': lambda x: isinstance(x, str)}

window = [0.0, 0.0]


def enc_time(t):
    # called after the delivery window is closed
    if window[0] <= t <= window[1]:
        return ['now']
    return ['tag', str(int(t * 4294967296))]


class Hang(BaseException):
    pass


hung = [False]


def on_alarm(signum, frame):
    hung[0] = True
    raise Hang()


signal.signal(signal.SIGALRM, on_alarm)


def settle():
    ev = threading.Event()
    clk.SystemClock.sched(0, lambda: ev.set())
    return ev.wait(3)


def deliver(iface, data, addr):
    """-> (hang, raised)"""
    hung[0] = False
    raised = None
    window[0] = main.elapsed_time()
    window[1] = 0.0
    signal.setitimer(signal.ITIMER_REAL, WATCHDOG)
    try:
        iface._handle_request(data, addr)
    except Hang:
        pass
    except BaseException as e:
        raised = type(e).__name__
    finally:
        signal.setitimer(signal.ITIMER_REAL, 0)
    window[1] = main.elapsed_time()
    ok = settle()
    if not ok:
        raised = (raised or '') + '+clock-stalled'
    return hung[0], raised


def run_history(ops):
    log = []
    resp = []

    def mk(rid, tag):
        def f(msg, time, addr, port):
            log.append([rid, tag, [list(msg[0].encode('utf-8')), [enc(x) for x in msg[1:]]],
                        time, addr.addr, addr.port, port])
        return f

    outs = []
    for op in ops:
        del log[:]
        mark = []
        try:
            k = op[0]
            if k == 'create':
                _, path, matching, src, rif, tmpl, tag = op
                rid = len(resp)
                srcid = NetAddr(src[0], src[1]) if src is not None else None
                rport = PORTS[rif] if rif is not None else None
                if tmpl is not None:
                    tmpl = [None if it is None else (dec(it[1]) if it[0] == 'eq' else PREDS[it[1]]) for it in tmpl]
                ctor = OscFunc.matching if matching else OscFunc
                resp.append(ctor(mk(rid, tag), path, srcid, rport, arg_template=tmpl))
            elif k == 'enable':
                resp[op[1]].enable()
            elif k == 'disable':
                resp[op[1]].disable()
            elif k == 'one_shot':
                resp[op[1]].one_shot()
            elif k == 'free':
                resp[op[1]].free()
            elif k == 'set_func':
                resp[op[1]].func = mk(op[1], op[2])
            elif k == 'cmd_period':
                sac.CmdPeriod.run()
            elif k == 'dgram':
                hang, raised = deliver(ifaces[op[3]], bytes.fromhex(op[1]), (op[2][0], op[2][1]))
                if hang:
                    mark.append('HANG')
                if raised:
                    mark.append('RAISED:' + raised)
        except Exception as e:
            mark.append('OPERROR:' + type(e).__name__)
        outs.append(mark + [x[:3] + [enc_time(x[3])] + x[4:] for x in log])
    for r in resp:
        try:
            r.free()
        except Exception:
            pass
    leftover = [len(OscFunc._default_dispatcher.active) - BASELINE[0], len(OscFunc._default_matching_dispatcher.active) - BASELINE[1]]
    return outs, leftover


def order_probe():
    """cross-dispatcher order (the two dispatchers live in a set): which one gets a message first"""
    seen = []
    a = OscFunc(lambda: seen.append('exact'), '/c18order')
    b = OscFunc.matching(lambda: seen.append('matching'), '/c18order')
    deliver(ifaces[0], b'/c18order\0\0\0,\0\0\0', ('127.0.0.1', 9))
    a.free()
    b.free()
    return seen


def run_dgrams(cases):
    raw = []

    def rawf(msg, time, addr, port):
        raw.append([[list(msg[0].encode('utf-8')), [enc(x) for x in msg[1:]]], time, addr.addr, addr.port, port])

    main.add_osc_recv_func(rawf)
    res = []
    n = 0
    for c in cases:
        del raw[:]
        hang, raised = deliver(ifaces[0], bytes.fromhex(c['hex']), (c['src'][0], c['src'][1]))
        out = [[x[0], enc_time(x[1])] + x[2:] for x in raw]
        del raw[:]
        n += 1
        alive_msg = b'/c18alive\0\0\0,i\0\0' + struct.pack('>i', n)
        h2, r2 = deliver(ifaces[0], alive_msg, ('127.0.0.1', 7))
        alive = (len(raw) == 1 and raw[0][0] == [list(b'/c18alive'), [['i', str(n)]]] and raw[0][2:] == [2130706433, 7, PORTS[0]] and not h2 and not r2)
        res.append({'out': out, 'hang': hang, 'raised': raised, 'alive': alive})
    main.remove_osc_recv_func(rawf)
    return res


def run_udp(cases):
    """the same through the real socket and the real receive thread"""
    raw = []
    got = threading.Event()

    def rawf(msg, time, addr, port):
        raw.append([[list(msg[0].encode('utf-8')), [enc(x) for x in msg[1:]]], addr.addr, addr.port, port])
        if msg[0] == '/c18alive':
            got.set()

    main.add_osc_recv_func(rawf)
    s = socket.socket(socket.AF_INET, socket.SOCK_DGRAM)
    s.bind(('127.0.0.1', inp['port'] + 2))
    res = []
    dead = False
    for n, c in enumerate(cases):
        if dead:
            res.append({'out': [], 'alive': False, 'skipped': True})
            continue
        del raw[:]
        got.clear()
        s.sendto(bytes.fromhex(c['hex']), ('127.0.0.1', PORTS[0]))
        s.sendto(b'/c18alive\0\0\0,i\0\0' + struct.pack('>i', n), ('127.0.0.1', PORTS[0]))
        alive = got.wait(1.5)
        time.sleep(0.02)
        settle()
        out = [x for x in raw if x[0][0] != list(b'/c18alive')]
        res.append({'out': out, 'alive': bool(alive), 'thread_alive': ifaces[0]._udp_thread.is_alive()})
        if not alive:
            dead = True
    main.remove_osc_recv_func(rawf)
    s.close()
    return res


result = {'ports': PORTS, 'histories': [], 'leftover': []}
for h in inp.get('histories', []):
    o, l = run_history(h)
    result['histories'].append(o)
    result['leftover'].append(l)
result['order'] = order_probe()
result['dgrams'] = run_dgrams(inp.get('dgrams', []))
result['udp'] = run_udp(inp.get('udp', []))
json.dump(result, open(sys.argv[2], 'w'))
sys.stdout.flush()
os._exit(0)
