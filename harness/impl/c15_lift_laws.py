"""C15 lifting half -- independent probe of the lifting laws on the REAL library.

No model involved: the composed object's evaluation is compared with the numeric operator
applied to the separately evaluated operands (computed here with the plain number functions).
Input {'seed': int, 'n': int}; output {'bad': [{'law', 'theorem', 'expr', 'got', 'want'}], 'probes': N}.
Only small ints are used, so every comparison is exact.
"""
import json, operator, os, random, sys

import sc3
sc3.init(os.environ.get('SC3_MODE', 'nrt'))
import sc3.base.builtins as bi
from sc3.base.functions import Function
from sc3.base.stream import Routine, stream
from sc3.seq.patterns.listpatterns import Pseq
from sc3.seq.patterns.filterpatterns import Pn
from sc3.synth.ugen import ChannelList
from sc3.base.operand import Operand
from sc3.seq.event import Rest

OPS2 = [('+', operator.add), ('-', operator.sub), ('*', operator.mul), ('//', operator.floordiv),
        ('<', operator.lt), ('bi.mod', bi.mod), ('bi.min', bi.min), ('bi.max', bi.max), ('bi.absdif', bi.absdif),
        ('bi.difsqr', bi.difsqr), ('bi.ring1', bi.ring1), ('bi.thresh', bi.thresh)]
OPS3 = [('clip', bi.clip), ('wrap', bi.wrap), ('fold', bi.fold)]


def routine_over(lst):
    def gen():
        for i in lst:
            yield i
    return Routine(gen)


def main():
    cfg = json.load(open(sys.argv[1]))
    rng = random.Random(cfg['seed'])
    bad, probes = [], [0]

    def check(law, theorem, expr, thunk, want):
        probes[0] += 1
        try:
            got = thunk()
        except Exception as e:
            got = 'raises %s: %s' % (type(e).__name__, e)
        if got != want or type(got) is not type(want):
            bad.append({'law': law, 'theorem': theorem, 'expr': expr, 'got': repr(got), 'want': repr(want)})

    def nz():
        return rng.choice([-5, -3, -2, -1, 1, 2, 3, 4, 7])

    for _ in range(cfg['n']):
        k1, c1, k2, c2, x, n = nz(), rng.randint(-6, 6), nz(), rng.randint(-6, 6), rng.randint(-5, 5), nz()
        f = Function(lambda x, k=k1, c=c1: k * x + c)
        g = Function(lambda x, k=k2, c=c2: k * x + c)
        fx, gx = k1 * x + c1, k2 * x + c2
        fs, gs = 'Function(lambda x: %d*x+%d)' % (k1, c1), 'Function(lambda x: %d*x+%d)' % (k2, c2)
        name, op = rng.choice(OPS2)
        safe = not (name in ('//', 'bi.mod') and (gx == 0 or fx == 0))
        if safe:
            check('function_binop', 'lift_binop_hom', '(%s %s %s)(%d)' % (fs, name, gs, x), lambda: op(f, g)(x), op(fx, gx))
            check('function_reflected', 'reflected_forms', '(%d %s %s)(%d)' % (n, name, fs, x), lambda: op(n, f)(x), op(n, fx))
            check('function_binop_number', 'lift_binop_hom', '(%s %s %d)(%d)' % (fs, name, n, x), lambda: op(f, n)(x), op(fx, n))
        # n-ary: plain numbers, Function instances, COMPOSED functions as bounds
        lo, hi = sorted([rng.randint(-6, 6), rng.randint(-6, 6)])
        if lo == hi:
            hi += 2
        n3, op3 = rng.choice(OPS3)
        check('narop_function_numbers', 'lift_narop_hom', '%s.%s(%d, %d)(%d)' % (fs, n3, lo, hi, x),
              lambda: getattr(f, n3)(lo, hi)(x), op3(fx, lo, hi))
        glo = Function(lambda x, lo=lo: lo)
        check('narop_function_function_arg', 'lift_narop_hom', '%s.%s(Function(lambda x: %d), %d)(%d)' % (fs, n3, lo, hi, x),
              lambda: getattr(f, n3)(glo, hi)(x), op3(fx, lo, hi))
        check('narop_function_composed_args', 'lift_narop_hom',
              '%s.%s(%s - 100, %s + 100)(%d)' % (fs, n3, gs, gs, x),
              lambda: getattr(f, n3)(g - 100, g + 100)(x), op3(fx, gx - 100, gx + 100))
        # streams / patterns: lock step, ends with the shorter
        la = [rng.randint(-6, 6) for _ in range(rng.randint(0, 4))]
        lb = [nz() for _ in range(rng.randint(0, 4))]
        want = [op(a, b) for a, b in zip(la, lb)]
        check('stream_binop_shortest', 'stream_binop_ends_with_shortest', 'list(routine_over(%s) %s routine_over(%s))' % (la, name, lb),
              lambda: list(op(routine_over(la), routine_over(lb))), want)
        check('stream_reflected', 'reflected_forms', 'list(%d %s routine_over(%s))' % (n, name, lb),
              lambda: list(op(n, routine_over(lb))), [op(n, b) for b in lb])
        if la and lb:
            check('pattern_binop_shortest', 'stream_binop_ends_with_shortest', 'list(stream(Pseq(%s) %s Pseq(%s)))' % (la, name, lb),
                  lambda: list(stream(op(Pseq(la), Pseq(lb)))), want)
            check('pattern_reflected', 'reflected_forms', 'list(stream(%d %s Pseq(%s)))' % (n, name, lb),
                  lambda: list(stream(op(n, Pseq(lb)))), [op(n, b) for b in lb])
            # lists: wrap-around, length = max
            m = max(len(la), len(lb))
            wantl = [op(la[i % len(la)], lb[i % len(lb)]) for i in range(m)]
            check('list_binop_wrap', 'list_binop_wrap_law', 'ChannelList(%s) %s ChannelList(%s)' % (la, name, lb),
                  lambda: list(op(ChannelList(la), ChannelList(lb))), wantl)
            check('list_binop_wrap_plain_left', 'list_binop_wrap_law', '%s %s ChannelList(%s)' % (la, name, lb),
                  lambda: list(op(list(la), ChannelList(lb))) if name[0] != 'b' or True else None, wantl)
        check('list_reflected', 'reflected_forms', '%d %s ChannelList(%s)' % (n, name, lb),
              lambda: list(op(n, ChannelList(lb))), [op(n, b) for b in lb])
        # operands
        b0 = nz()
        check('operand_binop', 'lift_binop_hom', '(Operand(%d) %s Rest(%d)).value' % (n, name, b0),
              lambda: op(Operand(n), Rest(b0)).value, op(n, b0))
        check('operand_reflected', 'reflected_forms', '(%d %s Operand(%d)).value' % (n, name, b0),
              lambda: op(n, Operand(b0)).value, op(n, b0))
        # builtin-function form = method form on nested operands (the evaluated operand is an object)
        u = rng.choice(['ramp', 'squared', 'sign', 'frac'])
        check('builtin_form_redispatches', 'lift_unop_hom', 'bi.%s(Operand(%s)).value(%d)' % (u, fs, x),
              lambda: getattr(bi, u)(Operand(f)).value(x), getattr(bi, u)(fx))
        # operator patterns / streams EMBEDDED in an enclosing pattern (Punop/Pnarop.__embed__,
        # Pattern.__embed__, Stream.__embed__): element i = op(next(p), next(lo), next(hi)), every operand
        # advanced once per element, whatever its kind (number, Pattern, Routine, pattern stream)
        pa = [rng.randint(-6, 6) for _ in range(rng.randint(1, 5))]
        pl = [rng.randint(-9, 0) for _ in range(rng.randint(2, 5))]
        ph = [rng.randint(1, 9) for _ in range(rng.randint(2, 5))]
        kinds = {'number': lambda l: (l[0], [l[0]] * 9, repr(l[0])),
                 'pattern': lambda l: (Pseq(l), l, 'Pseq(%s)' % l),
                 'routine': lambda l: (routine_over(l), l, 'routine_over(%s)' % l),
                 'pattern_stream': lambda l: (stream(Pseq(l)), l, 'stream(Pseq(%s))' % l)}
        klo, khi = rng.choice(sorted(kinds)), rng.choice(sorted(kinds))
        wrap = rng.choice([('Pseq([%s])', lambda c: Pseq([c])), ('Pn(%s, 1)', lambda c: Pn(c, 1)),
                           ('Pseq([Pseq([%s])])', lambda c: Pseq([Pseq([c])]))])
        first = rng.choice([('Pseq(%s)', Pseq), ('routine_over(%s)', routine_over)])

        def nar_thunk():
            lo_o, _, _ = kinds[klo](pl)
            hi_o, _, _ = kinds[khi](ph)
            return list(stream(wrap[1](getattr(first[1](pa), n3)(lo_o, hi_o))))
        _, lo_v, lo_t = kinds[klo](pl)
        _, hi_v, hi_t = kinds[khi](ph)
        check('embedded_narop_elementwise', 'embedded_narop_numbers',
              'list(stream(' + wrap[0] % ('%s.%s(%s, %s)' % (first[0] % pa, n3, lo_t, hi_t)) + '))',
              nar_thunk, [op3(a, l, h) for a, l, h in zip(pa, lo_v, hi_v)])
        kb = rng.choice(sorted(kinds))

        def bin_thunk():
            b_o, _, _ = kinds[kb](lb or [1])
            return list(stream(wrap[1](op(first[1](pa), b_o))))
        _, b_v, b_t = kinds[kb](lb or [1])
        if name not in ('//', 'bi.mod') or 0 not in b_v:
            check('embedded_binop_elementwise', 'embedded_binop',
                  'list(stream(' + wrap[0] % ('(%s %s %s)' % (first[0] % pa, name, b_t)) + '))',
                  bin_thunk, [op(a, b) for a, b in zip(pa, b_v)])
        check('embedded_unop_elementwise', 'embedded_unop', 'list(stream(' + wrap[0] % ('-%s' % (first[0] % pa)) + '))',
              lambda: list(stream(wrap[1](-first[1](pa)))), [-a for a in pa])
        # __embed__ path = __stream__ path
        check('embed_path_equals_stream_path', 'embed_eq_stream',
              'list(stream(Pseq([c]))) == list(stream(c)) for c = Pseq(%s).%s(routine_over(%s), Pseq(%s))' % (pa, n3, pl, ph),
              lambda: list(stream(Pseq([getattr(Pseq(pa), n3)(routine_over(pl), Pseq(ph))]))),
              list(stream(getattr(Pseq(pa), n3)(routine_over(pl), Pseq(ph)))))
        # composed functions CALLED WITH KEYWORD ARGUMENTS: every operand function (receiver, right operand,
        # every extra n-ary operand, reflected forms) must be called with the same arguments, each keeping
        # the keywords it declares.  Expected values come from the raw lambdas called with hand-filtered arguments.
        d0, q0, x0 = rng.randint(1, 4), rng.randint(1, 4), rng.randint(0, 3)
        sig_raw = lambda x, depth=d0: x * depth + 1
        lo_raw = lambda x=x0, depth=1, q=q0: -depth - q - abs(x)
        hi_raw = lambda depth=2, x=0: abs(x) + 2 * depth + 1
        sig, lof, hif = Function(sig_raw), Function(lo_raw), Function(hi_raw)
        xv, dv, rv = rng.randint(-9, 9), rng.randint(1, 6), rng.randint(-3, 3)
        src = ('sig=Function(lambda x, depth=%d: x*depth+1); lo=Function(lambda x=%d, depth=1, q=%d: -depth-q-abs(x)); '
               'hi=Function(lambda depth=2, x=0: abs(x)+2*depth+1); ' % (d0, x0, q0))
        for ctext, call, svals in (
                ('(x=%d, depth=%d, rate=%d)' % (xv, dv, rv), lambda f: f(x=xv, depth=dv, rate=rv),
                 (sig_raw(x=xv, depth=dv), lo_raw(x=xv, depth=dv), hi_raw(x=xv, depth=dv))),
                ('(x=%d)' % xv, lambda f: f(x=xv), (sig_raw(x=xv), lo_raw(x=xv), hi_raw(x=xv))),
                ('(%d, depth=%d)' % (xv, dv), lambda f: f(xv, depth=dv),
                 (sig_raw(xv, depth=dv), lo_raw(xv, depth=dv), None))):
            sv, lv, hv = svals
            if hv is not None:
                check('kwcall_narop', 'keyword_call_narop', src + 'sig.%s(lo, hi)%s' % (n3, ctext),
                      lambda: call(getattr(sig, n3)(lof, hif)), op3(sv, lv, hv))
                check('kwcall_narop_composed_args', 'keyword_call_narop', src + 'sig.%s(lo - 1, hi + 1)%s' % (n3, ctext),
                      lambda: call(getattr(sig, n3)(lof - 1, hif + 1)), op3(sv, lv - 1, hv + 1))
                check('kwcall_narop_builtin_form', 'keyword_call_narop', src + 'bi.%s(sig, lo, hi)%s' % (n3, ctext),
                      lambda: call(op3(sig, lof, hif)), op3(sv, lv, hv))
                check('kwcall_nested', 'keyword_call_narop', src + '((sig + lo) * 2).%s(lo, hi)%s' % (n3, ctext),
                      lambda: call(getattr((sig + lof) * 2, n3)(lof, hif)), op3((sv + lv) * 2, lv, hv))
            if not (name in ('//', 'bi.mod') and (lv == 0 or sv == 0)):
                check('kwcall_binop', 'keyword_call_binop', src + '(sig %s lo)%s' % (name, ctext), lambda: call(op(sig, lof)), op(sv, lv))
                check('kwcall_reflected', 'keyword_call_binop', src + '(%d %s lo)%s' % (n, name, ctext), lambda: call(op(n, lof)), op(n, lv))
            check('kwcall_unop', 'keyword_call_unop', src + '(-(sig - lo))%s' % ctext, lambda: call(-(sig - lof)), -(sv - lv))
    # keep one (the first) example per law
    seen, out = set(), []
    for b in bad:
        if b['law'] not in seen:
            seen.add(b['law'])
            out.append(b)
    json.dump({'bad': out, 'probes': probes[0]}, open(sys.argv[2], 'w'))


main()
