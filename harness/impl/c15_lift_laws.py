"""C15 lifting half -- independent probe of the lifting laws on the REAL library.

No model involved: the composed object's evaluation is compared with the numeric operator
applied to the separately evaluated operands (computed here with the plain number functions).
Input {'seed': int, 'n': int}; output {'bad': [{'law', 'theorem', 'expr', 'got', 'want'}], 'probes': N}.
Only small ints are used, so every comparison is exact.
"""
import inspect, json, operator, os, random, re, sys

import sc3
sc3.init(os.environ.get('SC3_MODE', 'nrt'))
import sc3.base.main
import sc3.base.builtins as bi
from sc3.base.functions import Function
from sc3.base.stream import Routine, stream
from sc3.seq.patterns.listpatterns import Pseq
from sc3.seq.patterns.filterpatterns import Pn
from sc3.seq.patterns.funcpatterns import Pfunc
from sc3.synth.ugen import ChannelList
from sc3.base.operand import Operand
from sc3.seq.event import Rest

OPS2 = [('+', operator.add), ('-', operator.sub), ('*', operator.mul), ('//', operator.floordiv),
        ('<', operator.lt), ('bi.mod', bi.mod), ('bi.min', bi.min), ('bi.max', bi.max), ('bi.absdif', bi.absdif),
        ('bi.difsqr', bi.difsqr), ('bi.ring1', bi.ring1), ('bi.thresh', bi.thresh)]
OPS3 = [('clip', bi.clip), ('wrap', bi.wrap), ('fold', bi.fold)]


def routine_over(lst):
    def gen():
        for i in lst:
            yield i
    return Routine(gen)


def main():
    cfg = json.load(open(sys.argv[1]))
    rng = random.Random(cfg['seed'])
    bad, probes = [], [0]

    def check(law, theorem, expr, thunk, want):
        probes[0] += 1
        try:
            got = thunk()
        except Exception as e:
            got = 'raises %s: %s' % (type(e).__name__, e)
        if got != want or type(got) is not type(want):
            bad.append({'law': law, 'theorem': theorem, 'expr': expr, 'got': repr(got), 'want': repr(want)})

    def nz():
        return rng.choice([-5, -3, -2, -1, 1, 2, 3, 4, 7])

    for _ in range(cfg['n']):
        k1, c1, k2, c2, x, n = nz(), rng.randint(-6, 6), nz(), rng.randint(-6, 6), rng.randint(-5, 5), nz()
        f = Function(lambda x, k=k1, c=c1: k * x + c)
        g = Function(lambda x, k=k2, c=c2: k * x + c)
        fx, gx = k1 * x + c1, k2 * x + c2
        fs, gs = 'Function(lambda x: %d*x+%d)' % (k1, c1), 'Function(lambda x: %d*x+%d)' % (k2, c2)
        name, op = rng.choice(OPS2)
        safe = not (name in ('//', 'bi.mod') and (gx == 0 or fx == 0))
        if safe:
            check('function_binop', 'lift_binop_hom', '(%s %s %s)(%d)' % (fs, name, gs, x), lambda: op(f, g)(x), op(fx, gx))
            check('function_reflected', 'reflected_forms', '(%d %s %s)(%d)' % (n, name, fs, x), lambda: op(n, f)(x), op(n, fx))
            check('function_binop_number', 'lift_binop_hom', '(%s %s %d)(%d)' % (fs, name, n, x), lambda: op(f, n)(x), op(fx, n))
        # n-ary: plain numbers, Function instances, COMPOSED functions as bounds
        lo, hi = sorted([rng.randint(-6, 6), rng.randint(-6, 6)])
        if lo == hi:
            hi += 2
        n3, op3 = rng.choice(OPS3)
        check('narop_function_numbers', 'lift_narop_hom', '%s.%s(%d, %d)(%d)' % (fs, n3, lo, hi, x),
              lambda: getattr(f, n3)(lo, hi)(x), op3(fx, lo, hi))
        glo = Function(lambda x, lo=lo: lo)
        check('narop_function_function_arg', 'lift_narop_hom', '%s.%s(Function(lambda x: %d), %d)(%d)' % (fs, n3, lo, hi, x),
              lambda: getattr(f, n3)(glo, hi)(x), op3(fx, lo, hi))
        check('narop_function_composed_args', 'lift_narop_hom',
              '%s.%s(%s - 100, %s + 100)(%d)' % (fs, n3, gs, gs, x),
              lambda: getattr(f, n3)(g - 100, g + 100)(x), op3(fx, gx - 100, gx + 100))
        # streams / patterns: lock step, ends with the shorter
        la = [rng.randint(-6, 6) for _ in range(rng.randint(0, 4))]
        lb = [nz() for _ in range(rng.randint(0, 4))]
        want = [op(a, b) for a, b in zip(la, lb)]
        check('stream_binop_shortest', 'stream_binop_ends_with_shortest', 'list(routine_over(%s) %s routine_over(%s))' % (la, name, lb),
              lambda: list(op(routine_over(la), routine_over(lb))), want)
        check('stream_reflected', 'reflected_forms', 'list(%d %s routine_over(%s))' % (n, name, lb),
              lambda: list(op(n, routine_over(lb))), [op(n, b) for b in lb])
        if la and lb:
            check('pattern_binop_shortest', 'stream_binop_ends_with_shortest', 'list(stream(Pseq(%s) %s Pseq(%s)))' % (la, name, lb),
                  lambda: list(stream(op(Pseq(la), Pseq(lb)))), want)
            check('pattern_reflected', 'reflected_forms', 'list(stream(%d %s Pseq(%s)))' % (n, name, lb),
                  lambda: list(stream(op(n, Pseq(lb)))), [op(n, b) for b in lb])
            # lists: wrap-around, length = max
            m = max(len(la), len(lb))
            wantl = [op(la[i % len(la)], lb[i % len(lb)]) for i in range(m)]
            check('list_binop_wrap', 'list_binop_wrap_law', 'ChannelList(%s) %s ChannelList(%s)' % (la, name, lb),
                  lambda: list(op(ChannelList(la), ChannelList(lb))), wantl)
            check('list_binop_wrap_plain_left', 'list_binop_wrap_law', '%s %s ChannelList(%s)' % (la, name, lb),
                  lambda: list(op(list(la), ChannelList(lb))) if name[0] != 'b' or True else None, wantl)
        check('list_reflected', 'reflected_forms', '%d %s ChannelList(%s)' % (n, name, lb),
              lambda: list(op(n, ChannelList(lb))), [op(n, b) for b in lb])
        # operands
        b0 = nz()
        check('operand_binop', 'lift_binop_hom', '(Operand(%d) %s Rest(%d)).value' % (n, name, b0),
              lambda: op(Operand(n), Rest(b0)).value, op(n, b0))
        check('operand_reflected', 'reflected_forms', '(%d %s Operand(%d)).value' % (n, name, b0),
              lambda: op(n, Operand(b0)).value, op(n, b0))
        # builtin-function form = method form on nested operands (the evaluated operand is an object)
        u = rng.choice(['ramp', 'squared', 'sign', 'frac'])
        check('builtin_form_redispatches', 'lift_unop_hom', 'bi.%s(Operand(%s)).value(%d)' % (u, fs, x),
              lambda: getattr(bi, u)(Operand(f)).value(x), getattr(bi, u)(fx))
        # operator patterns / streams EMBEDDED in an enclosing pattern (Punop/Pnarop.__embed__,
        # Pattern.__embed__, Stream.__embed__): element i = op(next(p), next(lo), next(hi)), every operand
        # advanced once per element, whatever its kind (number, Pattern, Routine, pattern stream)
        pa = [rng.randint(-6, 6) for _ in range(rng.randint(1, 5))]
        pl = [rng.randint(-9, 0) for _ in range(rng.randint(2, 5))]
        ph = [rng.randint(1, 9) for _ in range(rng.randint(2, 5))]
        kinds = {'number': lambda l: (l[0], [l[0]] * 9, repr(l[0])),
                 'pattern': lambda l: (Pseq(l), l, 'Pseq(%s)' % l),
                 'routine': lambda l: (routine_over(l), l, 'routine_over(%s)' % l),
                 'pattern_stream': lambda l: (stream(Pseq(l)), l, 'stream(Pseq(%s))' % l)}
        klo, khi = rng.choice(sorted(kinds)), rng.choice(sorted(kinds))
        wrap = rng.choice([('Pseq([%s])', lambda c: Pseq([c])), ('Pn(%s, 1)', lambda c: Pn(c, 1)),
                           ('Pseq([Pseq([%s])])', lambda c: Pseq([Pseq([c])]))])
        first = rng.choice([('Pseq(%s)', Pseq), ('routine_over(%s)', routine_over)])

        def nar_thunk():
            lo_o, _, _ = kinds[klo](pl)
            hi_o, _, _ = kinds[khi](ph)
            return list(stream(wrap[1](getattr(first[1](pa), n3)(lo_o, hi_o))))
        _, lo_v, lo_t = kinds[klo](pl)
        _, hi_v, hi_t = kinds[khi](ph)
        check('embedded_narop_elementwise', 'embedded_narop_numbers',
              'list(stream(' + wrap[0] % ('%s.%s(%s, %s)' % (first[0] % pa, n3, lo_t, hi_t)) + '))',
              nar_thunk, [op3(a, l, h) for a, l, h in zip(pa, lo_v, hi_v)])
        kb = rng.choice(sorted(kinds))

        def bin_thunk():
            b_o, _, _ = kinds[kb](lb or [1])
            return list(stream(wrap[1](op(first[1](pa), b_o))))
        _, b_v, b_t = kinds[kb](lb or [1])
        if name not in ('//', 'bi.mod') or 0 not in b_v:
            check('embedded_binop_elementwise', 'embedded_binop',
                  'list(stream(' + wrap[0] % ('(%s %s %s)' % (first[0] % pa, name, b_t)) + '))',
                  bin_thunk, [op(a, b) for a, b in zip(pa, b_v)])
        check('embedded_unop_elementwise', 'embedded_unop', 'list(stream(' + wrap[0] % ('-%s' % (first[0] % pa)) + '))',
              lambda: list(stream(wrap[1](-first[1](pa)))), [-a for a in pa])
        # __embed__ path = __stream__ path
        check('embed_path_equals_stream_path', 'embed_eq_stream',
              'list(stream(Pseq([c]))) == list(stream(c)) for c = Pseq(%s).%s(routine_over(%s), Pseq(%s))' % (pa, n3, pl, ph),
              lambda: list(stream(Pseq([getattr(Pseq(pa), n3)(routine_over(pl), Pseq(ph))]))),
              list(stream(getattr(Pseq(pa), n3)(routine_over(pl), Pseq(ph)))))
        # composed functions CALLED WITH KEYWORD ARGUMENTS: every operand function (receiver, right operand,
        # every extra n-ary operand, reflected forms) must be called with the same arguments, each keeping
        # the keywords it declares.  Expected values come from the raw lambdas called with hand-filtered arguments.
        d0, q0, x0 = rng.randint(1, 4), rng.randint(1, 4), rng.randint(0, 3)
        sig_raw = lambda x, depth=d0: x * depth + 1
        lo_raw = lambda x=x0, depth=1, q=q0: -depth - q - abs(x)
        hi_raw = lambda depth=2, x=0: abs(x) + 2 * depth + 1
        sig, lof, hif = Function(sig_raw), Function(lo_raw), Function(hi_raw)
        xv, dv, rv = rng.randint(-9, 9), rng.randint(1, 6), rng.randint(-3, 3)
        src = ('sig=Function(lambda x, depth=%d: x*depth+1); lo=Function(lambda x=%d, depth=1, q=%d: -depth-q-abs(x)); '
               'hi=Function(lambda depth=2, x=0: abs(x)+2*depth+1); ' % (d0, x0, q0))
        for ctext, call, svals in (
                ('(x=%d, depth=%d, rate=%d)' % (xv, dv, rv), lambda f: f(x=xv, depth=dv, rate=rv),
                 (sig_raw(x=xv, depth=dv), lo_raw(x=xv, depth=dv), hi_raw(x=xv, depth=dv))),
                ('(x=%d)' % xv, lambda f: f(x=xv), (sig_raw(x=xv), lo_raw(x=xv), hi_raw(x=xv))),
                ('(%d, depth=%d)' % (xv, dv), lambda f: f(xv, depth=dv),
                 (sig_raw(xv, depth=dv), lo_raw(xv, depth=dv), None))):
            sv, lv, hv = svals
            if hv is not None:
                check('kwcall_narop', 'keyword_call_narop', src + 'sig.%s(lo, hi)%s' % (n3, ctext),
                      lambda: call(getattr(sig, n3)(lof, hif)), op3(sv, lv, hv))
                check('kwcall_narop_composed_args', 'keyword_call_narop', src + 'sig.%s(lo - 1, hi + 1)%s' % (n3, ctext),
                      lambda: call(getattr(sig, n3)(lof - 1, hif + 1)), op3(sv, lv - 1, hv + 1))
                check('kwcall_narop_builtin_form', 'keyword_call_narop', src + 'bi.%s(sig, lo, hi)%s' % (n3, ctext),
                      lambda: call(op3(sig, lof, hif)), op3(sv, lv, hv))
                check('kwcall_nested', 'keyword_call_narop', src + '((sig + lo) * 2).%s(lo, hi)%s' % (n3, ctext),
                      lambda: call(getattr((sig + lof) * 2, n3)(lof, hif)), op3((sv + lv) * 2, lv, hv))
            if not (name in ('//', 'bi.mod') and (lv == 0 or sv == 0)):
                check('kwcall_binop', 'keyword_call_binop', src + '(sig %s lo)%s' % (name, ctext), lambda: call(op(sig, lof)), op(sv, lv))
                check('kwcall_reflected', 'keyword_call_binop', src + '(%d %s lo)%s' % (n, name, ctext), lambda: call(op(n, lof)), op(n, lv))
            check('kwcall_unop', 'keyword_call_unop', src + '(-(sig - lo))%s' % ctext, lambda: call(-(sig - lof)), -(sv - lv))
        # ---- bug-class review probes -------------------------------------------------------------
        # (1) falsy values are values: a stream / pattern / function yielding 0, 0.0, False, None, '', []
        #     is not exhausted and is not replaced by a default
        vals = [0, None, False, 0.0, '', [], 5]
        rng.shuffle(vals)
        check('falsy_stream_items', 'stream_binop_value', 'list(routine_over(%r) == 0)' % (vals,),
              lambda: list(routine_over(vals) == 0), [v == 0 for v in vals])
        check('falsy_stream_items_reflected', 'reflected_forms', 'list(0 != routine_over(%r))' % (vals,),
              lambda: list(0 != routine_over(vals)), [0 != v for v in vals])
        check('falsy_pattern_items', 'pattern_binop_numbers', 'list(stream(Pseq(%r) != 0))' % (vals,),
              lambda: list(stream(Pseq(vals) != 0)), [v != 0 for v in vals])
        check('falsy_pattern_items_embedded', 'embedded_binop', 'list(stream(Pseq([Pseq(%r) == 0])))' % (vals,),
              lambda: list(stream(Pseq([Pseq(vals) == 0]))), [v == 0 for v in vals])
        zs = [0, False, 0.0, 3, -0.0]
        check('falsy_unop_stream', 'lift_unop_hom', 'list(-routine_over(%r))' % (zs,),
              lambda: [repr(v) for v in -routine_over(zs)], [repr(-v) for v in zs])
        check('falsy_narop_stream', 'embedded_narop', 'list(routine_over(%r).clip(routine_over([0, 0, 0, 0, 0]), 1))' % (zs,),
              lambda: [repr(v) for v in routine_over(zs).clip(routine_over([0, 0, 0, 0, 0]), 1)], [repr(bi.clip(v, 0, 1)) for v in zs])
        for zv in (0, 0.0, False, None):
            fz = Function(lambda x, zv=zv: zv)
            check('falsy_function_result', 'lift_binop_hom', '(Function(lambda x: %r) == 0)(1), (0 == f)(1)' % (zv,),
                  lambda: ((fz == 0)(1), (0 == fz)(1), (fz != None)(1)), (zv == 0, 0 == zv, zv != None))
        check('falsy_operand', 'operand_binop_hom', '(Operand(0) + 0).value, (0 - Rest(0)).value, (Rest(0) * 5).value',
              lambda: (repr((Operand(0) + 0).value), repr((0 - Rest(0)).value), repr((Rest(0.0) * 5).value), type(Rest(0) * 5).__name__),
              ('0', '0', '0.0', 'Rest'))
        check('falsy_list_items', 'list_binop_wrap_law', 'ChannelList([0, False, 0.0]) + ChannelList([0])',
              lambda: [repr(v) for v in ChannelList([0, False, 0.0]) + ChannelList([0])], ['0', '0', '0.0'])

        # (2) an operand that raises: the composite raises the same exception, the thread state is restored
        #     and the next, unrelated evaluation is correct
        class Boom(BaseException):
            pass

        def check_raises(law, expr, exc, thunk):
            def run():
                try:
                    thunk()
                    got = 'no exception'
                except BaseException as e:
                    got = type(e).__name__
                main = sc3.base.main.main
                return (got, main.current_tt is main.main_tt, list(routine_over([1, 2]) + 1), (f + 1)(x))
            check(law, 'lift_binop_hom', expr, run, (exc.__name__, True, [2, 3], fx + 1))
        for exc in (KeyError, Boom):
            def boom(x, exc=exc):
                raise exc('boom')
            ferr = Function(boom)

            def gen_err():
                yield 1
                raise exc('boom')
            check_raises('raising_function_operand', '(f + Function(boom))(x) raises %s' % exc.__name__, exc, lambda: (f + ferr)(x))
            check_raises('raising_function_operand_reflected', '(2 - Function(boom))(x) raises %s' % exc.__name__, exc, lambda: (2 - ferr)(x))
            check_raises('raising_function_narop_operand', 'f.clip(Function(boom), 9)(x) raises %s' % exc.__name__, exc,
                         lambda: f.clip(ferr, 9)(x))
            check_raises('raising_stream_operand', 'list(routine_over([1,2,3]) + Routine(yield 1; raise %s))' % exc.__name__, exc,
                         lambda: list(routine_over([1, 2, 3]) + Routine(gen_err)))
            check_raises('raising_stream_operand_first', 'list(Routine(yield 1; raise %s) * routine_over([1,2,3]))' % exc.__name__, exc,
                         lambda: list(Routine(gen_err) * routine_over([1, 2, 3])))
            check_raises('raising_stream_narop_operand', 'list(routine_over([1,2,3]).clip(0, Routine(yield 1; raise)))', exc,
                         lambda: list(routine_over([1, 2, 3]).clip(0, Routine(gen_err))))
            check_raises('raising_pattern_embedded', 'list(stream(Pseq([Pseq([1,2,3]) + Routine(yield 1; raise)])))', exc,
                         lambda: list(stream(Pseq([Pseq([1, 2, 3]) + Routine(gen_err)]))))

        # (4) no cached operand values, no consumed or mutated operands
        comp = getattr(f, n3)(g - 2, g + 2)       # tight bounds: a stale bound changes the result
        xs3 = (x, x + 3, x - 5, x)
        check('function_evaluated_twice', 'lift_narop_hom', 'c = %s.%s(%s - 2, %s + 2); [c(v) for v in %s]' % (fs, n3, gs, gs, list(xs3)),
              lambda: [comp(v) for v in xs3],
              [op3(k1 * v + c1, k2 * v + c2 - 2, k2 * v + c2 + 2) for v in xs3])
        compb = (f - g) * g
        check('function_binop_evaluated_twice', 'lift_binop_hom', 'c = (f - g) * g; [c(v) for v in %s]' % (list(xs3),),
              lambda: [compb(v) for v in xs3], [((k1 * v + c1) - (k2 * v + c2)) * (k2 * v + c2) for v in xs3])
        pc = Pseq([getattr(Pseq(pa), n3)(Pseq(pl), Pseq(ph))])
        wantp = [op3(a, l, h) for a, l, h in zip(pa, pl, ph)]
        check('pattern_streamed_twice', 'embed_eq_stream', 'p = Pseq([Pseq(%s).%s(Pseq(%s), Pseq(%s))]); list(stream(p)) twice' % (pa, n3, pl, ph),
              lambda: (list(stream(pc)), list(stream(pc))), (wantp, wantp))
        check('same_function_both_operands', 'lift_binop_hom', '(f - f)(x), f.clip(f, f)(x), (f * f)(x)',
              lambda: ((f - f)(x), f.clip(f, f)(x), (f * f)(x)), (0, fx, fx * fx))
        # one Routine used as both operands: it is advanced once per operand, the LEFT operand first
        rr = [rng.randint(-9, 9) for _ in range(rng.randint(0, 7))]

        def shared_sub():
            r = routine_over(rr)
            return list(r - r)
        check('shared_routine_left_first', 'stream_binop_ends_with_shortest', 'r = routine_over(%s); list(r - r)' % rr,
              shared_sub, [rr[i] - rr[i + 1] for i in range(0, len(rr) - 1, 2)])

        def shared_nar():
            r = routine_over(rr)
            return list(r.clip(r, r))
        check('shared_routine_narop_order', 'embedded_narop', 'r = routine_over(%s); list(r.clip(r, r))' % rr,
              shared_nar, [bi.clip(rr[i], rr[i + 1], rr[i + 2]) for i in range(0, len(rr) - 2, 3)])

        def args_kept():
            c = f.clip(g, 7)
            before = [id(a) for a in c.args]
            c(x), c(x)
            s = routine_over([1, 2, 3]).clip(Pseq([0, 0, 0]), 2)
            sb = [id(a) for a in s.args]
            list(s)
            return (before == [id(a) for a in c.args], len(c.args), sb == [id(a) for a in s.args], len(s.args))
        check('narop_args_not_mutated', 'lift_narop_hom', 'c = f.clip(g, 7); c(x); c.args unchanged; NaropStream.args unchanged',
              args_kept, (True, 2, True, 2))

        def lists_kept():
            inner = [2, 3]
            a, b = [1, inner, (4,)], (10, [20, 30])
            r1 = ChannelList(a) * b
            r2 = bi.squared(ChannelList(a))
            return (a, inner, b, list(r1), list(r2))
        check('caller_lists_not_mutated', 'list_binop_wrap_law', 'a=[1,[2,3],(4,)]; b=(10,[20,30]); ChannelList(a)*b; bi.squared(ChannelList(a))',
              lists_kept, ([1, [2, 3], (4,)], [2, 3], (10, [20, 30]), [10, [40, 90], (40,)], [1, [4, 9], (16,)]))

        # (6)/(7) the four forms agree on non-commutative operators, operand order kept
        for nm, mth, bif, pyop in (('sub', None, None, operator.sub), ('mod', None, bi.mod, operator.mod),
                                   ('ring3', 'ring3', bi.ring3, None), ('excess', 'excess', bi.excess, None),
                                   ('difsqr', 'difsqr', bi.difsqr, None), ('thresh', 'thresh', bi.thresh, None)):
            kern = bif or pyop
            if nm == 'mod' and (gx == 0 or fx == 0 or n == 0):
                continue
            forms = {}
            if pyop:
                forms['operator'] = lambda: (pyop(f, g)(x), pyop(n, g)(x), pyop(f, n)(x))
            if mth:
                forms['method'] = lambda: (getattr(f, mth)(g)(x), None, getattr(f, mth)(n)(x))
            if bif:
                forms['builtin'] = lambda: (bif(f, g)(x), bif(n, g)(x), bif(f, n)(x))
            for form, th in forms.items():
                want = (kern(fx, gx), None if form == 'method' else kern(n, gx), kern(fx, n))
                check('forms_agree_%s' % form, 'reflected_forms', '%s as %s on (f, g), (%d, g), (f, %d) at x=%d' % (nm, form, n, n, x), th, want)
        check('reflected_pow', 'reflected_forms', '(%d ** f)(x), (f ** 2)(x), (2 >= f)(x), (f >= 2)(x)' % n,
              lambda: ((n ** f)(x), (f ** 2)(x), (2 >= f)(x), (f >= 2)(x)), (n ** fx, fx ** 2, 2 >= fx, fx >= 2))
        check('narop_argument_order', 'lift_narop_hom', 'f.wrap(lo, hi) vs f.wrap(hi, lo); f.fold; blend(a, b, frac)',
              lambda: (f.wrap(lo, hi)(x), f.fold(lo, hi)(x), f.blend(g, 0.25)(x), g.blend(f, 0.25)(x)),
              (bi.wrap(fx, lo, hi), bi.fold(fx, lo, hi), bi.blend(fx, gx, 0.25), bi.blend(gx, fx, 0.25)))
        # default second argument supplied by the wrapper / method / dunder
        check('default_second_argument', 'lift_binop_hom', 'bi.round(f)(x), f.round()(x), round(f)(x), f.trunc()(x), f.roundup()(x), f.max()(x)',
              lambda: (bi.round(f)(x), f.round()(x), round(f)(x), bi.trunc(f)(x), f.trunc()(x), f.roundup()(x), f.max()(x)),
              (bi.round(fx, 1), bi.round(fx, 1), bi.round(fx, 1), bi.trunc(fx, 1), bi.trunc(fx, 1), bi.roundup(fx, 1), bi.max(fx, 0)))
        # ChannelList METHOD forms (clip/fold/wrap/blend are overridden: flop over the channels and every argument):
        # as many channels as the longest of receiver and arguments, each taken with wrap-around
        cx = [rng.randint(-9, 9) for _ in range(rng.randint(1, 4))]
        cl = [rng.randint(-9, 0) for _ in range(rng.randint(1, 4))]
        ch = [rng.randint(1, 9) for _ in range(rng.randint(1, 4))]
        mlen = max(len(cx), len(cl), len(ch))
        check('chan_method_wrap', 'chan_method_narop_wrap_law', 'list(ChannelList(%s).%s(%s, %s))' % (cx, n3, cl, ch),
              lambda: list(getattr(ChannelList(cx), n3)(cl, ch)),
              [op3(cx[i % len(cx)], cl[i % len(cl)], ch[i % len(ch)]) for i in range(mlen)])
        check('chan_method_scalar_args', 'chan_method_narop_wrap_law', 'list(ChannelList(%s).%s(%d, %s))' % (cx, n3, cl[0], ch),
              lambda: list(getattr(ChannelList(cx), n3)(cl[0], ChannelList(ch))),
              [op3(cx[i % len(cx)], cl[0], ch[i % len(ch)]) for i in range(max(len(cx), len(ch)))])
        check('chan_method_defaults', 'chan_method_narop_wrap_law', 'list(ChannelList(%s).%s()), .blend(%s)' % (cx, n3, ch),
              lambda: (list(getattr(ChannelList(cx), n3)()), list(ChannelList(cx).blend(ch))),
              ([op3(v, 0.0, 1.0) for v in cx], [bi.blend(cx[i % len(cx)], ch[i % len(ch)], 0.5) for i in range(max(len(cx), len(ch)))]))
        check('chan_method_equals_builtin_form', 'chan_method_narop_wrap_law', 'ChannelList(%s).%s(%d, %d) == bi.%s(ChannelList, ..)' % (cx, n3, cl[0], ch[0], n3),
              lambda: list(getattr(ChannelList(cx), n3)(cl[0], ch[0])), list(op3(ChannelList(cx), cl[0], ch[0])))

        # next(inval): the value passed to next() reaches every operand, for every element, direct or embedded
        invs = [rng.randint(-9, 9) for _ in range(rng.randint(2, 6))]
        kk, cc2 = nz(), rng.randint(-5, 5)
        mk_id = lambda: Pfunc(lambda v: v)
        mk_lin = lambda: Pfunc(lambda v: kk * v + cc2)
        padn = [rng.randint(-3, 3) for _ in range(rng.randint(0, 2))]
        wraps = [('%s', lambda c: c, 0), ('Pseq([%s])', lambda c: Pseq([c]), 0), ('Pn(%s, 1)', lambda c: Pn(c, 1), 0),
                 ('Pseq([Pseq(%s), %%s])' % padn if padn else 'Pseq([%s])', (lambda c: Pseq([Pseq(padn), c])) if padn else (lambda c: Pseq([c])), len(padn))]
        wt, wf, woff = rng.choice(wraps)

        def feed(p):
            st = stream(p)
            return [st.next(v) for v in invs]
        tail = invs[woff:]
        pre = padn[:len(invs)] if woff else []
        check('inval_unop', 'inval_unop_embedded', 'feed %s to %s, ident = Pfunc(lambda v: v)' % (invs, wt % '(-ident)'),
              lambda: feed(wf(-mk_id())), pre + [-v for v in tail])
        if not (name in ('//', 'bi.mod') and any(kk * v + cc2 == 0 or v == 0 for v in invs)):
            check('inval_binop', 'inval_binop', 'feed %s to %s, lin = Pfunc(lambda v: %d*v+%d)' % (invs, wt % ('(ident %s lin)' % name), kk, cc2),
                  lambda: feed(wf(op(mk_id(), mk_lin()))), pre + [op(v, kk * v + cc2) for v in tail])
            check('inval_binop_reflected', 'inval_binop', 'feed %s to %s' % (invs, wt % ('(%d %s lin)' % (n, name))),
                  lambda: feed(wf(op(n, mk_lin()))), pre + [op(n, kk * v + cc2) for v in tail])
        check('inval_narop', 'inval_narop_embedded', 'feed %s to %s' % (invs, wt % ('ident.%s(%d, lin)' % (n3, lo))),
              lambda: feed(wf(getattr(mk_id(), n3)(lo, mk_lin()))), pre + [op3(v, lo, kk * v + cc2) for v in tail])
        check('inval_stream_classes', 'inval_binop', 'feed %s to (stream(ident) - stream(lin)), (-stream(ident))' % invs,
              lambda: (feed(stream(mk_id()) - stream(mk_lin())), feed(-stream(mk_id()))),
              ([v - (kk * v + cc2) for v in invs], [-v for v in invs]))
        # EVERY n-ary method of AbstractObject (discovered from the source), on every receiver kind, with its
        # optional arguments at default AND non-default values (positional and keyword): the composite equals
        # the builtin applied per element with the SAME arguments; ChannelList method form (per-number adapter
        # UGenScalar.<name>) = builtin-function form = per-element call.  Same float computation on both sides.
        from sc3.base.absobject import AbstractObject
        src_abs = inspect.getsource(AbstractObject)
        nary = re.findall(r"def (\w+)\(self,[^)]*\):\s+return self\._compose_narop\(\s*bi\.(\w+)", src_abs)
        mname, kname = rng.choice(nary)
        kern = getattr(bi, kname)
        sig = inspect.signature(getattr(AbstractObject, mname))
        req = [p for p in list(sig.parameters.values())[1:] if p.default is inspect.Parameter.empty]
        opt = [p for p in list(sig.parameters.values())[1:] if p.default is not inspect.Parameter.empty]
        base_vals = {'lo': 1.5, 'hi': 10.0, 'other': 3.0, 'inmin': 1.0, 'inmax': 10.0, 'outmin': 2.0, 'outmax': 100.0,
                     'incenter': 4.0, 'outcenter': 20.0}
        rargs = [base_vals.get(p.name, 2.5) for p in req]
        okw = {}
        for p in opt:
            if rng.random() < 0.75:
                if p.name == 'clip':
                    okw[p.name] = rng.choice(['minmax', 'min', 'max', None])
                elif p.name == 'curve':
                    okw[p.name] = rng.choice([-4, -2.0, 3, 0.0])
                else:
                    okw[p.name] = rng.choice([0.25, 0.5, 2.0])
        as_pos = rng.random() < 0.5 and len(okw) == len(opt)       # all optional given -> may also be positional
        xs_f = [0.5, 20.0, 4.0, 1.0, 10.0, float(rng.randint(2, 9)) + 0.5]
        rng.shuffle(xs_f)

        def one(v):
            try:
                return kern(v, *rargs, *[okw[p.name] for p in opt]) if as_pos else \
                    kern(v, *rargs, *[okw.get(p.name, p.default) for p in opt])
            except Exception as e:
                return 'raises ' + type(e).__name__

        def call_m(recv):
            if as_pos:
                return getattr(recv, mname)(*rargs, *[okw[p.name] for p in opt])
            return getattr(recv, mname)(*rargs, **okw)

        def guard(th):
            def run():
                try:
                    return th()
                except Exception as e:
                    return 'raises ' + type(e).__name__
            return run
        wantl = [one(v) for v in xs_f]
        anyraise = next((w for w in wantl if isinstance(w, str)), None)
        desc = '%s(%s%s)' % (mname, ', '.join(map(repr, rargs)), ''.join(', %s=%r' % kv for kv in okw.items()))
        want_all = anyraise if anyraise else wantl
        check('narop_optional_args_chan_method', 'chan_method_narop_wrap_law', 'list(ChannelList(%s).%s)' % (xs_f, desc),
              guard(lambda: list(call_m(ChannelList(xs_f)))), want_all)
        check('narop_optional_args_chan_builtin', 'lift_narop_hom', 'list(bi.%s(ChannelList(%s), ...)) as %s' % (kname, xs_f, desc),
              guard(lambda: list(kern(ChannelList(xs_f), *rargs, *[okw.get(p.name, p.default) for p in opt]))), want_all)
        fq = Function(lambda v: v)
        check('narop_optional_args_function', 'lift_narop_hom', '[Function(lambda v: v).%s(v) for v in %s]' % (desc, xs_f),
              guard(lambda: [guard(lambda v=v: call_m(fq)(v))() for v in xs_f]), wantl)
        check('narop_optional_args_stream', 'embedded_narop', 'list(routine_over(%s).%s)' % (xs_f, desc),
              guard(lambda: list(call_m(routine_over(xs_f)))), want_all)
        check('narop_optional_args_pattern', 'embedded_narop', 'list(stream(Pseq([Pseq(%s).%s])))' % (xs_f, desc),
              guard(lambda: list(stream(Pseq([call_m(Pseq(xs_f))])))), want_all)
        check('narop_optional_args_operand', 'lift_narop_hom', '[Operand(v).%s.value for v in %s]' % (desc, xs_f),
              guard(lambda: [guard(lambda v=v: call_m(Operand(v)).value)() for v in xs_f]), wantl)
        # operand ALIASING: the IDENTICAL object on both sides of a binary operator / in several argument positions of
        # an n-ary one, directly and embedded: each occurrence is an independent stream of the same blueprint
        al = [rng.randint(-6, 6) for _ in range(rng.randint(1, 6))]
        pal = Pseq(al)
        qal = pal + 10                                        # a composite used twice
        okdiv = not (name in ('//', 'bi.mod') and (0 in al or -10 in al))
        if okdiv:
            check('alias_pattern_binop', 'pattern_binop_numbers', 'p = Pseq(%s); list(stream(p %s p)), q = p + 10; list(stream(q %s q))' % (al, name, name),
                  lambda: (list(stream(op(pal, pal))), list(stream(op(qal, qal)))),
                  ([op(v, v) for v in al], [op(v + 10, v + 10) for v in al]))
            check('alias_pattern_binop_embedded', 'embedded_binop', 'p = Pseq(%s); list(stream(Pseq([p %s p]))), list(stream(Pn(p %s p, 2)))' % (al, name, name),
                  lambda: (list(stream(Pseq([op(pal, pal)]))), list(stream(Pn(op(pal, pal), 2)))),
                  ([op(v, v) for v in al], [op(v, v) for v in al] * 2))
        check('alias_pattern_narop', 'embedded_narop', 'p = Pseq(%s); list(stream(p.%s(p - 1, p + 1))), list(stream(Pseq([p.%s(p, p)])))' % (al, n3, n3),
              lambda: (list(stream(getattr(pal, n3)(pal - 1, pal + 1))), list(stream(Pseq([getattr(pal, n3)(pal, pal)])))),
              ([op3(v, v - 1, v + 1) for v in al], [op3(v, v, v) for v in al]))
        check('alias_pattern_unop_of_shared', 'embedded_unop', 'p = Pseq(%s); list(stream((-p) - (-p))) with one -p object' % (al,),
              lambda: (lambda m: list(stream(m - m)))(-pal), [0 for _ in al])
        cal = ChannelList(al)
        if okdiv:
            check('alias_list_and_operand', 'chan_binop_wrap_law', 'c = ChannelList(%s); list(c %s c); o = Operand(%d); (o %s o).value' % (al, name, n, name),
                  lambda: (list(op(cal, cal)), op(Operand(n), Operand(n)).value if name not in ('<',) else None,
                           (lambda o: op(o, o).value)(Operand(n))),
                  ([op(v, v) for v in al], op(n, n) if name not in ('<',) else None, op(n, n)))
        check('alias_function_narop', 'lift_narop_hom', 'f.%s(f, f)(x), (f %s f)(x)' % (n3, '-'),
              lambda: (getattr(f, n3)(f, f)(x), (f - f)(x), ((f + 1) * (f + 1))(x)), (op3(fx, fx, fx), 0, (fx + 1) * (fx + 1)))
        # the same Pfunc on both sides sees the same input once per element
        idp = Pfunc(lambda v: v)
        check('alias_inval_operand', 'inval_binop', 'i = Pfunc(lambda v: v); feed %s to Pseq([i * i])' % invs,
              lambda: feed(Pseq([idp * idp])), [v * v for v in invs])
    # keep one (the first) example per law
    seen, out = set(), []
    for b in bad:
        if b['law'] not in seen:
            seen.add(b['law'])
            out.append(b)
    json.dump({'bad': out, 'probes': probes[0]}, open(sys.argv[2], 'w'))


main()
