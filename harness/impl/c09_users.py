"""Drive the INDIRECT users of TaskQueue on the real library, in one NRT process:
clock tasks on SystemClock / TempoClocks through main._clock_scheduler (sched, re-sched while
pending, tempo / beats changes -> retime, main.reset() after aborted histories), OscScore filled
from inside routines, Ppar streams.  Scenario encodings: harness/oracles/c09_users_ref.py.

in : {'scenarios': [scenario, ...]}     out: {'out': [result | {'error': text}, ...]}
"""
import json, logging, math, struct, sys, warnings
from fractions import Fraction as Fr
warnings.simplefilter('ignore')
logging.disable(logging.CRITICAL)
import sc3
sc3.init('nrt')
from sc3.base.main import main
from sc3.base.clock import SystemClock, TempoClock
from sc3.base.functions import Function
from sc3.base.stream import Routine
from sc3.base import stream as stm
from sc3.base.netaddr import NetAddr


def now():
    return main.current_tt._seconds


def fstr(t):
    """exact text of a float; nan / inf (a corrupted queue) are reported, not raised"""
    return str(Fr(t)) if t == t and abs(t) != float('inf') else repr(float(t))


def num(x):
    """'i:2' int, 'z:0' float -0.0, otherwise the float of a Fraction string: explicit zeros of every kind"""
    if x in ('inf', 'nan'): return float(x)          # a task answering inf or nan is never rescheduled
    if x.startswith('i:'): return int(x[2:])
    if x.startswith('z:'): return -0.0
    return float(Fr(x))


class Boom(BaseException):        # not an Exception: ClockTask._wakeup does not catch it
    pass


def run_clock(sc):
    main.reset()
    clocks = {-1: SystemClock}
    for i, t in enumerate(sc['clocks']):
        clocks[i] = TempoClock(float(Fr(t)))
    specs = sc['tasks']
    log, objs, stale = [], [None] * len(specs), []

    def beats_of(c):
        return now() if c is SystemClock else c.beats

    def act(a):
        if a[0] == 'sched':
            clocks[specs[a[1]]['clock']].sched(num(a[2]), objs[a[1]])
        elif a[0] == 'abs':
            c = clocks[specs[a[1]]['clock']]
            c.sched_abs(math.floor(beats_of(c)) + num(a[2]), objs[a[1]])
        elif a[0] == 'tempo':
            clocks[a[1]].tempo = num(a[2])
        elif a[0] == 'beats':
            c = clocks[a[1]]
            c.beats = c.beats - num(a[2])

    def make(j, spec):
        steps = spec['steps']

        def one(k):
            log.append([j, fstr(now())])
            # two sites: the position of a pending wake-up in the queue vs the beat its entry carries
            for e in list(main._clock_scheduler.queue._queue):
                ct = e[2]
                if hasattr(ct, 'beats') and hasattr(ct, 'clock') and e[0] != ct.clock.beats2secs(ct.beats):
                    who = next((i for i, o in enumerate(objs) if o is ct.task), -1)
                    stale.append([who, fstr(e[0]), fstr(ct.clock.beats2secs(ct.beats)), len(log) - 1])
            for a in steps[k]['acts']:
                act(a)
            r = steps[k]['ret']
            if r == 'raise':
                raise RuntimeError('task %d' % j)
            if r == 'raiseB':
                raise Boom('task %d' % j)
            return None if r is None else num(r)
        if spec['type'] == 'R':
            def body():
                for k in range(len(steps)):
                    r = one(k)
                    if r is None:
                        return
                    yield r
            return Routine(body)
        cnt = [0]

        def fn():
            k = cnt[0]
            if k >= len(steps):
                return None
            cnt[0] += 1
            return one(k)
        return Function(fn)

    for j, spec in enumerate(specs):
        objs[j] = make(j, spec)
    for a in sc['init']:
        act(a)
    if sc.get('abort'):                       # leave the scheduler dirty; the next scenario resets
        return {'log': [], 'left': 0}
    for _ in range(200):                      # a BaseException leaves run(); the rest must still be there
        try:
            main.process()
            break
        except Boom:
            pass
    R = type(main._clock_scheduler.queue)._REMOVED
    left = sum(1 for e in main._clock_scheduler.queue._queue if e[2] is not R)
    return {'log': log, 'left': left, 'stale': stale[:3]}


def mark(b):
    m = b[1]
    return m[3] if m[0] == '/n_set' else m[0]


def raw_entries(raw):
    # [int32 size]['#bundle\0'][int64 timetag][int32 size][message] ...
    res, i = [], 0
    while i < len(raw):
        size = struct.unpack('>i', raw[i:i + 4])[0]
        dgram = bytes(raw[i + 4:i + 4 + size])
        tt = struct.unpack('>Q', dgram[8:16])[0]
        addr = dgram[20:dgram.index(b'\0', 20)].decode()
        res.append([str(Fr(tt, 2 ** 32)), struct.unpack('>i', dgram[-4:])[0] if addr == '/n_set' else addr])
        i += 4 + size
    return res


def run_score(sc):
    main.reset()
    addr = NetAddr('127.0.0.1', 57110)
    specs = sc['tasks']

    msgs = {}                                 # the SAME message object is sent again when an id repeats

    def bundle(a):
        m = msgs.setdefault(a[2], ['/n_set', 1, 'k', a[2]])
        addr.send_bundle(None if a[1] is None else num(a[1]), m)

    def make(spec):
        def body():
            for st in spec['steps']:
                for a in st['acts']:
                    bundle(a)
                if st['ret'] is None:
                    return
                yield num(st['ret'])
        return Routine(body)
    objs = [make(s) for s in specs]
    for a in sc['init']:
        if a[0] == 'play':
            SystemClock.sched(num(a[2]), objs[a[1]])
        else:
            bundle(a)
    score = main.process(num(sc['tail']))
    return {'list': [[str(Fr(b[0])), mark(b)] for b in score.list], 'raw': raw_entries(score.raw),
            'mutated': [i for i, m in msgs.items() if m != ['/n_set', 1, 'k', i]]}


def run_sched(sc):
    """The real ClockScheduler driven directly with stand-in ClockTasks (attributes clock, task, beats, _wakeup):
    init ops, then run(); the k-th wake-up performs chunk k.  Returns the FLAT history over the alphabet of
    coq/model/ClockSched.v (with the values beats2secs returned during each retime), its outputs and the final state."""
    from sc3.base.clock import ClockScheduler
    sch = ClockScheduler()

    class Clock:
        def __init__(self, cid):
            self.cid, self.mul, self.off, self.seen = cid, Fr(1), Fr(0), None

        def beats2secs(self, beats):
            v = float(Fr(beats) * self.mul + self.off)
            return v
    class Task:
        pass
    clocks, tasks = {}, {}
    ops, outs, chunks = [], [], [list(c) for c in sc['chunks']]

    class CT:
        def __init__(self, i, cid, tid):
            self.i = i
            self.clock = clocks.setdefault(cid, Clock(cid))
            self.task = tasks.setdefault(tid, Task())
            self.beats = 0.0

        def _wakeup(self, time):
            ops.append(['step']); outs.append(['T', str(Fr(time)), self.i])
            for o in (chunks.pop(0) if chunks else []):
                do(o)
    cts = {i + 1: CT(i + 1, c, t) for i, (c, t) in enumerate(sc['cts'])}
    R = type(sch.queue)._REMOVED

    def do(o):
        if o[0] == 'add':
            ct = cts[o[2]]
            ct.beats = float(Fr(o[1]))
            sch.add(ct.clock.beats2secs(ct.beats), ct)
            ops.append(['add', str(Fr(ct.clock.beats2secs(ct.beats))), o[2]]); outs.append(['N'])
        elif o[0] == 'retime':
            clk = clocks.setdefault(o[1], Clock(o[1]))
            clk.mul, clk.off = Fr(o[2]), Fr(o[3])
            sch.retime(clk)
            f = [[i, str(Fr(ct.clock.beats2secs(ct.beats)))] for i, ct in cts.items() if ct.clock is clk]
            ops.append(['retime', o[1], f]); outs.append(['N'])
        elif o[0] == 'reset':
            sch.reset(); ops.append(['reset']); outs.append(['N'])
        else:
            ops.append(['iter']); outs.append(['L', [[str(Fr(p)), ct.i] for p, ct in list(sch.queue)]])
    for o in sc['init']:
        do(o)
    sch.run()
    ops.append(['step']); outs.append(['B', True])            # the loop condition failed: run() returned
    q = sch.queue
    import copy
    st = [len(q._queue), int(q._removed_counter), int(next(copy.copy(q._counter))), sum(1 for e in q._queue if e[2] is R)]
    for ct, e in sorted(((ct.i, e) for ct, e in q._entry_finder.items())):
        st += [ct, int(e[1])]
    for e in sorted((e for e in q._queue if e[2] is not R), key=lambda e: (e[0], e[1])):
        st += [int(e[1]), e[2].i]
    for cid, tid, i in sorted((ct.clock.cid, [k for k, v in tasks.items() if v is ct.task][0], ct.i) for ct in sch._pending.values()):
        st += [cid, tid, i]
    keys_ok = all(k == (id(ct.clock), id(ct.task)) for k, ct in sch._pending.items())
    return {'ops': ops, 'outs': outs, 'state': st if keys_ok else None}


def run_shutdown(sc):
    """The real Process._shutdown on a fresh exit-action queue: registrations, then shutdown; the k-th action that
    runs performs chunk k on main._atexitq (register / move / unregister actions, look at the queue)."""
    from sc3.base.main import Process
    saved = Process._atexitq
    q = type(saved)()
    Process._atexitq = q
    order, chunks, acts = [], [list(c) for c in sc['chunks']], {}

    def act(i):
        if i not in acts:
            def f():
                order.append(i)
                for o in (chunks.pop(0) if chunks else []):
                    do(o)
            acts[i] = f
        return acts[i]

    def do(o):
        if o[0] == 'add': main._atexitq.add(int(o[1]), act(o[2]))
        elif o[0] == 'remove': main._atexitq.remove(act(o[1]))
        elif o[0] == 'peek':
            try: main._atexitq.peek(bool(o[1]))
            except KeyError: pass
        elif o[0] == 'empty': main._atexitq.empty()
        else: list(main._atexitq)
    try:
        for o in sc['init']:
            do(o)
        main._shutdown()
        return {'order': order, 'empty': bool(q.empty()), 'left': len(list(q))}
    finally:
        Process._atexitq = saved


def ppar_tree(sc):
    """old encoding {'streams': [durs, ...]} = one Ppar of Pbinds"""
    return sc['tree'] if 'tree' in sc else ['par', [['bind', i, d] for i, d in enumerate(sc['streams'])]]


def run_ppar(sc):
    """Streams of ONE pattern object: the tree is built once (['ref', k] = the SAME python object again, also twice
    inside one Ppar), nstreams streams are made from the root object and read in the interleaving 'order'."""
    from sc3.seq import event as evt
    from sc3.seq.patterns.eventpatterns import Pbind, Ppar
    from sc3.seq.patterns.listpatterns import Pseq
    main.reset()
    shared = {}

    def build(node):
        if node[0] == 'bind':
            return Pbind({'sid': node[1], 'k': Pseq(list(range(len(node[2])))), 'dur': Pseq([num(x) for x in node[2]])})
        if node[0] == 'ref':
            if node[1] not in shared:
                shared[node[1]] = build(sc['shared'][node[1]])
            return shared[node[1]]
        return Ppar(*[build(c) for c in node[1]])
    root = build(ppar_tree(sc))
    n = sc.get('nstreams', 1)
    streams = [stm.stream(root) for _ in range(n)]
    t, out, done = [Fr(0)] * n, [[] for _ in range(n)], [False] * n

    def read(i):
        if done[i]:
            return
        try:
            ev = streams[i].next(evt.event())
        except stm.StopStream:
            done[i] = True
            return
        if not evt.is_rest(ev):
            out[i].append([ev['sid'], ev['k'], str(t[i])])
        d = ev('delta') if callable(ev) else ev['delta']
        t[i] += Fr(float(d))
    for i in sc.get('order', []):
        read(i)
    for _ in range(3000):                    # then everybody to the end, round robin
        if all(done):
            break
        for i in range(n):
            read(i)
    return {'events': out if 'tree' in sc or n > 1 else out[0], 'ended': all(done)}


def main_():
    spec = json.load(open(sys.argv[1]))
    out = []
    for sc in spec['scenarios']:
        try:
            out.append({'clock': run_clock, 'score': run_score, 'ppar': run_ppar, 'sched': run_sched, 'shutdown': run_shutdown}[sc['kind']](sc))
        except BaseException as e:          # never let one scenario kill the run
            out.append({'error': '%s: %s' % (type(e).__name__, e)})
    try:
        main.reset()
    except Exception:
        pass
    json.dump({'out': out}, open(sys.argv[2], 'w'))


main_()
