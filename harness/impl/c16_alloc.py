"""C16: run histories on the REAL sc3.synth._engine.ContiguousBlockAllocator / NodeIDAllocator.

payload: {'cases': [{'size','pos','off','ops': [['a', n, r] | ['f', addr]]}], 'node': [{'user','init','start','count'}]}
For each case the output is the list of per-op entries
    [code, ret, top, cells, freed, choice, alias_ok]
code: 0 = None returned (or free), 1 = address returned, 2 IndexError, 3 AttributeError, 9 other exception
cells: [[index, start, size, used]] for the non-None entries of _array
freed: [[size, sorted starts]] in dict (insertion) order
choice: start address bi.choice returned during this op (None if it was not called)
alias_ok: every object in _freed IS the object stored in _array at its start address, and is not used
The library's random tie-break bi.choice is replaced by a deterministic recorded choice:
candidates sorted by start, element number r mod len."""
import json, sys, types
import sc3.synth._engine as eng
import sc3.base.builtins as real_bi


class Chooser:
    def __init__(self):
        self.r = 0
        self.last = None
        self.calls = 0

    def __call__(self, lst):
        lst = sorted(lst, key=lambda b: (b.start, b.size))
        x = lst[self.r % len(lst)]
        self.last = x.start
        self.calls += 1
        return x


class BiProxy:
    def __init__(self, chooser):
        self.choice = chooser

    def __getattr__(self, name):
        return getattr(real_bi, name)


CH = Chooser()
eng.bi = BiProxy(CH)


def observe(a):
    cells = [[i, b.start, b.size, bool(b.used)] for i, b in enumerate(a._array) if b is not None]
    freed = [[int(k), sorted(b.start for b in s)] for k, s in a._freed.items()]
    alias = True
    for k, s in a._freed.items():
        if len(set(b.start for b in s)) != len(s):
            alias = False
        for b in s:
            j = b.start - a.addr_offset
            if not (0 <= j < len(a._array)) or a._array[j] is not b or b.used or b.size != k:
                alias = False
    return a.top, cells, freed, alias


def code_of(e):
    if isinstance(e, IndexError):
        return 2
    if isinstance(e, AttributeError):
        return 3
    return 9


def run_case(c):
    """ops: ['a', n, r] | ['f', addr] | ['fl', j] (free the j-th live address) | ['fd'] (free the last freed address again).
    Returns (concrete ops, entries)."""
    out, ops = [], []
    try:
        a = eng.ContiguousBlockAllocator(c['size'], c['pos'], c['off'])
    except Exception as e:
        return [], [[code_of(e), 0, 0, [], [], None, True, 'init:' + type(e).__name__]]
    live, last_freed, got = [], None, []
    for op in c['ops']:
        CH.last = None
        if op[0] == 'fi':
            if op[1] >= len(got) or got[op[1]] is None:
                continue
            op = ['f', got[op[1]]]
            if op[1] in live:
                live.remove(op[1])
        if op[0] == 'fl':
            if not live:
                continue
            op = ['f', live.pop(op[1] % len(live))]
        elif op[0] == 'fd':
            if last_freed is None:
                continue
            op = ['f', last_freed]
        try:
            if op[0] == 'a':
                CH.r = op[2]
                r = a.alloc(op[1])
                got.append(r)
                if r is not None:
                    live.append(r)
            else:
                r = a.free(op[1])
                last_freed = op[1]
        except Exception as e:
            ops.append(op)
            out.append([code_of(e), 0, 0, [], [], CH.last, True, type(e).__name__])
            break
        ops.append(op)
        top, cells, freed, alias = observe(a)
        out.append([0 if r is None else 1, 0 if r is None else r, top, cells, freed, CH.last, alias])
    return ops, out


def run_node(c):
    try:
        n = eng.NodeIDAllocator(c['user'], c['init'])
    except Exception as e:
        return {'err': type(e).__name__}
    res = {'num_ids': n.num_ids, 'id_offset': n.id_offset(), 'mask': n._mask, 'temp0': n._temp}
    if c.get('start') is not None:
        n._temp = c['start']
    ids = []
    try:
        for _ in range(c['count']):
            ids.append(n.alloc())
    except Exception as e:
        res['err'] = type(e).__name__
    res['ids'] = ids
    res['temp'] = n._temp
    if c.get('reset'):
        n.reset()
        res['after_reset'] = [n._temp, n._mask, n.alloc()]
    return res


def run_reserve_case(c):
    """ops: ['a', n, r] | ['f', addr] | ['r', addr, n].  A raise ends the history; the observation is taken anyway."""
    out, ops = [], []
    a = eng.ContiguousBlockAllocator(c['size'], c['pos'], c['off'])
    for op in c['ops']:
        CH.last = None
        code, val, name = 0, 0, None
        try:
            if op[0] == 'a':
                CH.r = op[2]
                r = a.alloc(op[1])
                code, val = (0, 0) if r is None else (1, r)
            elif op[0] == 'f':
                a.free(op[1])
            else:
                r = a.reserve(op[1], op[2], False)
                code, val = (0, 0) if r is None else (1, r.start)
        except Exception as e:
            code, name = code_of(e), type(e).__name__
        try:
            top, cells, freed, alias = observe(a)
        except Exception:
            top, cells, freed, alias = 0, [], [], False
        ops.append(op)
        out.append([code, val, top, cells, freed, CH.last, alias, name])
        if code >= 2:
            break
    return ops, out


def probe_reserve_corruption():
    """Public reserve() on the start of a live block whose predecessor is live (D4)."""
    a = eng.ContiguousBlockAllocator(8)
    CH.r = 0
    x, y = a.alloc(2), a.alloc(2)
    try:
        r = a.reserve(2, 1, False)
        exc = None
    except Exception as e:
        r, exc = None, type(e).__name__
    pred = a._array[0]
    pred_used = bool(pred is not None and pred.used)
    again = a.alloc(2)
    return {'allocs': [x, y], 'reserve_result': None if r is None else [r.start, r.size], 'exception': exc,
            'predecessor_still_used': pred_used, 'next_alloc': again,
            'corrupts': again == 0}


def run_multi_case(c):
    """Several allocators alive at the same time (the partitions of one index space), interleaved ops
    ['a', client, n, r] | ['fl', client, j] | ['f', client, addr].  Returns per client (concrete ops, entries)."""
    allocs = [eng.ContiguousBlockAllocator(*p) for p in c['params']]
    logs = [([], []) for _ in allocs]
    lives = [[] for _ in allocs]
    for op in c['ops']:
        k = op[1]
        a = allocs[k]
        CH.last = None
        try:
            if op[0] == 'a':
                CH.r = op[3]
                r = a.alloc(op[2])
                if r is not None:
                    lives[k].append(r)
                cop = ['a', op[2], op[3]]
            else:
                if op[0] == 'fl':
                    if not lives[k]:
                        continue
                    addr = lives[k].pop(op[2] % len(lives[k]))
                else:
                    addr = op[2]
                r = a.free(addr)
                cop = ['f', addr]
        except Exception as e:
            logs[k][0].append(op[:1] + op[2:])
            logs[k][1].append([code_of(e), 0, 0, [], [], CH.last, True, type(e).__name__])
            break
        logs[k][0].append(cop)
        top, cells, freed, alias = observe(a)
        logs[k][1].append([0 if r is None else 1, 0 if r is None else r, top, cells, freed, CH.last, alias])
        # nothing may be shared between allocator instances
        for j, b in enumerate(allocs):
            if j != k and (b._array is a._array or b._freed is a._freed):
                logs[k][1][-1][6] = False
    return logs


def probe_foreign_free():
    """free(addr) of an address that does NOT belong to this allocator's partition (e.g. a hardware bus, another
    client's bus) must not free one of its live blocks.  Returns the scenarios in which it does."""
    bad = []
    for size, pos, off in ((4, 0, 4), (8, 1, 8), (16, 0, 32), (6, 2, 3)):
        for back in (1, 2, 3):
            if back >= size - pos or back > off:
                continue
            foreign = off - back                 # below the partition: relative index -back
            ops = [['a', size - pos - back, 0], ['a', back, 0], ['f', foreign], ['a', back, 0]]
            try:
                a = eng.ContiguousBlockAllocator(size, pos, off)
                first = a.alloc(size - pos - back)
                last = a.alloc(back)             # starts at relative index size - back
                try:
                    a.free(foreign)
                    exc = None
                except Exception as e:
                    exc = type(e).__name__
                again = a.alloc(back)
            except Exception as e:               # alloc/alloc/free/alloc of the alphabet must not raise
                bad.append({'size': size, 'pos': pos, 'off': off, 'ops': ops, 'returned': [], 'exception': type(e).__name__,
                            'why': 'an operation of the history raised %s: %s' % (type(e).__name__, e)})
                continue
            if again is not None and again == last:
                bad.append({'size': size, 'pos': pos, 'off': off, 'ops': ops, 'returned': [first, last, None, again], 'exception': exc,
                            'why': 'free(%d) -- an address below the partition [%d,%d) -- freed the live block [%d,%d); the next alloc(%d) '
                                   'returned %d again, overlapping it' % (foreign, off + pos, off + size, last, last + back, back, again)})
    return bad


def main():
    p = json.load(open(sys.argv[1]))
    rc = [run_case(c) for c in p.get('cases', [])]
    out = {'cases': [x[1] for x in rc], 'ops': [x[0] for x in rc],
           'node': [run_node(c) for c in p.get('node', [])],
           'foreign': probe_foreign_free() if p.get('probe_foreign') else []}
    def safe(f, c, dflt):
        try:
            return f(c)
        except Exception as e:
            return dflt
    rr = [safe(run_reserve_case, c, ([], [])) for c in p.get('reserve_cases', [])]
    out['reserve_ops'] = [x[0] for x in rr]
    out['reserve_cases'] = [x[1] for x in rr]
    out['multi'] = [safe(run_multi_case, c, []) for c in p.get('multi_cases', [])]
    if p.get('probe_reserve'):
        try:
            out['reserve_probe'] = probe_reserve_corruption()
        except Exception as e:
            out['reserve_probe'] = {'error': '%s: %s' % (type(e).__name__, e), 'corrupts': False}
    json.dump(out, open(sys.argv[2], 'w'))


main()
