"""C20: build scenarios written directly in Python (outside the `prog` language of c01_lib): graph functions
using SynthDef.wrap, build arguments (rates / variants / metadata objects SHARED between builds), explicit
falsy values, fan-out, many units and constants -- and builds failing at every point of SynthDef._build.

good(): [(name, build)]           build() -> SynthDef; every call must give the same bytes, in every phase,
                                  thread, process, hash seed and mode.
fails(): [(name, build, expect)]  build() must raise; `expect` = 'raises' (anything) -- what is checked is the
                                  state afterwards (context, lock, outside units, class-level state, the bytes
                                  of the next good builds).
Import only after sc3.init()."""
import sys
import sc3.synth.ugen as ugn
from sc3.synth.synthdef import SynthDef
from sc3.synth.ugens.inout import Out, In
from sc3.synth.ugens.oscillators import SinOsc
from sc3.synth.ugens.foscillators import Saw
from sc3.synth.ugens.filter import LPF
from sc3.synth.ugens.line import Line
from sc3.synth.ugens.noise import WhiteNoise


class BuildError(Exception):
    pass


class BuildBase(BaseException):
    """A user-defined BaseException that is not an Exception."""


# build arguments shared by every build that uses them (aliasing between builds)
RATES = [0.1]
RATES4 = [0, None, 0.0, 0.25]
VARIANTS = {'low': {'freq': 110}, 'zero': {'freq': 0, 'amp': 0.0}}
META = {'specs': {}}
PREPEND_BOX = []


# plain data living OUTSIDE the graph functions that use it (module level): a build may read it, never change it
LEVELS = [0, 1, 0.5, 0.25]
TIMES = [0.1, 0.2, 0.3, 0.4]
CURVES = [-4, 'lin', 2, 'sin']
PAIRS = [[0.5, 1], [0, 0], [1, 0.3]]
XYC = [[0.5, 1, -2], [0, 0, 'lin'], [1, 0.3, 'lin']]
FREQS = [440, 441.5, 0, 330]
NESTED = [[100, 200], [300, 400]]


def shared_args_state():
    return repr((RATES, RATES4, VARIANTS, META, LEVELS, TIMES, CURVES, PAIRS, XYC, FREQS, NESTED))


# ---- user-defined unit generator classes (defined once, at import time)
class VerifPlain(ugn.UGen):
    @classmethod
    def ar(cls, a=0.0):
        return cls._multi_new('audio', a)


class VerifOptRaises(ugn.UGen):
    @classmethod
    def ar(cls, a=0.0):
        return cls._multi_new('audio', a)

    def _optimize_graph(self):
        raise BuildError('optimiser step raises')


class VerifCheckFails(ugn.UGen):
    @classmethod
    def ar(cls, a=0.0):
        return cls._multi_new('audio', a)

    def _check_inputs(self):
        return 'verif: inputs rejected'


class VerifConstRaises(ugn.UGen):
    @classmethod
    def ar(cls, a=0.0):
        return cls._multi_new('audio', a)

    def _collect_constants(self):
        raise BuildError('constant collection raises')


class VerifOptBase(ugn.UGen):
    @classmethod
    def ar(cls, a=0.0):
        return cls._multi_new('audio', a)

    def _optimize_graph(self):
        raise BuildBase('optimiser step raises a BaseException')


# ---------------------------------------------------------------------------
def _f_wrap(freq=440, amp=0.1):
    def inner(cut=300, q=2):
        return LPF.ar(Saw.ar(freq), cut) * q
    sig = SynthDef.wrap(inner)
    Out.ar(0, sig * amp)


def _f_wrap_prepend(freq=220, bus=0):
    s = Saw.ar(freq)
    sig = SynthDef.wrap(lambda x, mul=0.5, add=0: x * mul + add, prepend=[s])
    sig2 = SynthDef.wrap(lambda x, y, z=3: (x + y) * z, [0.2], [sig, s])
    Out.ar(bus, [sig, sig2])


def _f_three(freq=440, amp=0.1, pan=0):
    Out.ar(0, SinOsc.ar(freq, pan) * amp)


def _f_four(a=0, b=0.0, c=-0.0, d=1):
    Out.kr(0, [SinOsc.kr(a, b) + c, Line.kr(0, 0, 0, 0) * d])


def _f_fanout():
    s = Saw.ar(100)
    n = WhiteNoise.ar()
    for i in range(12):
        Out.ar(i, s * (i + 2) + n)
    Out.ar(20, [LPF.ar(s, 100 * (k + 1)) for k in range(9)])


def _f_fanout_shared():
    # many independent readers of one unit, each read again by two others
    s = SinOsc.ar(3)
    xs = [s * (k + 2) for k in range(10)]
    ys = [x + s for x in xs] + [x - s for x in reversed(xs)]
    Out.ar(0, ys)


def _f_big():
    xs = [Saw.ar(10 + 3 * k) * (k + 2) / 7 for k in range(300)]
    Out.ar(0, ugn.ChannelList(xs).sum())


def _f_mce():
    Out.ar(0, SinOsc.ar([440, 441, 442], [0, 0.0, -0.0]) * [0.1, 0.2, 0.3])


def _f_falsy():
    x = In.ar(0, 1)
    y = In.kr(0, 2)
    Out.ar(0, [SinOsc.ar(0, 0) * x, Saw.ar(0) + 0, (x * 1) - 0, x * y[0] * 0 + x, 0 - x, x / 1])
    Out.kr(0, y[1] * 0.0)


def _f_rates_annot(t: 'tr' = 0, a: 'ar' = 0, i: 'ir' = 0, k: 'kr' = 0, z=0):
    Out.ar(0, SinOsc.ar(i + k) * a * t + z)


def _f_empty():
    return None


def _f_const_only():
    return 0


def _f_user_ugen():
    Out.ar(0, VerifPlain.ar(0) + VerifPlain.ar(300))


def _f_env_fft():
    from sc3.synth.envelope import Env
    from sc3.synth.ugens.envgen import EnvGen
    from sc3.synth.ugens.bufio import LocalBuf
    from sc3.synth.ugens.fft import FFT, IFFT
    e = EnvGen.kr(Env.adsr(), 1)
    chain = FFT.kr(LocalBuf.new(512), Saw.ar(200))
    chain2 = FFT.kr(LocalBuf.new(256, 1), WhiteNoise.ar(), 0.5, 0, 1, 0)
    Out.ar(0, [IFFT.ar(chain) * e, IFFT.ar(chain2)])


def _f_pre(x, m=2):
    Out.ar(0, Saw.ar(x) * m)


def _build_prepend_zero(name, pre):
    """An explicit falsy prepended value (0, 0.0, [0]) is a prepended value: no control is made for x."""
    def build():
        sd = SynthDef(name, _f_pre, None, pre)
        names = [c.name for c in sd._all_control_names]
        if names != ['m'] or sd._children[1].inputs[0] != 0:
            raise SilentDrop('prepend=%r was ignored: controls %s, Saw input %r' % (pre, names, sd._children[1].inputs[0]))
        return sd
    return build


def _f_nodefault(freq, amp=0.1, cutoff=None):
    # parameters without a default: their value comes from metadata specs, when there are any
    Out.ar(0, LPF.ar(Saw.ar(freq), cutoff) * amp)


# ---- parameter objects that LIVE ACROSS builds (module level, closed over by graph functions): what a build emits
# may depend on their visible value only, never on which builds (successful or failing) or other library calls
# used them before
def _envs():
    from sc3.synth.envelope import Env
    return {'a': Env.perc(0.01, 1.0), 'b': Env.adsr(0.02, 0.3, 0.5, 1.0), 'c': Env([0, 1, 0.5, 0], [0.1, 0.2, 0.3], [-4, 'lin', 2]),
            'd': Env.perc(0.01, 1.0), 'e': Env.linen(0.1, 0.2, 0.3, 0.6)}


_ENVS = {}


def _env(k):
    if not _ENVS:
        _ENVS.update(_envs())
    return _ENVS[k]


def _envgen(e, *a):
    from sc3.synth.ugens.envgen import EnvGen
    return EnvGen.kr(e, *a)


def _f_env_range_first():        # derived copies of a long-lived Env, BEFORE the Env itself was ever formatted
    Out.kr(0, [_envgen(_env('a').range(100, 200)), _envgen(_env('a').exprange(20, 2000)), _envgen(_env('a').curverange(0, 5, 2))])


def _f_env_plain_a():            # the Env itself (this formats it)
    Out.kr(0, _envgen(_env('a'), 1, 2, 0.5))


def _f_env_plain_b():
    Out.kr(0, [_envgen(_env('b')), _envgen(_env('c'))])


def _f_env_range_later():        # derived copies AFTER the Env itself was formatted by another definition
    Out.kr(0, [_envgen(_env('b').range(-1, 1)), _envgen(_env('c').exprange(1, 10)), _envgen(_env('b').range(3, 4))])


def _f_env_curverange_interior():
    # raises the same TypeError in every history on the unmodified library (observation lincurve_pow): a build
    # that raises is an OUTCOME, compared between histories like bytes
    Out.kr(0, _envgen(_env('b').curverange(3, 4, -2)))


def _g_env_used_then_raises():
    _envgen(_env('d'))
    _envgen(_env('e'))
    raise BuildError('after formatting long-lived Env objects')


def _f_env_after_failed_use():   # derived / same Env objects that a FAILING build has formatted
    Out.kr(0, [_envgen(_env('d').range(5, 6)), _envgen(_env('e')), _envgen(_env('e').exprange(2, 3))])


def _build_env_history():
    """Same visible Env values, different history: an Env modified through its public setter after an earlier
    build used it must build like a fresh Env given the same values."""
    from sc3.synth.envelope import Env

    def make(e):
        return lambda: Out.kr(0, [_envgen(e), _envgen(e.range(1, 2))])
    fresh = Env.perc(0.01, 1.0)
    fresh.duration = 4.0
    expected = bytes(SynthDef('x_envdur', make(fresh)).as_bytes())
    used = Env.perc(0.01, 1.0)
    SynthDef('x_envearly', make(used))
    try:
        used._at(0.3)
    except Exception:
        pass
    used.duration = 4.0
    sd = SynthDef('x_envdur', make(used))
    if bytes(sd.as_bytes()) != expected:
        raise SilentDrop('an Env used by an earlier build and then given duration 4.0 builds differently from a fresh Env '
                         'with the same levels/times: constants %s' % sorted(sd._constants))
    return sd


def _f_outer_data():
    """Envelopes, channel lists and expanded constructors made from data that outlives the build."""
    from sc3.synth.envelope import Env
    e1 = Env.cyclic(LEVELS, TIMES, CURVES)
    e2 = Env(LEVELS, TIMES[:3], CURVES[:3]).circle(0.5, 'lin')
    e3 = Env(LEVELS, TIMES[:3], CURVES[:3], 2).circle()
    e4 = Env.pairs(PAIRS, 'lin')
    e5 = Env.xyc(XYC)
    s = SinOsc.ar(FREQS) * ugn.ChannelList(FREQS)
    n = ugn.ChannelList(NESTED).sum()
    Out.kr(0, [_envgen(e) for e in (e1, e2, e3, e4, e5)])
    Out.ar(0, s)
    Out.kr(9, SinOsc.kr(n))


def _g_outer_data_then_raises():
    from sc3.synth.envelope import Env
    _envgen(Env.cyclic(LEVELS, TIMES, CURVES))
    _envgen(Env(LEVELS, TIMES[:3]).circle())
    SinOsc.ar(FREQS)
    raise BuildError('after envelopes made from outer data')


def _build_function_state_history():
    """The SAME function object built again after its observable state changed (defaults, annotations, a closure
    cell, a global it reads) -- also after a failing build of it -- must build like a fresh function that has that
    state from the start."""
    box = {'fail': True, 'mul': 2}

    def make(freq_default, amp_default, annot, mul):
        cell = [mul]

        def tmpl(freq=440, amp=0.1):
            if box['fail']:
                Saw.ar(freq)
                raise BuildError('first build of the template fails')
            Out.ar(0, Saw.ar(freq) * amp * cell[0])
        tmpl.__defaults__ = (freq_default, amp_default)
        if annot:
            tmpl.__annotations__ = dict(annot)
        return tmpl, cell
    used, cell = make(440, 0.1, None, 2)
    try:
        SynthDef('x_tmpl', used)
    except BuildError:
        pass
    box['fail'] = False
    first = bytes(SynthDef('x_tmpl', used).as_bytes())
    fresh0, _ = make(440, 0.1, None, 2)
    if first != bytes(SynthDef('x_tmpl', fresh0).as_bytes()):
        raise SilentDrop('a function built after a FAILING build of the same function object differs from a fresh one')
    used.__defaults__ = (220, 0.5)
    used.__annotations__['freq'] = 'ir'
    cell[0] = 3
    sd = SynthDef('x_tmpl', used)
    fresh, _ = make(220, 0.5, {'freq': 'ir'}, 3)
    expected = SynthDef('x_tmpl', fresh)
    if bytes(sd.as_bytes()) != bytes(expected.as_bytes()):
        raise SilentDrop('the same function object rebuilt after its defaults / annotations / closure changed builds '
                         'differently from a fresh function with that state: controls %s %s, expected %s %s'
                         % ([c.name for c in sd._all_control_names], sd._controls,
                            [c.name for c in expected._all_control_names], expected._controls))
    return sd


# ---- equal-but-distinguishable values across a history: 0.0 / -0.0 (different float32 words), True / 1 / 1.0 (the same)
def _zero_def(z, one):
    def f(a=z, b=one):
        Out.kr(5, SinOsc.kr(3, z) * a + SinOsc.kr(one) * b)
    return SynthDef('x_zero', f)


def _build_signed_zero(neg_first):
    def build():
        import struct
        order = [(-0.0, True), (0.0, 1.0), (-0.0, 1), (0.0, True)] if neg_first else [(0.0, 1), (-0.0, 1.0), (0.0, True), (-0.0, 1)]
        got = {}
        for z, one in order:
            got.setdefault(struct.pack('>f', z), []).append(bytes(_zero_def(z, one).as_bytes()))
        neg, pos = got[struct.pack('>f', -0.0)], got[struct.pack('>f', 0.0)]
        if len(set(neg)) != 1 or len(set(pos)) != 1:
            raise SilentDrop('True / 1 / 1.0 as the same constant and default gave different bytes')
        a, b = neg[0], pos[0]
        diff = [(x, y) for x, y in zip(a, b) if x != y]
        if len(a) != len(b) or len(diff) != 2 or any(d != (0x80, 0x00) for d in diff):
            raise SilentDrop('a definition with the constant and default -0.0 and the same with 0.0 must differ in exactly the two '
                             'sign bits: %d differing bytes %s (which zero was written first in this process decides?)'
                             % (len(diff), diff[:4]))
        return _zero_def(-0.0, 1)
    return build


# ---- the extension registry: a type gets its UGenParameter class AFTER a build failed on it
_EXT_COUNT = [0]
_EXT_KEEP = []


def _build_extension_registry():
    import sc3.synth._graphparam as gpp
    _EXT_COUNT[0] += 1
    T = type('VerifNumber%d' % _EXT_COUNT[0], (), {'__init__': lambda self, v: setattr(self, 'v', v)})

    def f(amp=0.5):
        Out.ar(0, SinOsc.ar(T(300), T(0)) * amp)
    try:
        SynthDef('x_ext', f)
    except TypeError:
        pass
    else:
        raise SilentDrop('an input of a type without parameter class was accepted')
    # (kept alive like a class defined at module level: __subclasses__ holds weak references)
    _EXT_KEEP.append(type('UGenVerifNumber%d' % _EXT_COUNT[0], (gpp.UGenParameter,), {
        '_param_type': classmethod(lambda cls: (T,)),
        '_is_valid_ugen_input': lambda self: True,
        '_as_ugen_input': lambda self, *_: float(self._param_value.v),
        '_as_ugen_rate': lambda self: 'scalar'}))
    sd = SynthDef('x_ext', f)                       # the documented extension interface: now the type is supported

    def g(amp=0.5):
        Out.ar(0, SinOsc.ar(300.0, 0.0) * amp)
    if bytes(sd.as_bytes()) != bytes(SynthDef('x_ext', g).as_bytes()):
        raise SilentDrop('a definition using the newly supported type differs from the one written with plain numbers')
    return sd


def _plain(name, f, *a):
    """A definition built WITHOUT variants / metadata owns fresh, empty ones."""
    def build():
        sd = SynthDef(name, f, *a)
        if sd.variants != {} or sd.metadata != {}:
            raise SilentDrop('a definition built without variants/metadata has variants %r, metadata keys %r'
                             % (sd.variants, sorted(sd.metadata)))
        return sd
    return build


def use_built_definitions(defs):
    """Ordinary use of ALREADY BUILT definitions through their public interface: annotate them (variants and
    metadata are user-owned dictionaries, read lazily by as_bytes / add), serialise, describe, add to the
    library.  Nothing of this may change what later builds produce."""
    from sc3.synth.spec import spec
    log = []
    for k, sd in enumerate(defs):
        try:
            names = [c.name for c in sd._all_control_names if isinstance(c.name, str)]
            sd.variants['low%d' % (k % 3)] = {n: 110 + k for n in names[:2]} or {'freq': 110}
            sd.variants['low'] = {'freq': 55, 'amp': 0, 'cutoff': 300}
            sd.metadata['specs'] = {'freq': spec('freq'), 'cutoff': spec('freq'), 'amp': spec('amp')}
            sd.metadata['verif'] = [k]
            sd._bytes = None if hasattr(sd, '_bytes') else None
            bytes(sd.as_bytes())
            sd.dump_ugens() if False else None
            _ = (sd.name, sd.func, sd.variants, sd.metadata)
            if k % 2 == 0:
                sd.add()
            log.append('ok')
        except Exception as e:
            log.append(type(e).__name__ + ':' + str(e)[:60])
    return log


_OWNED = ('_variants', '_metadata', '_children', '_constants', '_constant_set', '_controls', '_control_names',
          '_all_control_names', '_available', '_width_first_ugens', '_callable_args')


def alias_report(defs, shared_ok=()):
    """Mutable objects owned by one definition that are the very same object in another one."""
    seen, out = {}, []
    ok = set(id(x) for x in shared_ok)
    for sd in defs:
        for a in _OWNED:
            v = getattr(sd, a, None)
            if isinstance(v, (list, dict, set)) and id(v) not in ok:
                if id(v) in seen and seen[id(v)][0] is not sd:
                    out.append('%s.%s is %s.%s' % (sd.name, a, seen[id(v)][0].name, seen[id(v)][1]))
                seen.setdefault(id(v), (sd, a))
    return out[:6]


def good():
    return [
        ('env_range_first', lambda: SynthDef('x_envr1', _f_env_range_first)),
        ('env_plain_a', lambda: SynthDef('x_enva', _f_env_plain_a)),
        ('env_plain_b', lambda: SynthDef('x_envb', _f_env_plain_b)),
        ('env_range_later', lambda: SynthDef('x_envr2', _f_env_range_later)),
        ('env_after_failed_use', lambda: SynthDef('x_envf', _f_env_after_failed_use)),
        ('env_curverange_interior', lambda: SynthDef('x_envcv', _f_env_curverange_interior)),
        ('env_setter_history', _build_env_history),
        ('outer_data', lambda: SynthDef('x_outer_data', _f_outer_data)),
        ('signed_zero_neg_first', _build_signed_zero(True)),
        ('signed_zero_pos_first', _build_signed_zero(False)),
        ('extension_registry', _build_extension_registry),
        ('function_state_history', _build_function_state_history),
        ('nodefault', _plain('x_nodef', _f_nodefault)),
        ('plain_three', _plain('x_plain3', _f_three)),
        ('plain_wrap', _plain('x_plainw', _f_wrap)),
        ('prepend_zero_list', _build_prepend_zero('x_pre0l', [0])),
        ('prepend_zero_scalar', _build_prepend_zero('x_pre0s', 0)),
        ('prepend_zero_float', _build_prepend_zero('x_pre0f', 0.0)),
        ('wrap', lambda: SynthDef('x_wrap', _f_wrap)),
        ('wrap_prepend', lambda: SynthDef('x_wrap_prepend', _f_wrap_prepend)),
        ('rates_shared', lambda: SynthDef('x_rates', _f_three, RATES)),
        ('rates_shared4', lambda: SynthDef('x_rates4', _f_four, RATES4)),
        ('variants_meta', lambda: SynthDef('x_var', _f_three, None, None, VARIANTS, META)),
        ('fanout', lambda: SynthDef('x_fanout', _f_fanout)),
        ('fanout_shared', lambda: SynthDef('x_fanout2', _f_fanout_shared)),
        ('big300', lambda: SynthDef('x_big', _f_big)),
        ('mce', lambda: SynthDef('x_mce', _f_mce)),
        ('falsy', lambda: SynthDef('x_falsy', _f_falsy)),
        ('rate_annotations', lambda: SynthDef('x_annot', _f_rates_annot, [0, 0, 0, 0.5])),
        ('empty', lambda: SynthDef('x_empty', _f_empty)),
        ('const_only', lambda: SynthDef('x_const', _f_const_only)),
        ('user_ugen', lambda: SynthDef('x_user', _f_user_ugen)),
        ('env_fft_localbuf', lambda: SynthDef('x_envfft', _f_env_fft)),
    ]


# ---------------------------------------------------------------------------
def _raise(e):
    raise e


def _units():
    return Saw.ar(3) * SinOsc.kr(2) + WhiteNoise.ar()


def _g_raise_first():
    raise BuildError('first statement')


def _g_raise_after_controls(a=1, b=0, c: 'ir' = 0):
    raise BuildError('after the controls')


def _g_raise_after_units(a=1):
    Out.ar(0, _units() * a)
    raise BuildError('after units and an output')


def _g_base_first():
    raise BuildBase('first statement')


def _g_base_after_units(a=1):
    Out.ar(0, _units() * a)
    raise BuildBase('after units')


def _g_system_exit():
    Out.ar(0, _units())
    sys.exit(3)


def _g_generator_exit():
    Out.ar(0, _units())
    raise GeneratorExit()


def _g_keyboard_interrupt():
    Out.ar(0, _units())
    raise KeyboardInterrupt()


def _g_wrap_inner_raises(freq=440):
    s = Saw.ar(freq)

    def inner(x, cut=300):
        LPF.ar(x, cut)
        raise BuildError('inside a wrapped function')
    Out.ar(0, SynthDef.wrap(inner, prepend=[s]))


def _g_wrap_inner_base(freq=440):
    s = Saw.ar(freq)
    Out.ar(0, SynthDef.wrap(lambda x, cut=300: _raise(BuildBase('inside wrap')), prepend=[s]))


def _g_wrap_nonfunction():
    Out.ar(0, SynthDef.wrap(42))


def _g_bad_annotation(a: 'xx' = 1):
    Out.ar(0, Saw.ar(a))


def _g_tuple_rank(a=((1, 2), 3)):
    Out.ar(0, Saw.ar(a))


def _g_kwonly(*, a=1):
    Out.ar(0, Saw.ar(a))


def _g_input_check():
    Out.ar(0, Saw.kr(3))


def _g_opt_raises():
    Out.ar(0, Saw.ar(3) + VerifOptRaises.ar(1))


def _g_opt_base():
    Out.ar(0, Saw.ar(3) + VerifOptBase.ar(1))


def _g_check_fails():
    Out.ar(0, Saw.ar(3) + VerifCheckFails.ar(1))


def _g_const_raises():
    Out.ar(0, Saw.ar(3) + VerifConstRaises.ar(1))


_OUTSIDE = {}


def _g_outside_ugen():
    if 'u' not in _OUTSIDE:
        raise BuildError('outside unit missing')
    Out.ar(0, _OUTSIDE['u'] * Saw.ar(2))


_FOREIGN = {}


def _g_foreign_owner():
    _FOREIGN['s'] = Saw.ar(200)
    Out.ar(0, _FOREIGN['s'])


def _g_foreign_user():
    Out.ar(0, [Saw.ar(1), Saw.ar(2), _FOREIGN['s'] * 2])


def _build_foreign():
    SynthDef('x_owner', _g_foreign_owner)
    sd = SynthDef('x_foreign', _g_foreign_user)
    # built without an error: every Out the graph function created must at least be in the definition
    outs = [u for u in sd._children if type(u).__name__ == 'Out']
    if not outs:
        raise SilentDrop('a graph function using a unit of another definition compiled without error and '
                         'without its Out: children = %s' % [type(u).__name__ for u in sd._children])
    return sd


class SilentDrop(Exception):
    """Raised by the harness (not by sc3): a build that should have failed produced a wrong definition."""


def _build_outside():
    _OUTSIDE['u'] = Saw.ar(50)          # created outside any build
    return SynthDef('x_outside', _g_outside_ugen)


def fails():
    sd = lambda n, f, *a: (lambda: SynthDef(n, f, *a))
    return [
        ('env_used_then_raises', sd('y0', _g_env_used_then_raises)),
        ('outer_data_then_raises', sd('y0b', _g_outer_data_then_raises)),
        ('raise_first', sd('y1', _g_raise_first)),
        ('raise_after_controls', sd('y2', _g_raise_after_controls)),
        ('raise_after_units', sd('y3', _g_raise_after_units)),
        ('base_first', sd('y4', _g_base_first)),
        ('base_after_units', sd('y5', _g_base_after_units)),
        ('system_exit', sd('y6', _g_system_exit)),
        ('generator_exit', sd('y7', _g_generator_exit)),
        ('keyboard_interrupt', sd('y8', _g_keyboard_interrupt)),
        ('wrap_inner_raises', sd('y9', _g_wrap_inner_raises)),
        ('wrap_inner_base', sd('y10', _g_wrap_inner_base)),
        ('wrap_nonfunction', sd('y11', _g_wrap_nonfunction)),
        ('bad_annotation', sd('y12', _g_bad_annotation)),
        ('tuple_rank', sd('y13', _g_tuple_rank)),
        ('kwonly_params', sd('y14', _g_kwonly)),
        ('not_a_function', sd('y15', 42)),
        ('input_check', sd('y16', _g_input_check)),
        ('optimiser_raises', sd('y17', _g_opt_raises)),
        ('optimiser_base', sd('y18', _g_opt_base)),
        ('check_inputs_fails', sd('y19', _g_check_fails)),
        ('collect_constants_raises', sd('y20', _g_const_raises)),
        ('rates_shared_raises', sd('y21', _g_raise_after_units, RATES)),
        ('outside_ugen_used_inside', _build_outside),
        ('foreign_ugen_used_inside', _build_foreign),
    ]


def class_state():
    """Class-level mutable attributes of the synth modules (shared by all builds)."""
    out = []
    for mn, mod in sorted(sys.modules.items()):
        if not (mn.startswith('sc3.synth.ugen') or mn in ('sc3.synth.synthdef', 'sc3.synth._graphparam')):
            continue
        for cn, c in sorted(vars(mod).items()):
            if isinstance(c, type) and c.__module__ == mn:
                for an, v in sorted(vars(c).items()):
                    if isinstance(v, (dict, list)):
                        out.append('%s.%s.%s=%r' % (mn, cn, an, v))
                    elif isinstance(v, (set, frozenset)):
                        out.append('%s.%s.%s=%s' % (mn, cn, an, sorted(map(repr, v))))
    return out
