"""Run the REAL sc3.base._taskq.TaskQueue on op histories; print canonical outputs.

in : {'cases': [{'ops': [...]}, ...]}                      (default mode)
     {'mode': 'indirect', 'atexit': [scenario, ...], 'score': [scenario, ...]}  (indirect users, see below)
out: {'out': [{'outs': [...], 'state': [...]|None}, ...]}  /  {'atexit': ..., 'score': ...}
ops : ['add', [kind, 'num/den'], tid] ['remove', tid] ['pop'] ['peek', bool] ['empty'] ['clear'] ['iter']
      prio kind: I int, F float, B bool, Q Fraction, Z float -0.0
      ['tasks', 'obj'|'odd'|'eq'] (first op only: what the task objects are)
      ['addbad', prio] ['removebad'] (unhashable task) ['iterk', k, [ops]] (k items, ops, rest of the iteration)
outs: ['N'] ['T', 'num/den', tid, tag] ['K'] ['B', bool] ['L', [['num/den', tid, tag], ...]] ['X', text]
      ['I', first, rest, inner outs, inner probes]; 'probes': after every op
      [len(_queue), _removed_counter, tombstones, len(_entry_finder), empty(), len(list(q))]
"""
import copy, json, sys
from fractions import Fraction


class Task:                       # hashable by identity, not orderable; all instances LOOK the same
    def __init__(self):
        self.label = 't'


ODD = [0, '', (), b'', None, frozenset(), 'a', (0,)]      # falsy / odd but pairwise different hashables


def make_tasks(kind):
    """(get, back): task object for an id, id of a returned task.
    'obj' identity-hashed look-alikes, 'odd' falsy values, 'eq' a FRESH but equal tuple on every use."""
    if kind == 'odd':
        return (lambda i: ODD[i]), (lambda t: next(i for i, x in enumerate(ODD) if type(x) is type(t) and x == t))
    if kind == 'eq':
        return (lambda i: ('t', i, str(i))), (lambda t: t[1])
    if kind == 'lib':
        # items whose identity / equality / hash is defined by the LIBRARY, as the clocks queue them: two distinct Function
        # wrappers of one python function, two Routines over one generator function, a bound method (fresh but equal on
        # every access) -- distinct objects are distinct items, whatever their lazy __eq__ returns
        from sc3.base.functions import Function
        from sc3.base.stream import Routine
        def f0(): return None
        def f1(): return None
        def g0(): yield 1
        def g1(): yield 1
        class Obj:
            def stop(self): pass
        o = Obj()
        objs = [Function(f0), Function(f0), Function(f1), Routine(g0), Routine(g0), None, Function(f1), Routine(g1)]
        def get(i):
            return o.stop if i == 5 else objs[i]
        def back(t):
            return 5 if isinstance(t, type(o.stop)) else next(i for i, x in enumerate(objs) if x is t)
        return get, back
    objs = [Task() for _ in range(8)]
    return objs.__getitem__, (lambda t: next(i for i, x in enumerate(objs) if x is t))


def dec_prio(a):
    k = a[0]
    if k == 'I': return int(a[1])
    if k == 'B': return bool(int(a[1]))
    if k == 'Q': return Fraction(a[1])
    if k == 'Z': return -0.0
    return float(Fraction(a[1]))


def frac(p):
    if not isinstance(p, (int, float, Fraction)):
        raise TypeError('prio %r' % (p,))
    return str(Fraction(p))


def tag(p):                       # the priority handed back must be the one handed in (type and sign included)
    return '%s:%s' % (type(p).__name__, str(p) if isinstance(p, Fraction) else repr(p))


def none(r):
    return ['N'] if r is None else ['X', repr(r)[:80]]


def run_case(TaskQueue, ops):
    q = TaskQueue()
    kind = ops[0][1] if ops and ops[0][0] == 'tasks' else 'obj'
    get, back = make_tasks(kind)
    R = TaskQueue._REMOVED

    def item(r):
        p, t = r
        return [frac(p), back(t), tag(p)]

    def probe():
        """bookkeeping seen from every side, after every op (all reads are supposed to be pure)"""
        try:
            return [len(q._queue), int(q._removed_counter), sum(1 for e in q._queue if e[2] is R),
                    len(q._entry_finder), bool(q.empty()), len(list(q))]
        except Exception as e:
            return ['X', type(e).__name__]

    def do(op):
        try:
            k = op[0]
            if k == 'tasks':
                return ['-']
            if k == 'add':
                return none(q.add(dec_prio(op[1]), get(op[2])))
            if k == 'remove':
                return none(q.remove(get(op[1])))
            if k == 'clear':
                return none(q.clear())
            if k == 'empty':
                r = q.empty()
                return ['B', r] if isinstance(r, bool) else ['X', repr(r)[:80]]
            if k == 'iter':
                return ['L', [item(x) for x in list(q)]]
            if k == 'pop':
                return ['T'] + item(q.pop())
            if k == 'peek':
                return ['T'] + item(q.peek(bool(op[1])))
            if k == 'addbad':                 # unhashable task: must raise TypeError and change nothing
                return none(q.add(dec_prio(op[1]), []))
            if k == 'removebad':
                return none(q.remove([]))
            if k == 'iterk':                  # iterate, modify in the middle, finish iterating
                it = iter(q)
                first = []
                for _ in range(op[1]):
                    try:
                        first.append(item(next(it)))
                    except StopIteration:
                        break
                inner = [(do(o), probe()) for o in op[2]]
                return ['I', first, [item(x) for x in it], [a for a, _ in inner], [b for _, b in inner]]
            return ['X', 'bad op']
        except KeyError:
            return ['K'] if op[0] in ('pop', 'peek') else ['X', 'KeyError']
        except Exception as e:
            return ['X', type(e).__name__]

    outs, probes = [], []
    for op in ops:
        outs.append(do(op))
        probes.append(probe())
    try:
        nxt = next(copy.copy(q._counter))
        live = sorted((e for e in q._queue if e[2] is not R), key=lambda e: (e[0], e[1]))
        st = [len(q._queue), int(q._removed_counter), int(nxt), sum(1 for e in q._queue if e[2] is R)]
        for t, e in sorted(((back(t), e) for t, e in q._entry_finder.items()), key=lambda x: x[0]):
            st += [t, int(e[1])]
        for e in live:
            st += [int(e[1]), back(e[2])]
    except Exception:
        st = None
    return {'outs': outs, 'probes': probes, 'state': st}


# ---- indirect users ---------------------------------------------------------------
class Act:
    def __init__(self, id, log):
        self.id, self.log = id, log

    def stop(self):               # registered as the bound method, like clock/server _stop
        self.log.append(self.id)


def run_atexit(steps):
    """steps: ['add', NAME, offset, id] | ['remove', id]; queue used exactly as Process._shutdown does."""
    from sc3.base.main import Process
    q = type(Process._atexitq)()
    log, prios = [], []
    acts = {}
    for s in steps:
        a = acts.setdefault(s[-1], Act(s[-1], log))
        if s[0] == 'add':
            p = Process._atexitprio[s[1]] + s[2]
            prios.append(int(p))
            q.add(p, a.stop)      # a fresh but equal bound method each time
        else:
            q.remove(a.stop)
    n = 0
    while not q.empty() and n < 10000:
        q.pop()[1]()
        n += 1
    return {'prios': prios, 'order': log}


def run_score(spec):
    """spec: {'adds': [[fracstr time, id], ...], 'tail': fracstr}; the OscScore is filled from
    outside any routine (absolute times), then finished; returns its bundles as [[fracstr, id], ...]."""
    from sc3.base._oscinterface import OscScore
    mark = lambda b: b[1][1] if b[1][0] == '/n_set' else b[1][0]
    sc = OscScore()
    for t, i in spec['adds']:
        sc.add([float(Fraction(t)), ['/n_set', i, 'x', 0]])
    p, e = sc._scoreq.peek(False)                # what OscScore.duration looks at
    sc.finish(float(Fraction(spec['tail'])))
    import sc3.base.main as m
    return {'latest': [str(Fraction(p)), mark(e.bndl)], 'now': str(Fraction(m.main.main_tt._seconds)),
            'list': [[str(Fraction(b[0])), mark(b)] for b in sc.list]}


def main():
    spec = json.load(open(sys.argv[1]))
    if spec.get('mode') == 'indirect':
        import os, sc3
        sc3.init(os.environ.get('SC3_MODE', 'nrt'))
        res = {}
        for key, fn in (('atexit', run_atexit), ('score', run_score)):
            res[key] = []
            for scenario in spec.get(key, []):
                try:
                    res[key].append(fn(scenario))
                except Exception as e:
                    res[key].append({'error': '%s: %s' % (type(e).__name__, e)})
        json.dump(res, open(sys.argv[2], 'w'))
        return
    if any(c['ops'] and c['ops'][0] == ['tasks', 'lib'] for c in spec['cases']):
        import logging, warnings
        warnings.simplefilter('ignore'); logging.disable(logging.CRITICAL)
        import sc3
        sc3.init('nrt')               # library objects (Function, Routine) need the library running
    from sc3.base._taskq import TaskQueue
    json.dump({'out': [run_case(TaskQueue, c['ops']) for c in spec['cases']]}, open(sys.argv[2], 'w'))


main()
