"""Run the REAL sc3.base._taskq.TaskQueue on op histories; print canonical outputs.

in : {'cases': [{'ops': [...]}, ...]}                      (default mode)
     {'mode': 'indirect', 'atexit': [scenario, ...], 'score': [scenario, ...]}  (indirect users, see below)
out: {'out': [{'outs': [...], 'state': [...]|None}, ...]}  /  {'atexit': ..., 'score': ...}
ops : ['add', ['I'|'F', 'num/den'], tid] ['remove', tid] ['pop'] ['peek', bool] ['empty'] ['clear'] ['iter']
outs: ['N'] ['T', 'num/den', tid] ['K'] ['B', bool] ['L', [['num/den', tid], ...]] ['X', text]
"""
import copy, json, sys
from fractions import Fraction


class Task:                       # hashable by identity, not orderable
    def __init__(self, id):
        self.id = id


def dec_prio(a):
    return int(a[1]) if a[0] == 'I' else float(Fraction(a[1]))


def frac(p):
    if isinstance(p, bool) or not isinstance(p, (int, float)):
        raise TypeError('prio %r' % (p,))
    return str(Fraction(p))


def item(r):
    p, t = r
    return [frac(p), t.id]


def none(r):
    return ['N'] if r is None else ['X', repr(r)[:80]]


def run_case(TaskQueue, ops):
    q = TaskQueue()
    tasks = [Task(i) for i in range(8)]
    outs = []
    for op in ops:
        try:
            k = op[0]
            if k == 'add':
                o = none(q.add(dec_prio(op[1]), tasks[op[2]]))
            elif k == 'remove':
                o = none(q.remove(tasks[op[1]]))
            elif k == 'clear':
                o = none(q.clear())
            elif k == 'empty':
                r = q.empty()
                o = ['B', r] if isinstance(r, bool) else ['X', repr(r)[:80]]
            elif k == 'iter':
                o = ['L', [item(x) for x in list(q)]]
            elif k == 'pop':
                o = ['T'] + item(q.pop())
            elif k == 'peek':
                o = ['T'] + item(q.peek(bool(op[1])))
            else:
                o = ['X', 'bad op']
        except KeyError:
            o = ['K'] if op[0] in ('pop', 'peek') else ['X', 'KeyError']
        except Exception as e:
            o = ['X', type(e).__name__]
        outs.append(o)
    try:
        R = TaskQueue._REMOVED
        nxt = next(copy.copy(q._counter))
        live = sorted((e for e in q._queue if e[2] is not R), key=lambda e: (e[0], e[1]))
        st = [len(q._queue), int(q._removed_counter), int(nxt), sum(1 for e in q._queue if e[2] is R)]
        for t, e in sorted(q._entry_finder.items(), key=lambda x: x[0].id):
            st += [t.id, int(e[1])]
        for e in live:
            st += [int(e[1]), e[2].id]
    except Exception:
        st = None
    return {'outs': outs, 'state': st}


# ---- indirect users ---------------------------------------------------------------
class Act:
    def __init__(self, id, log):
        self.id, self.log = id, log

    def stop(self):               # registered as the bound method, like clock/server _stop
        self.log.append(self.id)


def run_atexit(steps):
    """steps: ['add', NAME, offset, id] | ['remove', id]; queue used exactly as Process._shutdown does."""
    from sc3.base.main import Process
    q = type(Process._atexitq)()
    log, prios = [], []
    acts = {}
    for s in steps:
        a = acts.setdefault(s[-1], Act(s[-1], log))
        if s[0] == 'add':
            p = Process._atexitprio[s[1]] + s[2]
            prios.append(int(p))
            q.add(p, a.stop)      # a fresh but equal bound method each time
        else:
            q.remove(a.stop)
    n = 0
    while not q.empty() and n < 10000:
        q.pop()[1]()
        n += 1
    return {'prios': prios, 'order': log}


def run_score(spec):
    """spec: {'adds': [[fracstr time, id], ...], 'tail': fracstr}; the OscScore is filled from
    outside any routine (absolute times), then finished; returns its bundles as [[fracstr, id], ...]."""
    from sc3.base._oscinterface import OscScore
    mark = lambda b: b[1][1] if b[1][0] == '/n_set' else b[1][0]
    sc = OscScore()
    for t, i in spec['adds']:
        sc.add([float(Fraction(t)), ['/n_set', i, 'x', 0]])
    p, e = sc._scoreq.peek(False)                # what OscScore.duration looks at
    sc.finish(float(Fraction(spec['tail'])))
    import sc3.base.main as m
    return {'latest': [str(Fraction(p)), mark(e.bndl)], 'now': str(Fraction(m.main.main_tt._seconds)),
            'list': [[str(Fraction(b[0])), mark(b)] for b in sc.list]}


def main():
    spec = json.load(open(sys.argv[1]))
    if spec.get('mode') == 'indirect':
        import os, sc3
        sc3.init(os.environ.get('SC3_MODE', 'nrt'))
        res = {}
        for key, fn in (('atexit', run_atexit), ('score', run_score)):
            res[key] = []
            for scenario in spec.get(key, []):
                try:
                    res[key].append(fn(scenario))
                except Exception as e:
                    res[key].append({'error': '%s: %s' % (type(e).__name__, e)})
        json.dump(res, open(sys.argv[2], 'w'))
        return
    from sc3.base._taskq import TaskQueue
    json.dump({'out': [run_case(TaskQueue, c['ops']) for c in spec['cases']]}, open(sys.argv[2], 'w'))


main()
