"""C13 search probe: the lifting law of every binary operator of AbstractObject on patterns.
For every operator op, plain number k and finite list xs:
    list(k op Pseq(xs)) == [k op x for x in xs]   and   list(Pseq(xs) op k) == [x op k for x in xs]
(standalone and nested), where the right-hand sides apply the SAME selector to plain numbers
(the scalar kernels are C15's).  Output: {'bad': [{'expr', 'got', 'want'}]}"""
import json, operator, os, sys
import sc3
sc3.init(os.environ.get('SC3_MODE', 'nrt'))
import sc3.base.builtins as bi
from sc3.seq.patterns.listpatterns import Pseq
from sc3.seq.patterns.filterpatterns import Pn

OPS = {
    '+': operator.add, '-': operator.sub, '*': operator.mul, '/': operator.truediv, '//': operator.floordiv,
    '%': lambda a, b: a % b, '**': operator.pow, '<<': operator.lshift, '>>': operator.rshift,
    '&': operator.and_, '|': operator.or_, '^': operator.xor,
    '<': operator.lt, '<=': operator.le, '>': operator.gt, '>=': operator.ge,
}
SCALAR = dict(OPS)
SCALAR['%'] = bi.mod                     # Pattern.__mod__ / __rmod__ use bi.mod
NAMED = ['min', 'max', 'round', 'roundup', 'trunc', 'thresh', 'clip2', 'wrap2', 'fold2', 'excess', 'scaleneg', 'amclip',
         'ring1', 'ring2', 'ring3', 'ring4', 'difsqr', 'sumsqr', 'sqrsum', 'sqrdif', 'absdif', 'lcm', 'gcd', 'first_arg']
for n in NAMED:
    OPS[n] = getattr(bi, n)
    SCALAR[n] = getattr(bi, n)


def run(p):
    try:
        return list(p)
    except Exception as e:
        return 'err:' + type(e).__name__


def scal(f, pairs):
    try:
        return [f(a, b) for a, b in pairs]
    except Exception as e:
        return 'err:' + type(e).__name__


def same(a, b):
    return a == b and (isinstance(a, str) or [type(x) for x in a] == [type(x) for x in b])


def main():
    bad = []
    for name, f in OPS.items():
        g = SCALAR[name]
        for k, xs in ((2, [1, 2, 3, 5]), (7, [1, 2, 4, 3]), (-3, [2, 5, 1]), (0, [1, 2]), (3, [0, 1])):
            cases = [
                ('%s %s Pseq(%s)' % (k, name, xs), lambda: f(k, Pseq(xs)), scal(g, [(k, x) for x in xs])),
                ('Pseq(%s) %s %s' % (xs, name, k), lambda: f(Pseq(xs), k), scal(g, [(x, k) for x in xs])),
                ('Pn(%s %s Pseq(%s), 2)' % (k, name, xs), lambda: Pn(f(k, Pseq(xs)), 2), None),
                ('Pseq([%s %s Pseq(%s)]) %s %s' % (k, name, xs, name, k), lambda: f(Pseq([f(k, Pseq(xs))]), k), None),
            ]
            for label, build, want in cases:
                if want is None:
                    inner = scal(g, [(k, x) for x in xs])
                    if isinstance(inner, str):
                        continue
                    want = inner * 2 if label.startswith('Pn') else scal(g, [(y, k) for y in inner])
                try:
                    got = run(build())
                except Exception as e:
                    got = 'err:' + type(e).__name__
                if isinstance(want, str) and isinstance(got, str):
                    continue                      # both raise: the kind of exception is the kernel's business
                if not same(got, want):
                    bad.append({'expr': label, 'got': repr(got), 'want': repr(want)})
    json.dump({'bad': bad[:12]}, open(sys.argv[2], 'w'))


main()
