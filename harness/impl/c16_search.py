"""C16 search: look for a concrete failing history ON THE IMPLEMENTATION with the interval oracle
(harness/oracles/c16_intervals.py).  payload: {'seed', 'count', 'corpus': [cases]}.
Output: {'found': [{'size','pos','off','ops','op_index','why'}], 'tried': n}"""
import json, random, sys
import sc3.synth._engine as eng
import sc3.base.builtins as real_bi
from oracles import c16_intervals as orc


class Chooser:
    r = 0

    def __call__(self, lst):
        lst = sorted(lst, key=lambda b: (b.start, b.size))
        return lst[self.r % len(lst)]


class BiProxy:
    def __init__(self, chooser):
        self.choice = chooser

    def __getattr__(self, name):
        return getattr(real_bi, name)


CH = Chooser()
eng.bi = BiProxy(CH)


def set_r(r):
    CH.r = r


def gen(rng):
    size = rng.choice([1, 2, 3, 4, 5, 6, 8, 10, 12, 16, 24, 32, 64])
    pos = rng.choice([0, 0, 1, 2, 3])
    if pos >= size:
        pos = 0
    client = rng.choice([0, 1, 1, 2, 3])
    off = client * size + rng.choice([0, 0, 2, 4])
    ops, live = [], []
    for _ in range(rng.randint(3, 30)):
        if rng.random() < 0.06:
            ops.append(['x', rng.choice([off - 1, off - 2, off - size, off + size, off + size + 1, off + rng.randrange(size), -1, 0])])
        elif live and rng.random() < 0.45:
            ops.append(['f', live.pop(rng.randrange(len(live)))])
        else:
            ops.append(['a', rng.choice([1, 1, 2, 2, 3, 4, 5, size - pos, max(1, (size - pos) // 2)]), rng.randrange(1000)])
            live.append(None)   # placeholder, resolved while running
    return size, pos, off, ops


def gen_fill(rng):
    """Fill the partition completely (first and last address in use), then free first / last / neighbours so that
    merges with the previous, the next and BOTH neighbours happen, then ask for large runs."""
    size = rng.choice([1, 2, 3, 4, 5, 6, 8, 10, 12, 16])
    pos = rng.choice([0, 0, 1, 2])
    if pos >= size - 1:
        pos = 0
    off = rng.choice([0, 1, 2, 3]) * size + rng.choice([0, 0, 2, 4])
    avail = size - pos
    ops, k = [], 0
    while k < avail:                       # sizes that sum up exactly to the partition
        n = min(avail - k, rng.choice([1, 1, 1, 2, 2, 3]))
        ops.append(['a', n, rng.randrange(1000)])
        k += n
    ops.append(['a', 1, 0])                # full: must be None
    nblocks = len(ops) - 1
    order = list(range(nblocks))
    rng.shuffle(order)
    for j in order[:rng.randint(min(2, nblocks), nblocks)]:
        ops.append(['fi', j])              # free the j-th allocation made above (resolved while running)
        if rng.random() < 0.3:
            ops.append(['a', rng.choice([1, 2, avail]), rng.randrange(1000)])
    ops.append(['a', avail, 0])
    ops.append(['a', 1, 0])
    return size, pos, off, ops


def resolve_fill(size, pos, off, ops):
    a = eng.ContiguousBlockAllocator(size, pos, off)
    got, out = [], []
    for op in ops:
        if op[0] == 'a':
            CH.r = op[2]
            try:
                got.append(a.alloc(op[1]))
            except Exception:
                out.append(op)
                break
            out.append(op)
        else:
            addr = got[op[1]] if op[1] < len(got) else None
            if addr is None:
                continue
            try:
                a.free(addr)
            except Exception:
                out.append(['f', addr])
                break
            out.append(['f', addr])
    return out


def resolve(size, pos, off, ops):
    """Replace placeholder frees by addresses actually returned (free in random order of liveness)."""
    a = eng.ContiguousBlockAllocator(size, pos, off)
    live, out = [], []
    for op in ops:
        if op[0] == 'x':                # free of a raw address (foreign, never allocated, or by chance live)
            try:
                a.free(op[1])
            except Exception:
                out.append(['f', op[1]])
                break
            if op[1] in live:
                live.remove(op[1])
            out.append(['f', op[1]])
        elif op[0] == 'a':
            CH.r = op[2]
            try:
                r = a.alloc(op[1])
            except Exception:
                out.append(op)
                break
            if r is not None:
                live.append(r)
            out.append(op)
        else:
            if not live:
                continue
            addr = live.pop(op[1] % len(live) if isinstance(op[1], int) else 0)
            try:
                a.free(addr)
            except Exception:
                out.append(['f', addr])
                break
            out.append(['f', addr])
    return out


def main():
    p = json.load(open(sys.argv[1]))
    rng = random.Random(p.get('seed', 1))
    found, tried, seen = [], 0, set()
    mk = eng.ContiguousBlockAllocator

    def consider(size, pos, off, ops):
        res = orc.check_history(mk, size, pos, off, ops, set_r)
        if res is None:
            return
        ops = ops[:res[0] + 1]
        fails = lambda o: orc.check_history(mk, size, pos, off, o, set_r) is not None
        small = orc.shrink(fails, ops)
        k, why = orc.check_history(mk, size, pos, off, small, set_r)
        key = (size, pos, off, json.dumps(small))
        if key not in seen:
            seen.add(key)
            found.append({'size': size, 'pos': pos, 'off': off, 'ops': small, 'op_index': k, 'why': why})

    for c in p.get('corpus', []):
        tried += 1
        # recorded choices are start addresses (or None): as tie-break NUMBERS they are just some choice
        cops = [[o[0], o[1], (o[2] if isinstance(o[2], int) else 0)] if o[0] == 'a' else list(o) for o in c['ops']]
        consider(c['size'], c['pos'], c['off'], cops)
    for _ in range(p.get('count', 2000)):
        tried += 1
        size, pos, off, ops = gen(rng)
        # frees carry an index into the live list until resolved
        ops = [[o[0], rng.randrange(1000)] if o[0] == 'f' else o for o in ops]   # 'x' keeps its raw address
        ops = resolve(size, pos, off, ops)
        consider(size, pos, off, ops)
        if tried % 3 == 0:
            tried += 1
            size, pos, off, ops = gen_fill(rng)
            consider(size, pos, off, resolve_fill(size, pos, off, ops))
        if len(found) >= 40:
            break
    found.sort(key=lambda f: (len(f['ops']), f['size'], f['off']))
    found = found[:10]
    # node ids: distinct within the window, inside the client's range, never below init_temp -- also across the wrap
    for user in (0, 1, 31):
        for init in (1000, 1, 67108863 - 3):
            n = eng.NodeIDAllocator(user, init)
            start = max(init, 67108863 - 5)
            n._temp = start
            window = 67108863 - init + 1
            ids = [n.alloc() for _ in range(600)]
            why = None
            seen_ids = {}
            for k, x in enumerate(ids):
                if not (user << 26) <= x < ((user + 1) << 26):
                    why = 'id %d (allocation %d) outside the range of client %d' % (x, k, user); break
                if (x & 0x03FFFFFF) < init:
                    why = 'id %d (allocation %d): temp part %d below init_temp %d (permanent-id range)' % (x, k, x & 0x03FFFFFF, init); break
                if x in seen_ids and k - seen_ids[x] < window:
                    why = 'id %d handed out twice (allocations %d and %d) within a window of %d' % (x, seen_ids[x], k, window); break
                seen_ids[x] = k
            if why:
                found.insert(0, {'node': {'user': user, 'init': init, 'start': start, 'count': 600}, 'why': why})
    json.dump({'found': found[:12], 'tried': tried, 'n_found': len(found)}, open(sys.argv[2], 'w'))


main()
