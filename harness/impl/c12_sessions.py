"""Run recorded sessions on the REAL sc3 TempoClock (property C12), NRT or RT (SC3_MODE).

A case = constructor arguments, the quant with which the driver routine is played on the new
clock, and steps (acts, then a yield).  Every act is made from the driver routine running on the
clock itself.  Numbers come in and go out exactly (ints as ints, floats as Fractions).

NRT: the constructor and the first play are made from a routine on SystemClock at time t0.
RT : (sc3.init('rt'), own sc3.LIB_PORT) the constructor is called from the main thread with an explicit
     dyadic `seconds` just ahead of the physical time, so that every LOGICAL time seen by the routines
     (beats2secs of dyadic beats) is an exact dyadic number; only logical times are recorded, so the run does
     not depend on load.  All cases run concurrently, each on its own clock thread.

Output per case: the clock's numeric state after the constructor and `events`, IN EXECUTION ORDER:
  driver acts   {'k': index of the act, 'now', 'elapsed', + 'state' | 'result' | 'raised' | play 'id'}
  wake-ups      {'wake': id, 'beats', 'secs'}   when a played routine first runs
(so changes made between a play and its wake-up are exactly the events between the two)."""
import json, math, os, sys, threading, time
from fractions import Fraction

import sc3
MODE = os.environ.get('SC3_MODE', 'nrt')
if MODE == 'rt':
    sc3.LIB_PORT = int(os.environ.get('SC3_LIB_PORT', '58200'))
    sc3.LIB_PORT_RANGE = 8
sc3.init(MODE)
import logging
logging.disable(logging.CRITICAL)
import sc3.base.clock as clk
from sc3.base.clock import TempoClock, SystemClock, Quant
from sc3.base.stream import Routine

M = clk._libsc3.main
FIELDS = ['_tempo', '_beat_dur', '_base_seconds', '_base_beats', '_beats_per_bar', '_bars_per_beat',
          '_base_bar', '_base_bar_beat']


def dec(a):
    if a is None:
        return None
    if a[0] == 'NZ':
        return -0.0
    if a[0] == 'B':
        return bool(int(a[1]))
    return int(a[1]) if a[0] == 'I' else float(Fraction(a[1]))


def enc(r):
    if isinstance(r, bool):
        return [4, 'bool', '0']
    if isinstance(r, int):
        return [0, str(r), '1']
    if isinstance(r, float):
        if r != r or r in (float('inf'), float('-inf')):
            return [3, str(r), '0']
        fr = Fraction(r)
        return [1, str(fr.numerator), str(fr.denominator)]
    return [4, repr(r)[:80], '0']


def dec_quant(q):
    if q is None:
        return None
    k = q[0]
    if k == 'num':
        return dec(q[1])
    if k == 'quant1':
        return Quant(dec(q[1]))
    if k == 'pair':
        return Quant(dec(q[1]), dec(q[2]))
    if k == 'list':
        return [dec(x) for x in q[1]]
    if k == 'tuple':
        return tuple(dec(x) for x in q[1])
    raise ValueError(k)


def state(c):
    return [enc(getattr(c, f)) for f in FIELDS]


def ask(c, name, args, ev):
    if name in ('tempo', 'beat_dur', 'beats_per_bar', 'base_bar', 'base_bar_beat', 'beats', 'seconds'):
        return getattr(c, name)
    if name == 'time_to_next_beat':
        return c.time_to_next_beat(dec_quant(args[0]))
    if name == 'next_bar_rel':   # a beat exactly on / next to a bar line: base_bar_beat + k * beats_per_bar + d
        ref = c.base_bar_beat + dec(args[0]) * c.beats_per_bar + dec(args[1])
        ev['ref'] = enc(ref)
        return c.next_bar(ref)
    if name == 'grid_rel':       # reference beat given relative to the grid origin
        ref = c.base_bar_beat + dec(args[2])
        ev['ref'] = enc(ref)
        return c.next_time_on_grid(dec(args[0]), dec(args[1]), ref)
    return getattr(c, name)(*[dec(x) for x in args])


class Session:
    def __init__(self, case):
        self.case = case
        self.out = {'init': None, 'events': [], 'error': None}
        self.events = self.out['events']
        self.first = None
        self.outstanding = 0
        self.driver_done = False
        self.finished = threading.Event()
        self.next_id = 0
        self.clock = None
        self.clocks = []

    def check_done(self):
        if self.driver_done and self.outstanding == 0:
            self.finished.set()

    def spawn(self, c, ev, how, q, ds=()):
        """play a routine that records every wake-up and yields the numbers ds one after the other (a "walker":
        it sleeps on the clock while the driver routine goes on changing it)"""
        pid = self.next_id
        self.next_id += 1
        ds = list(ds)

        def child(inval):
            try:
                for d in ds + [None]:
                    self.events.append({'wake': pid, 'beats': enc(inval[1].beats), 'secs': enc(inval[1].seconds)})
                    if d is None:
                        break
                    self.events.append({'cyield': pid, 'd': d})
                    yield dec(d)
            finally:
                self.outstanding -= 1
                self.check_done()
        r = Routine(child)
        try:
            if how == 'play':
                r.play(c, dec_quant(q))
            elif how == 'clock_play':
                c.play(r, dec_quant(q))
            else:
                c.play_next_bar(r)
            ev['id'] = pid
            self.outstanding += 1
        except Exception as e:
            ev['raised'] = type(e).__name__

    def driver(self, inval):
        c = inval[1]
        case = self.case
        self.first['woke_beats'] = enc(c.beats)
        self.first['woke_secs'] = enc(c.seconds)
        k = -1
        try:
            for step in case['steps']:
                # the driver itself is a routine that yields numbers: where (beat, second) it woke up this time
                self.events.append({'dwake': 1, 'beats': enc(self.clock.beats), 'secs': enc(self.clock.seconds)})
                for act in step['acts']:
                    k += 1
                    ev = {'k': k, 'now': enc(c.seconds), 'elapsed': enc(M.elapsed_time())}
                    self.events.append(ev)
                    c = self.clock
                    if act[0] == 'on':          # the act is made (from this routine) on another TempoClock
                        c = self.clocks[act[1]]
                        act = act[2]
                    kind = act[0]
                    try:
                        if kind == 'sleep':
                            time.sleep(act[1] / 1000.0)
                        elif kind == 'set':
                            v = dec(act[2])
                            if act[1] == 'tempo':
                                c.tempo = v
                            elif act[1] == 'etempo':
                                c.etempo(v)
                            elif act[1] == 'beats':
                                c.beats = v
                            elif act[1] == 'beats_rel':       # forward jump relative to the current beat
                                v = c.beats + v
                                ev['value'] = enc(v)
                                c.beats = v
                            elif act[1] == 'meter':
                                c.beats_per_bar = v
                            else:
                                raise KeyError(act[1])
                            ev['state'] = state(c)
                        elif kind == 'ask':
                            ev['result'] = enc(ask(c, act[1], act[2], ev))
                        elif kind in ('play', 'clock_play', 'play_next_bar'):
                            self.spawn(c, ev, kind, act[1] if len(act) > 1 else None, act[2] if len(act) > 2 else ())
                    except (ValueError, ZeroDivisionError, clk.ClockError, TypeError) as e:
                        ev['raised'] = type(e).__name__
                        ev['state'] = state(c)
                if step.get('yield') is not None:
                    self.events.append({'dyield': step['yield']})
                    yield dec(step['yield'])
        finally:
            self.driver_done = True
            self.check_done()

    def make_clock(self, seconds):
        i = self.case['init']
        try:
            c = TempoClock(dec(i['tempo']), dec(i['beats']), seconds)
        except ValueError as e:
            self.out['init'] = 'raised:' + type(e).__name__
            self.driver_done = True
            self.check_done()
            return None
        self.clock = c
        self.clocks = [c]
        self.out['init'] = state(c)
        # more TempoClocks in the same process: what happens to one must not move the tasks of another
        self.out['extra'] = []
        for j in self.case.get('extra', []):
            x = TempoClock(dec(j['tempo']), dec(j['beats']), seconds if MODE == 'rt' else dec(j['seconds']))
            self.clocks.append(x)
            self.out['extra'].append(state(x))
        return c

    def first_play(self, c, now):
        ev = {'now': enc(now)}
        self.first = ev
        self.out['first_play'] = ev
        try:
            ev['beats_before'] = enc(c.beats)
            def drv(inval):
                yield from self.driver(inval)
            Routine(drv).play(c, dec_quant(self.case['start_quant']))
        except Exception as e:
            ev['raised'] = type(e).__name__
            self.driver_done = True
            self.check_done()


def run_nrt(case):
    M.reset()
    s = Session(case)

    def boot(inval):
        yield dec(case['t0'])
        s.out['init_now'] = enc(M.current_tt._seconds)
        c = s.make_clock(dec(case['init']['seconds']))
        if c is not None:
            s.first_play(c, M.current_tt._seconds)

    Routine(boot).play(SystemClock)
    M._clock_scheduler.run()    # main.process() without closing the OSC score (times may be negative here)
    return s.out


def run_rt(cases, budget):
    sessions = []
    for case in cases:
        s = Session(case)
        sessions.append(s)
        # a dyadic reference second slightly ahead of now: all logical times become exact
        t0 = math.floor((M.elapsed_time() + 0.03) * 256) / 256
        s.out['init_now'] = enc(t0)
        s.out['rt_seconds'] = enc(t0)
        c = s.make_clock(t0)
        if c is not None:
            s.first_play(c, t0)
    deadline = time.time() + budget
    for s in sessions:
        if not s.finished.wait(max(0.05, deadline - time.time())):
            s.out['error'] = 'timeout: driver_done=%s outstanding=%d' % (s.driver_done, s.outstanding)
    for s in sessions:
        for x in s.clocks:
            try:
                x.stop()
            except Exception:
                pass
    return [s.out for s in sessions]


def main():
    spec = json.load(open(sys.argv[1]))
    cases = spec['cases']
    if MODE == 'rt':
        res = run_rt(cases, spec.get('budget', 20))
    else:
        res = []
        for case in cases:
            try:
                res.append(run_nrt(case))
            except Exception as e:
                res.append({'error': '%s: %s' % (type(e).__name__, e), 'init': None, 'events': []})
    json.dump({'out': res, 'mode': MODE}, open(sys.argv[2], 'w'))
    sys.stdout.flush()
    os._exit(0)


main()
