"""Run recorded sessions on the REAL sc3 TempoClock in NRT mode (property C12).

A case = constructor arguments, the quant with which the driver routine is played on the new
clock, and steps (acts, then a yield).  Everything is called from routines: the constructor and the
first play from a routine on SystemClock at time t0, every act from the driver routine running on
the clock itself.  Numbers come in and go out exactly (ints as ints, floats as Fractions).

Output per case: the clock's numeric state after the constructor, and one event per act:
  the thread's logical seconds (`now`), main.elapsed_time(), and the exact result
  (state after a setter / returned number / name of the exception)."""
import json, os, sys
from fractions import Fraction

import sc3
sc3.init(os.environ.get('SC3_MODE', 'nrt'))
import sc3.base.clock as clk
from sc3.base.clock import TempoClock, SystemClock, Quant
from sc3.base.stream import Routine

M = clk._libsc3.main
FIELDS = ['_tempo', '_beat_dur', '_base_seconds', '_base_beats', '_beats_per_bar', '_bars_per_beat',
          '_base_bar', '_base_bar_beat']


def dec(a):
    if a is None:
        return None
    return int(a[1]) if a[0] == 'I' else float(Fraction(a[1]))


def enc(r):
    if isinstance(r, bool):
        return [4, 'bool', '0']
    if isinstance(r, int):
        return [0, str(r), '1']
    if isinstance(r, float):
        if r != r or r in (float('inf'), float('-inf')):
            return [3, str(r), '0']
        fr = Fraction(r)
        return [1, str(fr.numerator), str(fr.denominator)]
    return [4, repr(r)[:80], '0']


def dec_quant(q):
    if q is None:
        return None
    k = q[0]
    if k == 'num':
        return dec(q[1])
    if k == 'quant1':
        return Quant(dec(q[1]))
    if k == 'pair':
        return Quant(dec(q[1]), dec(q[2]))
    if k == 'list':
        return [dec(x) for x in q[1]]
    if k == 'tuple':
        return tuple(dec(x) for x in q[1])
    raise ValueError(k)


def state(c):
    return [enc(getattr(c, f)) for f in FIELDS]


def ask(c, name, args):
    if name in ('tempo', 'beat_dur', 'beats_per_bar', 'base_bar', 'base_bar_beat', 'beats', 'seconds'):
        return getattr(c, name)
    if name == 'time_to_next_beat':
        return c.time_to_next_beat(dec_quant(args[0]))
    return getattr(c, name)(*[dec(x) for x in args])


def run_case(case):
    M.reset()
    out = {'init': None, 'events': [], 'error': None}
    events = out['events']
    pending = []      # events of play acts, completed when the played routine first runs

    def spawn(c, ev, how, q):
        def child(inval):
            ev['woke_beats'] = enc(inval[1].beats)
            ev['woke_secs'] = enc(inval[1].seconds)
            ev['clock_is_self'] = inval[1] is c
        r = Routine(child)
        try:
            if how == 'play':
                r.play(c, dec_quant(q))
            elif how == 'clock_play':
                c.play(r, dec_quant(q))
            else:
                c.play_next_bar(r)
        except Exception as e:
            ev['raised'] = type(e).__name__

    def driver(inval):
        c = inval[1]
        first = pending[0]
        first['woke_beats'] = enc(c.beats)
        first['woke_secs'] = enc(c.seconds)
        first['clock_is_self'] = True
        for step in case['steps']:
            for act in step['acts']:
                ev = {'now': enc(c.seconds), 'elapsed': enc(M.elapsed_time())}
                events.append(ev)
                kind = act[0]
                try:
                    if kind == 'set':
                        v = dec(act[2])
                        if act[1] == 'tempo':
                            c.tempo = v
                        elif act[1] == 'etempo':
                            c.etempo(v)
                        elif act[1] == 'beats':
                            c.beats = v
                        elif act[1] == 'meter':
                            c.beats_per_bar = v
                        else:
                            raise KeyError(act[1])
                        ev['state'] = state(c)
                    elif kind == 'ask':
                        ev['result'] = enc(ask(c, act[1], act[2]))
                    elif kind in ('play', 'clock_play', 'play_next_bar'):
                        spawn(c, ev, kind, act[1] if len(act) > 1 else None)
                except (ValueError, ZeroDivisionError, clk.ClockError, TypeError) as e:
                    ev['raised'] = type(e).__name__
                    ev['state'] = state(c)
            if step.get('yield') is not None:
                yield dec(step['yield'])

    def boot(inval):
        yield dec(case['t0'])
        try:
            i = case['init']
            c = TempoClock(dec(i['tempo']), dec(i['beats']), dec(i['seconds']))
        except ValueError as e:
            out['init'] = 'raised:' + type(e).__name__
            return
        out['init_now'] = enc(M.current_tt._seconds)
        out['init'] = state(c)
        ev = {'now': enc(M.current_tt._seconds)}
        pending.append(ev)
        out['first_play'] = ev
        try:
            Routine(driver).play(c, dec_quant(case['start_quant']))
        except Exception as e:
            ev['raised'] = type(e).__name__

    Routine(boot).play(SystemClock)
    M.process()
    return out


def main():
    cases = json.load(open(sys.argv[1]))['cases']
    res = []
    for case in cases:
        try:
            res.append(run_case(case))
        except Exception as e:
            res.append({'error': '%s: %s' % (type(e).__name__, e), 'init': None, 'events': []})
    json.dump({'out': res}, open(sys.argv[2], 'w'))


main()
