"""C01 search on the implementation: build generated well-formed progs with the REAL SynthDef,
look for (a) an exception other than an input-check ValueError, (b) an emitted graph that does
not denote the source (independent evaluator harness/oracles/graph_eval.py), shrink what is found.
in: {"cases": [prog, ...]}   out: {"found": [{"kind", "prog", "observed", "expected"}], "checked": n}"""
import json, os, sys
import sc3
sc3.init(os.environ.get('SC3_MODE', 'nrt'))
import logging
logging.disable(logging.CRITICAL)
import sc3.base.main as m
import c01_lib as L
from oracles import graph_eval as G


def verdict(p):
    d, sd = L.build(p, 'q')
    m.main._current_synthdef = None
    if not d['ok']:
        if d['err'] in ('ValueError', 'Unsupported', 'GraphFuncError', 'GraphFuncBase'):
            return None, d
        return 'error:' + d['err'], d
    try:
        diff = G.compare(p, d)
    except Exception as e:      # evaluator cannot interpret the program: not a finding
        return None, d
    if diff:
        return 'semantic', dict(d, diff=diff)
    return None, d


def drop(p, k):
    ins = []
    for j, i in enumerate(p['ins']):
        if j == k:
            continue
        bad = [False]

        def ren(a):
            if isinstance(a, list) and a and a[0] == 'v':
                if a[1] == k:
                    bad[0] = True
                return ['v', a[1] - (1 if a[1] > k else 0), a[2]]
            if isinstance(a, list) and a and a[0] in ('c', 'p'):
                return a
            if isinstance(a, list):
                return [ren(x) for x in a]
            return a
        ni = [i[0]] + [ren(x) for x in i[1:]]
        if bad[0]:
            return None
        ins.append(ni)
    q = dict(p)
    q['ins'] = ins
    if 'mce' in q:
        gs = []
        for s0, n in q['mce']:
            if k < s0:
                gs.append([s0 - 1, n])
            elif k < s0 + n:
                if n - 1 >= 2:
                    gs.append([s0, n - 1])
            else:
                gs.append([s0, n])
        q['mce'] = gs
    if 'blocks' in q:
        def ren2(a):
            if isinstance(a, list) and a and a[0] == 'v':
                if a[1] == k:
                    raise KeyError
                return ['v', a[1] - (1 if a[1] > k else 0), a[2]]
            if isinstance(a, list) and a and a[0] in ('c', 'p'):
                return a
            if isinstance(a, list):
                return [ren2(x) for x in a]
            return a
        out = []
        try:
            for s0, n, spec in q['blocks']:
                if s0 <= k < s0 + n:
                    return None
                out.append([s0 - 1 if k < s0 else s0, n, {'form': spec['form'], 'rows': ren2(spec['rows']), 'result': ren2(spec['result'])}])
        except KeyError:
            return None
        q['blocks'] = out
    return q


def shrink(p, kind):
    cur, changed, budget = p, True, 400
    while changed and budget > 0:
        changed = False
        for k in reversed(range(len(cur['ins']))):
            q = drop(cur, k)
            budget -= 1
            if q is not None and verdict(q)[0] == kind:
                cur, changed = q, True
                break
    return cur


def main():
    cases = json.load(open(sys.argv[1]))['cases']
    found, seen = [], set()
    for p in cases:
        kind, d = verdict(p)
        if kind and kind not in seen and len(found) < 4:
            seen.add(kind)
            q = shrink(p, kind)
            k2, d2 = verdict(q)
            found.append({'kind': kind, 'prog': q, 'observed': {x: d2[x] for x in d2 if x in ('ok', 'err', 'msg', 'units', 'consts', 'diff')},
                          'expected': 'the graph function is well-formed: it must compile, and the emitted units must read the values the source describes'})
    json.dump({'found': found, 'checked': len(cases)}, open(sys.argv[2], 'w'))


main()
