"""C18 (i): run the REAL matching function used by responders on (pattern, address) pairs.
out[i] = 'T' | 'F' | 'E' (re.error: ill-formed pattern) | 'X:<type>' (anything else)."""
import json, sys, warnings, re
warnings.simplefilter('ignore')
from sc3.base import responders

def main():
    pairs = json.load(open(sys.argv[1]))['pairs']
    f = responders._match_osc_address_pattern
    out = []
    for p, a in pairs:
        try:
            out.append('T' if f(p, a) else 'F')
        except re.error:
            out.append('E')
        except Exception as e:
            out.append('X:' + type(e).__name__)
    json.dump({'out': out, 'fn': getattr(f, '__name__', repr(f))}, open(sys.argv[2], 'w'))

main()
