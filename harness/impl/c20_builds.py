"""C20 implementation runner.  One process = one (mode, PYTHONHASHSEED).

in:  {"progs": [prog, ...], "fail_progs": [prog, ...], "threads": 4, "rounds": 2}
out: {"progs": [{"desc": description, "bytes": [hex, ...]}, ...],   # every build of prog i, all phases
      "ctx": [[phase, [current_is_none, lock_free], outside_ugen_has_no_def], ...],
      "base_probe": {...}, "thread_errors": [...]}

Phases: (1) build every prog twice; (2) after each failing build (graph function raising,
input check failing, unsupported operator) rebuild a prog; (3) `threads` threads build all progs
`rounds` times, interleaved with failing builds; (4) a definition whose writer raises
(name longer than 255 bytes), then rebuild; (5) earlier arbitrary use of the library
(patterns, events, envelopes) then rebuild; (5a) rebuild under a changed allocation history (junk objects,
definitions kept alive, gc.collect()); (5b) description reads; (6) BaseException probe.  In phases 1, 2b, 3, 5,
5a, 5b the Python-level definitions of c20_extras.good() are rebuilt as well; (2b) runs every failing scenario
of c20_extras.fails() (a build failing at each point of SynthDef._build, Exception and BaseException
subclasses), each followed by the context / outside-unit / class-state checks and rebuilds; (7) nested-build
probe (observation only, last)."""
import json, os, sys, threading
import sc3
if os.environ.get('SC3_MODE', 'nrt') == 'rt':
    sc3.LIB_PORT = 58000 + (os.getpid() % 1500) * 4
    sc3.LIB_PORT_RANGE = 4
sc3.init(os.environ.get('SC3_MODE', 'nrt'))
import logging
logging.disable(logging.CRITICAL)
import sc3.base.main as m
import c01_lib as L
import c20_extras as X
import gc


def hexbytes(sd):
    try:
        return bytes(sd.as_bytes()).hex()
    except Exception as e:
        return 'ERR:' + type(e).__name__


def main():
    pl = json.load(open(sys.argv[1]))
    progs, fails = pl['progs'], pl['fail_progs']
    res = [{'desc': None, 'bytes': []} for _ in progs]
    ctxlog = []
    goods = X.good()
    # every process runs the scenarios in a different order (results are compared between processes): whatever a
    # first use freezes in a process-wide cache shows up as a difference
    order = int(pl.get('order', 0))
    if order:
        k_ = (order * 7) % len(goods)
        goods = goods[k_:] + goods[:k_]
        if order % 2:
            goods = goods[::-1]
    xres = {name: [] for name, _ in goods}
    xfail_log = []
    args_before = X.shared_args_state()

    def build_extras(skip_big=False):
        for name, b in goods:
            if skip_big and name == 'big300':
                continue
            try:
                xres[name].append(hexbytes(b()))
            except BaseException as e:   # noqa
                if m.main._current_synthdef is not None:
                    m.main._current_synthdef = None
                xres[name].append('FAIL:' + type(e).__name__ + ':' + str(e)[:80])

    def build(i, first=False):
        d, sd = L.build(progs[i], 'p%d' % i)
        if first:
            res[i]['desc'] = d
        if sd is not None:
            return hexbytes(sd)
        return 'FAIL:' + d['err']

    cls_ref = [None]

    def check(phase):
        st = L.ctx_state()
        ctxlog.append([phase, st, L.outside_ugen_has_no_def()])
        if cls_ref[0] is not None:
            now = X.class_state()
            if now != cls_ref[0]:
                ctxlog.append(['class-state', [phase, [x for x in now if x not in cls_ref[0]][:4],
                                               [x for x in cls_ref[0] if x not in now][:4]], None])
                cls_ref[0] = now
        if not st[0]:
            # keep the rest of the run meaningful: the leak is logged, the context is reset by hand
            m.main._current_synthdef = None

    # (1) twice in a row
    if order % 2:
        build_extras()            # in every second process the Python-level definitions are the first ones written
    for i in range(len(progs)):
        res[i]['bytes'].append(build(i, True))
        res[i]['bytes'].append(build(i))
    build_extras()
    build_extras()
    cls_ref[0] = X.class_state()
    check('after-plain')
    # (2) after failing builds
    for j, fp in enumerate(fails):
        d, sd = L.build(fp, 'f%d' % j)
        check('after-fail-%d-%s' % (j, d.get('err', 'ok')))
        for i in range(len(progs)):
            if (i + j) % max(1, len(fails)) == 0 or len(progs) < 8:
                res[i]['bytes'].append(build(i))
    # (2b) builds written in Python failing at every point of SynthDef._build (graph function at its first
    #      statement / after the controls / after units, wrapped functions, argument processing, optimiser,
    #      constant collection, input checks; Exception and BaseException subclasses), each followed by the
    #      context / outside-unit / class-state checks and by rebuilding good definitions
    for k, (name, b) in enumerate(X.fails()):
        try:
            b()
            kind = 'ok'
        except BaseException as e:   # noqa: every kind is classified, SystemExit / KeyboardInterrupt included
            kind = type(e).__name__
            msg = str(e)[:160]
        xfail_log.append([name, kind, '' if kind == 'ok' else msg])
        check('after-xfail-%s-%s' % (name, kind))
        build_extras(skip_big=(k % 8 != 0))
        if progs:
            res[k % len(progs)]['bytes'].append(build(k % len(progs)))
    check('after-xfails')
    # (3) threads
    lock = threading.Lock()
    terrs = []

    def worker(k):
        try:
            for r in range(pl.get('rounds', 2)):
                order = list(range(len(progs)))
                order = order[k:] + order[:k]
                for n, i in enumerate(order):
                    b = build(i)
                    with lock:
                        res[i]['bytes'].append(b)
                    if fails and n % 3 == k % 3:
                        L.build(fails[(n + k) % len(fails)], 'tf')
                for name, b in goods[k::2]:
                    if name != 'big300':
                        try:
                            hb = hexbytes(b())
                        except Exception as e:
                            hb = 'FAIL:' + type(e).__name__ + ':' + str(e)[:80]
                        with lock:
                            xres[name].append(hb)
        except BaseException as e:   # noqa
            terrs.append(repr(e))
    ts = [threading.Thread(target=worker, args=(k,)) for k in range(pl.get('threads', 4))]
    for t in ts:
        t.start()
    for t in ts:
        t.join(120)
    if any(t.is_alive() for t in ts):
        terrs.append('thread did not finish (deadlock?)')
    check('after-threads')
    # (4) the writer raises
    okp = [i for i in range(len(progs)) if res[i]['desc'] and res[i]['desc']['ok']]
    if okp:
        d, sd = L.build(progs[okp[0]], 'n' * 300)
        w = hexbytes(sd) if sd is not None else 'FAIL'
        ctxlog.append(['writer-result', w, None])
        check('after-writer-error')
        for i in range(len(progs)):
            res[i]['bytes'].append(build(i))
    # (5) arbitrary earlier use of the library
    try:
        from sc3.seq.patterns.listpatterns import Pseq
        from sc3.base.stream import stream
        s = stream(Pseq([1, 2, 3], 2))
        [next(s) for _ in range(4)]
        from sc3.synth.envelope import Env
        Env.adsr()
        from sc3.synth.ugens.oscillators import SinOsc
        _ = (SinOsc.ar(300) * 0.5 + SinOsc.kr(2))       # graph objects outside any build
    except Exception as e:
        ctxlog.append(['library-use-error', repr(e)[:200], None])
    for i in range(len(progs)):
        res[i]['bytes'].append(build(i))
    build_extras()
    check('after-library-use')
    # (5a) allocation history: the addresses (hence the hashes, hence the set iteration order) of the unit
    #      generators of a build depend on what was allocated and freed before
    junk = []
    for r in range(3):
        junk.append([object() for _ in range(37 + 101 * r)])
        junk.append([[j] * (r + 1) for j in range(53 * (r + 1))])
        if r == 1:
            del junk[0]
            gc.collect()
        keep = [L.build(progs[i], 'j%d' % i)[1] for i in range(0, len(progs), 3)]   # definitions kept alive
        for i in range(len(progs)):
            res[i]['bytes'].append(build(i))
        build_extras(skip_big=(r != 0))
        del keep
    check('after-allocation-jitter')
    # (5c) ordinary use of already built definitions (annotating their variants / metadata, as_bytes, add), then
    #      rebuild; no two live definitions may share a mutable object they own
    kept = []
    for name, b in goods:
        if name != 'big300':
            try:
                kept.append(b())
            except BaseException:   # noqa
                m.main._current_synthdef = None
    kept += [sd for sd in (L.build(progs[i], 'k%d' % i)[1] for i in range(0, len(progs), 5)) if sd is not None]
    alias = X.alias_report(kept, shared_ok=(X.VARIANTS, X.META))
    use_log = X.use_built_definitions([sd for sd in kept if not (sd.variants is X.VARIANTS)])
    for i in range(len(progs)):
        res[i]['bytes'].append(build(i))
    build_extras()
    kept2 = []
    for name, b in goods:
        if name != 'big300':
            try:
                kept2.append(b())
            except BaseException:   # noqa
                m.main._current_synthdef = None
    alias += X.alias_report(kept + kept2, shared_ok=(X.VARIANTS, X.META))
    if alias:
        ctxlog.append(['aliasing', alias[:6], None])
    check('after-use-of-built-definitions')
    # (5b) description reads (SynthDesc.new_from / SynthDef.add / SynthDesc._read_stream) that succeed or fail:
    #      a definition using a UGen class that is not in installed_ugens, truncated and corrupt bytes.
    import io
    from sc3.synth.synthdef import SynthDef
    from sc3.synth.synthdesc import SynthDesc
    import sc3.synth.ugen as ugn
    from sc3.synth.ugens.inout import Out

    class VerifUnregistered(ugn.UGen):       # a user-defined UGen subclass, not registered in installed_ugens
        @classmethod
        def ar(cls, freq=440.0):
            return cls._multi_new('audio', freq)

    def reads():
        out = []
        def attempt(label, f):
            try:
                f()
                out.append([label, 'ok'])
            except BaseException as e:   # noqa
                if isinstance(e, (KeyboardInterrupt, SystemExit)):
                    raise
                out.append([label, type(e).__name__])
            check('after-read-' + label + '-' + out[-1][1])
        try:
            sdu = SynthDef('verif_unreg', lambda: Out.ar(0, VerifUnregistered.ar(300)))
        except Exception as e:
            out.append(['build-unregistered', type(e).__name__])
            return out
        attempt('newfrom_unregistered', lambda: SynthDesc.new_from(sdu))
        attempt('add_unregistered', lambda: sdu.add())
        if okp:
            good = SynthDef('verif_good', L.make_func(progs[okp[0]]))
            raw = bytes(good.as_bytes())
            attempt('newfrom_good', lambda: SynthDesc.new_from(good))
            attempt('truncated', lambda: SynthDesc._read_stream(io.BytesIO(raw[:len(raw) * 2 // 3])))
            bad = bytearray(raw)
            # corrupt the first UGen class name (after the def name, constants and controls there is the ugen list)
            pos = raw.find(b'Control') if b'Control' in raw else -1
            for nm in (b'SinOsc', b'Saw', b'Out', b'BinaryOpUGen', b'WhiteNoise', b'LFNoise0', b'DC'):
                if nm in raw:
                    pos = raw.find(nm)
                    break
            if pos >= 0:
                bad[pos] = ord('Z')
                attempt('corrupt_classname', lambda: SynthDesc._read_stream(io.BytesIO(bytes(bad))))
        return out
    read_log = reads()
    for i in range(len(progs)):
        res[i]['bytes'].append(build(i))
    build_extras(skip_big=True)
    check('after-reads')
    # (6) BaseException probe -- observation only; the context is reset by hand afterwards
    probe = {}
    d, sd = L.build({'ins': [['U', 'Saw', 'audio', [['c', '1']]], ['raise', 'base']]}, 'base')
    probe['ctx'] = L.ctx_state()
    probe['outside_has_no_def'] = L.outside_ugen_has_no_def()
    m.main._current_synthdef = None
    # (7) a build started by the graph function of another build (same thread): observation only.  Last,
    #     because a dead-locked thread keeps the build lock for ever.
    nested = {}

    def nested_build():
        def outer():
            from sc3.synth.synthdef import SynthDef as SD
            from sc3.synth.ugens.foscillators import Saw
            SD('x_inner', lambda: Out.ar(0, Saw.ar(1)))
            Out.ar(0, Saw.ar(2))
        try:
            sd = SynthDef('x_outer', outer)
            nested['result'] = [type(u).__name__ for u in sd._children]
        except BaseException as e:   # noqa
            nested['result'] = 'raised ' + type(e).__name__
    t = threading.Thread(target=nested_build, daemon=True)
    t.start()
    t.join(3)
    nested['finished'] = not t.is_alive()
    json.dump({'progs': res, 'ctx': ctxlog, 'base_probe': probe, 'thread_errors': terrs, 'reads': read_log,
               'extras': xres, 'xfails': xfail_log, 'args_before': args_before, 'args_after': X.shared_args_state(),
               'use_log': use_log, 'nested': nested, 'catalogue_bad': L.check_catalogue()}, open(sys.argv[2], 'w'))
    sys.stdout.flush()
    os._exit(0)      # RT mode keeps non-daemon threads alive


main()
