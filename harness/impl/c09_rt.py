"""C09, real-time clocks as users of TaskQueue (SystemClock, TempoClock, AppClock's Scheduler).

What the clocks queue are LIBRARY objects (a fresh Function wrapper for every plain python function given to
sched, Function objects, Routines), keyed in TaskQueue._entry_finder by the library's own __hash__/__eq__.
A batch is queued while the clock's lock (main._main_lock) is held, so the clock thread sees it atomically;
with 'past' all its entries are already due when the lock is released (several tasks due in ONE wake cycle).
Tasks may schedule further tasks DURING their wake-up (clock.sched(delta, g) from inside: before, with or after
entries that are already due).  Every due time is read back from the clock's own queue right after the
scheduling call, in the order the additions happen, so the expected order (reference queue fed with these
additions) does not depend on machine load; only a lower bound on progress is waited for.

in : {'batches': [{'clock': 'system'|'tempo'|'app', 'tempo': '2', 'past': bool, 'inside': bool (app),
                   'items': [[label, kind, obj, k, nested], ...], 'expect': n}, ...]}
     kind 'plain' (python function number obj passed itself: every sched makes a new queue item),
          'wrap' (Function object number obj: the same object again = re-add), 'rout' (Routine object number obj);
     k = slot (1/16 s or beat; equal k = tie); nested = [[label, delta slots, nested], ...] scheduled by the
     task while it wakes (plain functions); an optional last element 'inf' / 'nan' is what the task ANSWERS
     (its returned delta: never rescheduled).
out: {'out': [{'log': [label, ...], 'complete': bool, 'added': [[label, time repr, parent label|None], ...]}, ...]}
"""
import json, logging, os, sys, threading, time, warnings
warnings.simplefilter('ignore')
logging.disable(logging.CRITICAL)
import sc3
sc3.LIB_PORT = 57400 + os.getpid() % 400
sc3.LIB_PORT_RANGE = 8
sc3.init('rt')
from sc3.base.main import main
from sc3.base.clock import SystemClock, TempoClock, AppClock
from sc3.base.functions import Function
from sc3.base.stream import Routine


def run_batch(b):
    log, added = [], []
    app = b['clock'] == 'app'
    clock = AppClock if app else SystemClock if b['clock'] == 'system' else TempoClock(float(b.get('tempo', '1')))
    queue = AppClock._scheduler.queue if app else clock._task_queue

    seen = []                                   # entries already accounted for (kept alive: ids are not reused)

    def due(target):
        """the time of the NEW queue entry made by the scheduling call that just returned (target = the python
        function given to sched, or the Function / Routine object itself)"""
        R = type(queue)._REMOVED
        for e in queue._queue:
            t = e[2]
            if t is not R and all(e is not x for x in seen) and (t is target or getattr(t, 'func', None) is target):
                seen.append(e)
                return repr(float(e[0]))
        return None

    def child(spec, parent):
        label, delta, nested = spec[:3]
        ret = spec[3] if len(spec) > 3 else None
        def g():
            log.append(label)
            for n in nested:
                child(n, label)
            return None if ret is None else float(ret)     # 'inf' / 'nan': never rescheduled
        clock.sched(delta / 16, g)              # from inside a wake-up: relative to the task's logical time
        added.append([label, due(g), parent])

    shared, wraps, routs = {}, {}, {}

    def plain(obj):                             # ONE python function per obj; every sched of it is a new item
        if obj not in shared:
            cell = {'pending': []}
            def f():
                label, nested, ret = cell['pending'].pop(0) if cell['pending'] else ('f%s?' % obj, [], None)
                log.append(label)
                for n in nested:
                    child(n, label)
                return None if ret is None else float(ret)  # 'inf' / 'nan': never rescheduled
            shared[obj] = (f, cell)
        return shared[obj]

    def single(label):
        cell = {'label': label}
        def f():
            log.append(cell['label'])
        return f, cell

    def batch():
        base = (main.elapsed_time() if app else main.current_tt._seconds if clock is SystemClock else clock.beats)
        base += -1.0 if b.get('past') else 0.5
        for it in b['items']:
            label, kind, obj, k, nested = it[:5]
            ret = it[5] if len(it) > 5 else None
            t = base + k / 16
            if kind == 'plain':
                f, cell = plain(obj)
                cell['pending'].append((label, nested, ret))   # valid: slots of one obj increase with scheduling order
                target = f
            elif kind == 'wrap':
                if obj not in wraps:
                    f, cell = single(label)
                    wraps[obj] = (Function(f), cell)
                target, cell = wraps[obj]
                cell['label'] = label                     # the same object again replaces its pending wake-up
            else:
                if obj not in routs:
                    routs[obj] = make_routine(label)
                target, cell = routs[obj]
                cell['label'] = label
            if app:
                AppClock.sched(k / 16 - (1.0 if b.get('past') else 0.0), target)   # AppClock stamps with physical time
            else:
                clock.sched_abs(t, target)
            added.append([label, due(target), None])

    def make_routine(label):
        cell = {'label': label}
        def body():
            log.append(cell['label'])
            yield None
        return Routine(body), cell
    try:
        if app and b.get('inside'):
            AppClock.sched(0, lambda: batch())            # the batch is queued by a task running in the AppClock thread
        else:
            with main._main_lock:                         # the clock thread cannot pop before the batch is complete
                batch()
        deadline = time.time() + 12                       # lower bound on progress only
        while len(log) < b['expect'] and time.time() < deadline:
            time.sleep(0.02)
        time.sleep(0.15)
    finally:
        if not app and clock is not SystemClock:
            clock.stop()
    return {'log': list(log), 'complete': len(log) >= b['expect'], 'added': added}


def main_():
    spec = json.load(open(sys.argv[1]))
    out = []
    for b in spec['batches']:
        try:
            out.append(run_batch(b))
        except BaseException as e:
            out.append({'error': '%s: %s' % (type(e).__name__, e)})
    json.dump({'out': out}, open(sys.argv[2], 'w'))
    sys.stdout.flush()
    os._exit(0)


main_()
