"""C09, real-time clocks as users of TaskQueue: what the clocks queue are LIBRARY objects (a fresh Function wrapper
for every plain python function given to sched, Function objects, Routines), keyed in TaskQueue._entry_finder by
the library's own __hash__/__eq__.  Batches are scheduled with sched_abs at exact (tied) times while main._main_lock
is held, so the clock threads see each batch atomically and the wake-up ORDER does not depend on machine load;
only a generous lower bound on progress is waited for.

in : {'batches': [{'clock': 'system'|'tempo', 'tempo': '2', 'items': [[label, kind, obj, k], ...]}, ...]}
     kind 'plain' (the python function obj is passed itself: every sched makes a new queue item),
          'wrap' (Function object number obj: the same object again = re-add), 'rout' (Routine object number obj);
     k = time slot (slot width 1/16 s or beat); equal k = tie.
out: {'out': [{'log': [label, ...], 'complete': bool}, ...]}
"""
import json, logging, os, sys, threading, time, warnings
warnings.simplefilter('ignore')
logging.disable(logging.CRITICAL)
import sc3
sc3.LIB_PORT = 57400 + os.getpid() % 400
sc3.LIB_PORT_RANGE = 8
sc3.init('rt')
from sc3.base.main import main
from sc3.base.clock import SystemClock, TempoClock, AppClock
from sc3.base.functions import Function
from sc3.base.stream import Routine


def run_batch(b):
    log = []
    funcs, wraps, routs = {}, {}, {}

    def func(obj):                         # ONE python function per obj; labels are attached per scheduling
        if obj not in funcs:
            cell = {'labels': []}
            def f():
                log.append(cell['labels'].pop(0) if cell['labels'] else 'f%s?' % obj)
            funcs[obj] = (f, cell)
        return funcs[obj]
    def make_routine():
        cell = {'labels': []}
        def body():
            log.append(cell['labels'][-1])
            yield None
        return Routine(body), cell
    clock = SystemClock if b['clock'] == 'system' else TempoClock(float(b.get('tempo', '1')))
    expect = b['expect']
    try:
        with main._main_lock:              # the clock thread cannot pop before the whole batch is queued
            base = (main.current_tt._seconds if clock is SystemClock else clock.beats) + 0.5
            for label, kind, obj, k in b['items']:
                t = base + k / 16
                if kind == 'plain':
                    f, cell = func(obj)
                    cell['labels'].append(label)     # popped in wake-up order: valid because slots of one obj increase
                    clock.sched_abs(t, f)
                elif kind == 'wrap':
                    if obj not in wraps:
                        f, cell = func('w%s' % obj)
                        wraps[obj] = (Function(f), cell)
                    w, cell = wraps[obj]
                    cell['labels'][:] = [label]      # the same object again replaces its pending wake-up
                    clock.sched_abs(t, w)
                else:
                    if obj not in routs:
                        routs[obj] = make_routine()
                    r, cell = routs[obj]
                    cell['labels'][:] = [label]
                    clock.sched_abs(t, r)
        deadline = time.time() + 12            # lower bound on progress only
        while len(log) < expect and time.time() < deadline:
            time.sleep(0.02)
        time.sleep(0.15)                       # anything that should NOT wake would have by now (slots are past)
    finally:
        if clock is not SystemClock:
            clock.stop()
    return {'log': list(log), 'complete': len(log) >= expect}


def run_app(b):
    """AppClock (the non-recursive Scheduler: everything that expired in one tick is popped first, then woken):
    a batch of sched(delta, f) calls made while the scheduler lock is held -- from outside, or from inside a task
    running in the AppClock thread -- so that SEVERAL tasks are due at one tick.  AppClock stamps with physical
    time, so the due times are read back from the queue (under the same lock) and returned."""
    log, cells, sched_info = [], {}, []

    def make(label):
        cell = {'label': label}
        def f():
            log.append(cell['label'])
        return f, cell

    def batch():
        wraps = {}
        for label, kind, obj, k in b['items']:
            if kind == 'wrap':                       # the same Function object again: replaces its pending wake-up
                if obj not in wraps:
                    f, cell = make(label)
                    wraps[obj] = (Function(f), cell)
                    cells[f] = cell
                w, cell = wraps[obj]
                cell['label'] = label
                AppClock.sched(k / 16, w)
            else:                                    # a plain python function: a fresh wrapper, a new item
                f, cell = make(label)
                cells[f] = cell
                AppClock.sched(k / 16, f)
        for t, item in list(AppClock._scheduler.queue):
            if item.func in cells:
                sched_info.append([cells[item.func]['label'], repr(float(t))])
    if b.get('inside'):
        AppClock.sched(0, lambda: batch())           # runs in the AppClock thread, inside a tick
    else:
        with main._main_lock:                        # AppClock._sched_lock: no tick before the batch is complete
            batch()
    deadline = time.time() + 12
    while len(log) < b['expect'] and time.time() < deadline:
        time.sleep(0.02)
    time.sleep(0.15)
    return {'log': list(log), 'complete': len(log) >= b['expect'], 'queued': sched_info}


def main_():
    spec = json.load(open(sys.argv[1]))
    out = []
    for b in spec['batches']:
        try:
            out.append(run_app(b) if b['clock'] == 'app' else run_batch(b))
        except BaseException as e:
            out.append({'error': '%s: %s' % (type(e).__name__, e)})
    json.dump({'out': out}, open(sys.argv[2], 'w'))
    sys.stdout.flush()
    os._exit(0)


main_()
