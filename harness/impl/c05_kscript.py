"""Compile script programs (coq/model/KProg.v) into REAL sc3 routines and run them.

JSON program:
  {"tempos": ["1", "2"], "bodies": [[act, ...], ...], "main": [act, ...], "tail": "0"}
  act  = ["Y", q] | ["S", lat, m] | ["M", m] | ["B", lat, [elem, ...]] | ["P", r, clock] | ["F", r]
       | ["T", i, q] | ["R"]
  elem = ["m", m] | ["b", lat, [elem, ...]]       lat = null | q        clock = "S" | "A" | ["T", i]
  q    = string of a Fraction (dyadic)

Modes (one per process): nrt -> deterministic run + main.process(tail); rt -> real clocks under injected
jitter, outgoing datagrams captured by replacing the OSC interface's _send.

Output per case: events (as in KProg.event), score (nrt), elapsed (nrt), schedule (rt), errors.
All times are exact Fractions printed as strings."""
import json, os, sys, struct, threading, time, math, random, logging
from fractions import Fraction

MODE = os.environ.get('SC3_MODE', 'nrt')
import sc3
if MODE == 'rt':
    sc3.LIB_PORT = int(os.environ.get('SC3_LIB_PORT', '58000'))
    sc3.LIB_PORT_RANGE = 50
sc3.init(MODE, 'CRITICAL')
logging.disable(logging.CRITICAL)

from sc3.base.main import main
from sc3.base.stream import Routine
from sc3.base.clock import SystemClock, AppClock, TempoClock
from sc3.base.netaddr import NetAddr
import sc3.base._oscinterface as osci


def fr(x):
    """exact value of a Python number as a Fraction string"""
    if isinstance(x, bool) or x is None:
        return None
    return str(Fraction(x))


_INTS = False       # per case: integral numbers are handed to the library as Python ints (yield 0, latency 0, tempo 2)


def num(q):
    if q == '-0':
        return -0.0
    f = Fraction(q)
    if _INTS and f.denominator == 1:
        return int(f)
    v = float(f)
    assert Fraction(v) == f, q
    return v


def lat_of(l):
    return None if l is None else num(l)


# ---------------------------------------------------------------- OSC datagram reader (own code)
def _pad4(n):
    return (n + 3) & ~3


def parse_packet(b):
    """-> ['m', addr, args] | ['b', timetag, [elements]]"""
    if b[:8] == b'#bundle\x00':
        tag = struct.unpack('>Q', b[8:16])[0]
        pos, els = 16, []
        while pos < len(b):
            n = struct.unpack('>i', b[pos:pos + 4])[0]
            pos += 4
            if n < 0 or pos + n > len(b):
                raise ValueError('bad element size')
            els.append(parse_packet(b[pos:pos + n]))
            pos += n
        return ['b', tag, els]
    end = b.index(b'\x00')
    addr = b[:end].decode()
    pos = _pad4(end + 1)
    args = []
    if pos < len(b):
        tend = b.index(b'\x00', pos)
        tags = b[pos:tend].decode()
        pos = _pad4(tend + 1)
        for t in tags[1:]:
            if t == 'i':
                args.append(struct.unpack('>i', b[pos:pos + 4])[0]); pos += 4
            elif t == 'f':
                args.append(struct.unpack('>f', b[pos:pos + 4])[0]); pos += 4
            elif t == 's':
                e = b.index(b'\x00', pos); args.append(b[pos:e].decode()); pos = _pad4(e + 1)
            elif t == 'b':
                n = struct.unpack('>i', b[pos:pos + 4])[0]
                args.append(bytes(b[pos + 4:pos + 4 + n])); pos = _pad4(pos + 4 + n)
            else:
                raise ValueError('unexpected type tag ' + t)
    return ['m', addr, args]


def msg_id(addr, args):
    if addr == '/m':
        return int(args[0])
    if addr == '/g_new':
        return -2
    if addr == '/c_set':
        return -1
    return -99


def merge(times, wire, rt_offset=None):
    """times: score-list style bundle [time, el...] (or None in rt); wire: parsed datagram.
    -> stamped tree ['b', imm, time, tag, [..]] | ['m', id]"""
    if wire[0] == 'm':
        return ['m', msg_id(wire[1], wire[2])]
    tag = wire[1]
    els = wire[2]
    if times is not None:
        t = times[0]
        sub = times[1:]
        assert len(sub) == len(els)
    else:
        t = None
        sub = [None] * len(els)
    out = []
    for s, w in zip(sub, els):
        if w[0] == 'm':
            out.append(merge(None, w))
        else:
            out.append(merge(s, w, rt_offset))
    if rt_offset is not None:
        # RT: only the timetag is observable; 1 = IMMEDIATELY; otherwise the due time it denotes
        if tag == 1:
            return ['b', True, None, tag, out]
        return ['b', False, str(Fraction(tag - rt_offset, 1 << 32)), tag, out]
    return ['b', False, fr(t) if t is not None else None, tag, out]


# address objects that OUTLIVE main.reset(): created once, before any reset (every NRT case is a new "life" of the session)
_GLOBAL_ADDR = NetAddr('127.0.0.1', 57110)
_PREVIOUS_ADDR = [NetAddr('127.0.0.1', 57110)]


def _pick_addrs(kind):
    """-> the address objects a run sends through (round-robin)"""
    fresh = NetAddr('127.0.0.1', 57110)
    if MODE != 'nrt' or kind in (None, 'fresh'):
        res = [fresh]
    elif kind == 'global':
        res = [_GLOBAL_ADDR]
    elif kind == 'previous':
        res = [_PREVIOUS_ADDR[0]]
    elif kind == 'server':
        from sc3.synth.server import Server
        res = [Server.default.addr]
    else:                                   # 'mixed': old and new address objects alternate
        from sc3.synth.server import Server
        res = [_GLOBAL_ADDR, fresh, Server.default.addr, _PREVIOUS_ADDR[0]]
    _PREVIOUS_ADDR[0] = fresh
    return res


class _AddrRing:
    def __init__(self, addrs):
        self.addrs, self.i = addrs, 0

    def _next(self):
        a = self.addrs[self.i % len(self.addrs)]
        self.i += 1
        return a

    def send_bundle(self, *a):
        return self._next().send_bundle(*a)

    def send_msg(self, *a):
        return self._next().send_msg(*a)


# ---------------------------------------------------------------- running a program
class Run:
    def __init__(self, prog, mode, share=False):
        self.prog = prog
        self.mode = mode
        self.share = share          # send the SAME Python list objects for equal element lists
        self.cache = {}
        self.mutations = []
        self.top_bounds = []
        self.closed = False
        self.lost_sends = []
        self.count_before = -1
        self.busy_rng = random.Random(len(json.dumps(prog)))
        self.events = []
        self.schedule = []      # rt: ['top', now] | ['wake', rid, now]
        self.nrout = 0
        self.nended = 0
        self.clocks = []
        self.addr = _AddrRing(_pick_addrs(prog.get('addr')))
        self.last_dgram = None
        self.errors = []
        self.lock = main._main_lock

    def clock_of(self, c):
        if c == 'S':
            return SystemClock
        if c == 'A':
            return AppClock
        return self.clocks[c[1]]

    def code_of(self, clock):
        if clock is SystemClock:
            return 'S'
        if clock is AppClock:
            return 'A'
        return ['T', self.clocks.index(clock)]

    def build_elems(self, es):
        out = []
        for e in es:
            if e[0] == 'm':
                out.append(['/m', int(e[1])])
            else:
                out.append([lat_of(e[1])] + self.build_elems(e[2]))
        return out

    def stamped_of_last(self):
        if self.mode == 'nrt':
            score = main._osc_interface._osc_score
            ent = max((x for x in score._scoreq._queue), key=lambda x: x[1])
            if ent[1] <= self.count_before:
                # the send returned normally but THIS life's score did not get an entry
                self.lost_sends.append({'addr_kind': self.prog.get('addr', 'fresh'), 'at_logical_time': fr(main.current_tt._m_seconds),
                                        'entries_in_this_lifes_score': len(score._scoreq._queue)})
                return None
            entry = ent[2]
            wire = parse_packet(bytes(entry.msg[4:]))
            return merge(entry.bndl, wire)
        else:
            wire = parse_packet(self.last_dgram)
            return merge(None, wire, SystemClock._elapsed_osc_offset)

    def elems_obj(self, es):
        if not self.share:
            return self.build_elems(es)
        key = json.dumps(es)
        if key not in self.cache:
            self.cache[key] = self.build_elems(es)
        return self.cache[key]

    def do_send(self, org, lat, es):
        T = main.current_tt._m_seconds if org is not None else None
        self.last_dgram = None
        self.mark_score()
        before = main.elapsed_time() if (org is None and self.mode == 'rt') else None
        try:
            obj = self.elems_obj(es)
            self.addr.send_bundle(lat_of(lat), *obj)
            ok = True
            if self.share:
                fresh = self.build_elems(es)
                if obj != fresh:
                    self.mutations.append({'sent': es, 'callers_list_after_send': json.loads(json.dumps(obj)),
                                           'at_logical_time': fr(main.current_tt._m_seconds)})
        except Exception:       # ValueError (_check_subtime) or OscBundleBuildError (negative timetag)
            ok = False
        if org is None:
            T = main.main_tt._m_seconds     # the value send_bundle has just read
            if before is not None:
                # the main thread's time is refreshed from the physical clock at every read: it lies between two
                # readings the harness takes itself (bounds that load cannot trip: the proxy is monotone)
                self.top_bounds.append(['send', fr(before), fr(T), fr(main.elapsed_time())])
        res = self.stamped_of_last() if ok else None
        self.events.append(['send', org, fr(T), lat, es, res])
        return ok

    def do_sendmsg(self, org, m):
        if self.mode == 'nrt':
            return self.do_send_nrt_msg(org, m)
        self.last_dgram = None
        self.addr.send_msg('/m', int(m))
        T = main.current_tt._m_seconds if org is not None else main.main_tt._m_seconds
        wire = parse_packet(self.last_dgram)
        self.events.append(['sendmsg', org, fr(T), msg_id(wire[1], wire[2])])
        return True

    def mark_score(self):
        if self.mode == 'nrt':
            self.count_before = max(x[1] for x in main._osc_interface._osc_score._scoreq._queue)

    def do_send_nrt_msg(self, org, m):
        self.mark_score()
        T = main.current_tt._m_seconds
        try:
            self.addr.send_msg('/m', int(m))
            ok = True
        except Exception:
            ok = False
        res = self.stamped_of_last() if ok else None
        self.events.append(['send', org, fr(T), '0', [['m', int(m)]], res])
        return ok

    def do_play(self, org, r, clock):
        rid = self.nrout
        self.nrout += 1
        rout = Routine(self.make_body(r, rid))
        T0 = main.current_tt._m_seconds if org is not None else None
        before = main.elapsed_time() if (org is None and self.mode == 'rt') else None
        rout.play(clock, 0)
        T = T0 if org is not None else main.main_tt._m_seconds
        if before is not None:
            self.top_bounds.append(['play', fr(before), fr(T), fr(main.elapsed_time())])
        self.events.append(['play', org, rid, self.code_of(clock), fr(T)])
        return True

    def do_tempo(self, org, i, v):
        if self.mode == 'rt' and org is not None:
            # a busy body: the routine is LATE (physical time ahead of its logical time) when it changes the tempo
            t_end = time.time() + 0.002
            while time.time() < t_end:
                pass
        try:
            self.clocks[i].tempo = num(v)
            ok = True
        except ValueError:
            ok = False
        self.events.append(['tempo', org, i, v, ok])
        return ok

    def act(self, org, a, cclk):
        """-> True when the action did not raise"""
        k = a[0]
        if k == 'S':
            return self.do_send(org, a[1], [['m', a[2]]])
        if k == 'M':
            return self.do_sendmsg(org, a[1])
        if k == 'B':
            return self.do_send(org, a[1], a[2])
        if k == 'P':
            if a[2] not in ('S', 'A') and a[2][1] >= len(self.clocks):
                return False
            if a[1] >= len(self.prog['bodies']):
                return False
            return self.do_play(org, a[1], self.clock_of(a[2]))
        if k == 'F':
            if a[1] >= len(self.prog['bodies']):
                return False
            return self.do_play(org, a[1], cclk)
        if k == 'T':
            if a[1] >= len(self.clocks):
                self.events.append(['tempo', org, a[1], a[2], False])
                return False
            return self.do_tempo(org, a[1], a[2])
        raise AssertionError(a)

    def make_body(self, r, rid):
        acts = self.prog['bodies'][r]
        run = self

        def body(inval):
            rout, clock = inval
            k = 0
            try:
                run.on_resume(rid, k, clock)
                for a in acts:
                    if a[0] == 'Y':
                        rout, clock = yield num(a[1])
                        k += 1
                        run.on_resume(rid, k, clock)
                    elif a[0] == 'R':
                        break
                    else:
                        if not run.act([rid, k], a, clock):
                            raise RuntimeError('script action raised')
            except RuntimeError:
                run.on_end(rid, k, True)
                raise
            except GeneratorExit:
                raise
            cl = run.prog.get('close')
            if cl and cl['body'] == r and not run.closed:
                # the score is closed from INSIDE this routine, at its logical time
                run.closed = True
                if cl['how'] == 'finish':
                    main._osc_interface._osc_score.finish(num(cl['tail']))
                else:
                    main.process(num(cl['tail']))
            run.on_end(rid, k, False)
        return body

    def on_resume(self, rid, k, clock):
        if self.mode == 'rt' and self.prog.get('busy'):
            # a busy body: the clock thread falls behind by MORE than the deltas the routines yield
            if self.busy_rng.random() < float(Fraction(self.prog['busy'])):
                t_end = time.time() + 0.003
                while time.time() < t_end:
                    pass
        secs = main.current_tt._seconds
        beats = clock.beats
        if self.mode == 'rt':
            self.schedule.append(['wake', rid, fr(main.elapsed_time())])
        self.events.append(['resume', rid, k, self.code_of(clock), fr(secs), fr(beats)])

    def on_end(self, rid, k, raised):
        self.events.append(['end', rid, k, raised])
        self.nended += 1

    def top(self):
        """create the tempo clocks and run the main script outside any routine"""
        for t in self.prog['tempos']:
            with self.lock:
                c = TempoClock(num(t))
                self.clocks.append(c)
                if self.mode == 'rt':
                    self.schedule.append(['clock', fr(c._base_seconds)])
        for a in self.prog['main']:
            if a[0] == 'R':
                break
            with self.lock:
                try:
                    if a[0] != 'Y':
                        self.act(None, a, SystemClock)
                except Exception as e:
                    self.errors.append('top-level %s: %r' % (a, e))
                if self.mode == 'rt':
                    self.schedule.append(['top', fr(main.main_tt._m_seconds)])


def run_nrt(prog, share=False):
    global _INTS
    _INTS = bool(prog.get('ints'))
    main.reset()
    run = Run(prog, 'nrt', share)
    run.top()
    score = main.process(num(prog['tail']))
    lst = score.list
    raw = bytes(score.raw)
    # independent split of the raw score into length-prefixed chunks
    chunks, pos = [], 0
    while pos < len(raw):
        n = struct.unpack('>i', raw[pos:pos + 4])[0]
        chunks.append(raw[pos + 4:pos + 4 + n])
        pos += 4 + n
    ok_raw = (pos == len(raw)) and len(chunks) == len(lst)
    sc = []
    if ok_raw:
        for b, ch in zip(lst, chunks):
            sc.append(merge(b, parse_packet(ch)))
    return {'events': run.events, 'score': sc, 'raw_ok': ok_raw, 'elapsed': fr(main.elapsed_time()),
            'errors': run.errors, 'nrout': run.nrout, 'nended': run.nended, 'mutations': run.mutations, 'lost_sends': run.lost_sends,
            'raw_len': len(raw), 'raw_hex': raw.hex() if len(raw) <= 4096 else None, 'chunk_lens': [len(c) for c in chunks]}


# ---------------------------------------------------------------- rt: jitter injection
class Jitter:
    def __init__(self, seed):
        self.rng = random.Random(seed)
        self.last = 0.0
        self.lock = threading.Lock()
        self.t0 = main._init_time
        self.on = True

    def elapsed(self):
        with self.lock:
            v = time.time() - self.t0
            if self.on and self.rng.random() < 0.5:
                v += self.rng.random() * 0.02
            v = math.floor(v * 65536.0) / 65536.0
            if v < self.last:
                v = self.last
            self.last = v
            return v


_jit = None
_burn = True


def _burner():
    x = 0
    while _burn:
        for _ in range(20000):
            x = (x * 1103515245 + 12345) & 0x7fffffff
        time.sleep(0.0005)


def rt_setup(seed):
    global _jit
    _jit = Jitter(seed)
    type(main).elapsed_time  # Process metaclass defines a default; RtMain overrides as classmethod
    main.elapsed_time = _jit.elapsed
    for _ in range(2):
        threading.Thread(target=_burner, daemon=True).start()


def _no_wakeup_pending(clocks):
    """call with the main lock held (so no task is running): True when no RT clock holds a wake-up for anything"""
    qs = [SystemClock._task_queue, AppClock._scheduler.queue] + [c._task_queue for c in clocks]
    return all(q.empty() for q in qs)


def run_rt(prog):
    global _INTS
    _INTS = bool(prog.get('ints'))
    run = Run(prog, 'rt')
    iface = main._osc_interface

    def logging_send(msg, target):
        run.last_dgram = bytes(msg.dgram)
    iface._send = logging_send
    run.top()
    deadline = time.time() + 6.0
    lost = False
    while time.time() < deadline:
        with run.lock:
            if run.nended >= run.nrout:
                break
            if _no_wakeup_pending(run.clocks):
                # not a matter of time: routines have not ended and NO clock will ever wake them (load cannot cause this)
                lost = True
                break
        time.sleep(0.01)
    with run.lock:
        done = run.nended >= run.nrout
        for c in run.clocks:
            c.clear()
        SystemClock.clear()
    for c in run.clocks:
        c.stop()
    return {'events': run.events, 'schedule': run.schedule, 'errors': run.errors, 'completed': done, 'lost_wakeup': lost, 'top_bounds': run.top_bounds,
            'offset': str(SystemClock._elapsed_osc_offset), 'nrout': run.nrout, 'nended': run.nended}


# ---------------------------------------------------------------- law probes (no model: the harness has its own oracle)
def run_probe(pr):
    """One scheduling operation issued from inside a routine that runs on clock pr['parent'], started at a
    non-zero time and advanced by a yield; see props/_kscript.py:probe_expected for the law."""
    from sc3.base.clock import defer
    global _INTS
    _INTS = bool(pr.get('ints'))
    if MODE == 'nrt':
        main.reset()
    lock = main._main_lock
    obs = {'done': False}
    clocks = []
    with lock:
        for t in pr['tempos']:
            clocks.append(TempoClock(num(t)))
        obs['clock_base'] = [fr(c._base_seconds) for c in clocks]

    def ck(c):
        return SystemClock if c == 'S' else AppClock if c == 'A' else clocks[c[1]]
    parent, target = ck(pr['parent']), ck(pr['target'])
    op = pr['op']

    def snap(tag, clock):
        obs[tag] = {'secs': fr(main.current_tt._seconds), 'beats': fr(clock.beats)}

    def f():
        snap('ran', target)
        obs['done'] = True

    def child(inval):
        _, clock = inval
        snap('ran', clock)
        obs['done'] = True
        yield num('1/64')

    def parent_body(inval):
        _, clock = inval
        yield num(pr['adv'])
        snap('at_op', clock)
        obs['target_beats_at_op'] = fr(target.beats)
        if MODE == 'rt':
            t_end = time.time() + 0.002        # be late
            while time.time() < t_end:
                pass
        if op == 'sched':
            target.sched(num(pr['delta']), f)
        elif op == 'defer':
            defer(f, num(pr['delta']), target)
        elif op == 'play':
            Routine(child).play(target, 0)
        elif op == 'state_op':
            # another routine resets / stops / pauses+resumes a routine whose wake-up is PENDING; the victim keeps yielding
            obs['resumes'] = []

            def victim2(inv):
                _, vclock = inv
                for _j in range(pr['n']):
                    obs['resumes'].append([fr(main.current_tt._seconds), fr(vclock.beats)])
                    yield num(pr['after'])
                obs['resumes'].append([fr(main.current_tt._seconds), fr(vclock.beats)])
            vr2 = Routine(victim2)
            vr2.play(target, 0)
            yield num(pr['adv'])
            snap('at_resched', clock)
            sop = pr['sop']
            other = SystemClock if target is not SystemClock else (clocks[0] if clocks else SystemClock)
            if sop == 'reset':
                vr2.reset()
            elif sop == 'stop':
                vr2.stop()
            elif sop == 'noop_play':
                # documented no-ops on a routine that is already playing (Suspended, waiting on its clock): its timeline stays untouched
                vr2.play()
                vr2.play(other, 0)
                vr2.play(target, 0)
                vr2.resume()
                vr2.resume(other, 0)
            elif sop == 'stop_then_noops':
                vr2.stop()
                vr2.play()                 # Done: play / resume / pause do nothing, it never runs again
                vr2.resume()
                vr2.pause()
                vr2.play(other, 0)
            else:
                vr2.pause()
                if sop == 'pause_noops_resume':
                    vr2.pause()            # Paused: pausing again changes nothing
                yield num(pr['adv2'])
                snap('at_resume', clock)
                obs['target_beats_at_resume'] = fr(target.beats)
                if pr.get('rquant') is None:
                    vr2.resume()
                else:
                    vr2.resume(None, num(pr['rquant']))
            yield num(pr['after']) * (2 * pr['n'] + 4)          # let the victim finish (or stay silent)
            obs['done'] = True
        elif op == 'playq':
            # play with a Quant onto a TempoClock: default (None), int, tuple, Quant object, negative phases
            from sc3.base.clock import Quant
            if pr.get('bpb') and clock is target:
                target.beats_per_bar = num(pr['bpb'])        # moves base_bar_beat to the current beat
            obs['base_bar_beat'] = fr(getattr(target, '_base_bar_beat', 0))
            qd = pr['quant']
            if qd is None:
                qv = None
            elif qd[0] == 'int':
                qv = num(qd[1])
            elif qd[0] == 'tuple':
                qv = (num(qd[1]), num(qd[2]))
            else:
                qv = Quant(num(qd[1]), num(qd[2]))
            if pr.get('how') == 'clock.play':
                target.play(Routine(child), qv)
            else:
                Routine(child).play(target, qv)
        elif op == 'sched_abs':
            at = (target.beats if isinstance(target, TempoClock) else main.current_tt._seconds) + num(pr['delta'])
            target.sched_abs(at, f)
        elif op == 'reads':
            # every time-reading public method, from a LATE routine: all must answer from the thread's logical time
            obs['reads'] = {'System.seconds': fr(SystemClock.seconds), 'System.beats': fr(SystemClock.beats),
                            'App.seconds': fr(AppClock.seconds), 'clock.seconds': fr(clock.seconds)}
            for j, tc in enumerate(clocks):
                obs['reads']['T%d.beats' % j] = fr(tc.beats)
                obs['reads']['T%d.seconds' % j] = fr(tc.seconds)
                obs['reads']['T%d.next_time_on_grid' % j] = fr(tc.next_time_on_grid(1, 0))
                obs['reads']['T%d.time_to_next_beat' % j] = fr(tc.time_to_next_beat(1))
                obs['reads']['T%d.bar' % j] = fr(tc.bar())
                obs['reads']['T%d.next_bar' % j] = fr(tc.next_bar())
                obs['reads']['T%d.beat_in_bar' % j] = fr(tc.beat_in_bar())
            obs['done'] = True
        elif op == 'self_resched':
            # the routine schedules ITSELF again during its own wake-up, then yields: one pending wake-up, the yield's
            clock.sched(num(pr['delta']), inval[0])
            obs['resumes'] = []
            for _j in range(2):
                yield num(pr['after'])
                obs['resumes'].append(fr(main.current_tt._seconds))
            obs['done'] = True
        elif op == 'other_resched':
            obs['resumes'] = []

            def victim(inv):
                obs['resumes'].append(fr(main.current_tt._seconds))
                yield num(pr['after']) * 4
                obs['resumes'].append(fr(main.current_tt._seconds))
                yield num(pr['after'])
                obs['resumes'].append(fr(main.current_tt._seconds))
                obs['done'] = True
            vr = Routine(victim)
            vr.play(target, 0)
            yield num(pr['adv'])
            snap('at_resched', clock)
            target.sched(num(pr['delta']), vr)          # replaces the victim's pending wake-up
            if isinstance(target, TempoClock) and pr.get('val2'):
                target.tempo = num(pr['val2'])          # ... and the clock is re-timed right after
        elif op == 'beats':
            clock.beats = num(pr['val'])
            snap('after_set', clock)
        elif op == 'etempo':
            clock.etempo(num(pr['val']))
            snap('after_set', clock)
        elif op == 'tempo':
            clock.tempo = num(pr['val'])
            snap('after_set', clock)
        if op in ('beats', 'etempo', 'tempo'):
            yield num(pr['after'])
            snap('ran', clock)
            if MODE == 'rt':
                got = []
                main._osc_interface._send = lambda msg, target: got.append(bytes(msg.dgram))
                NetAddr('127.0.0.1', 57110).send_bundle(num(pr['delta']), ['/m', 1])
                obs['timetag'] = str(struct.unpack('>Q', got[0][8:16])[0])
                obs['osc_offset'] = str(SystemClock._elapsed_osc_offset)
            obs['done'] = True

    def root(inval):
        snap('root', SystemClock)
        yield num(pr['start'])
        Routine(parent_body).play(parent, 0)

    with lock:
        Routine(root).play(SystemClock)
    if MODE == 'nrt':
        main.process(0)
    else:
        deadline = time.time() + 5.0
        while time.time() < deadline:
            with lock:
                if obs['done']:
                    break
            time.sleep(0.01)
        for c in clocks:
            c.stop()
    return obs


# ---------------------------------------------------------------- C05 strengthening 2: tasks that END or RAISE next to survivors
def run_alongside(pr):
    """Survivor routines on SystemClock / TempoClocks record the logical time of every resumption while short routines and
    functions on AppClock (and on every other clock) end or raise at staggered instants."""
    if MODE == 'nrt':
        main.reset()
    lock = main._main_lock
    clocks = []
    with lock:
        for t in pr['tempos']:
            clocks.append(TempoClock(num(t)))

    def ck(c):
        return SystemClock if c == 'S' else AppClock if c == 'A' else clocks[c[1]]
    obs = {'survivors': [[] for _ in pr['survivors']], 'enders_ran': 0, 'done': 0}

    def survivor(i, spec):
        def body(inval):
            _, clock = inval
            for _k in range(spec['n']):
                obs['survivors'][i].append([fr(main.current_tt._seconds), fr(clock.beats)])
                yield num(spec['delta'])
            obs['survivors'][i].append([fr(main.current_tt._seconds), fr(clock.beats)])
            obs['done'] += 1
        return body

    class Boom(Exception):
        pass

    from sc3.base.stream import StopStream

    def ender(spec):
        kind = spec['kind']
        if kind in ('routine_end', 'routine_raise', 'nested_raise', 'nested_end'):
            def body(inval):
                yield num(spec['delay'])
                obs['enders_ran'] += 1
                if kind == 'routine_raise':
                    raise Boom('script')
                if kind.startswith('nested'):
                    def inner_body():
                        if kind == 'nested_raise':
                            raise Boom('inner')
                        return
                        yield 1
                    try:
                        Routine(inner_body).next()     # Routine.next exits by an exception inside another routine
                    except (Boom, StopStream):
                        pass
                # falls off the end -> StopStream inside the clock
            return ('r', body)
        if kind == 'routine_raise_first':
            def body1(inval):
                obs['enders_ran'] += 1
                raise Boom('first step')
                yield 1
            return ('s', Routine(body1))              # raises at its FIRST step, scheduled with sched(delay, routine)
        state = {'n': 0}

        def f():
            obs['enders_ran'] += 1
            if kind == 'func_raise':
                raise Boom('script')
            if kind == 'func_stop':
                raise StopStream
            if kind == 'func_num':
                state['n'] += 1
                return num('1/256') if state['n'] < 3 else None     # numeric return: re-scheduled twice
            return None
        return ('f', f)

    def top():
        for i, spec in enumerate(pr['survivors']):
            Routine(survivor(i, spec)).play(ck(spec['clock']), 0)
        for spec in pr['enders']:
            tag, obj = ender(spec)
            if tag == 'r':
                Routine(obj).play(ck(spec['clock']), 0)
            else:
                ck(spec['clock']).sched(num(spec['delay']), obj)

    def root(inval):
        yield num(pr['start'])
        top()
    with lock:
        Routine(root).play(SystemClock)
    if MODE == 'nrt':
        main.process(0)
    else:
        deadline = time.time() + 8.0
        while time.time() < deadline:
            with lock:
                if obs['done'] >= len(pr['survivors']):
                    break
                if _no_wakeup_pending(clocks):
                    obs['lost_wakeup'] = True
                    break
            time.sleep(0.01)
        time.sleep(0.02)
        with lock:
            SystemClock.clear()
            AppClock.clear()
        for c in clocks:
            c.stop()
    obs['completed'] = obs['done'] >= len(pr['survivors'])
    # leaked state, observed from outside after everything ran
    with lock:
        obs['current_tt_is_main'] = main.current_tt is main.main_tt
        obs['in_awake_call'] = bool(getattr(main, '_in_awake_call', False))
    return obs


# ---------------------------------------------------------------- C07 strengthening 2: oversized bundles (clumped sends)
def run_clump(pr):
    """An oversized bundle sent through send_clumped_bundles / BundleNetAddr / sync(elements); pieces as they reach the
    low-level send (RT) or the score (NRT)."""
    from sc3.base.netaddr import BundleNetAddr
    from sc3.base.stream import Condition
    if MODE == 'nrt':
        main.reset()
    lock = main._main_lock
    addr = NetAddr('127.0.0.1', 57110)
    elements = [['/m', i, 'x' * pr['blob']] for i in range(pr['nmsg'])]
    lat = lat_of(pr['lat'])
    obs = {'done': False, 'pieces': [], 'error': None}
    captured = []
    if MODE == 'rt':
        main._osc_interface._send = lambda msg, target: captured.append(bytes(msg.dgram))
        obs['osc_offset'] = str(SystemClock._elapsed_osc_offset)

    def ids_of(tree):
        out = []
        if tree[0] == 'm':
            if tree[1] == '/m':
                out.append(int(tree[2][0]))
        else:
            for e in tree[2]:
                out.extend(ids_of(e))
        return out

    def do_send():
        score = main._osc_interface._osc_score if MODE == 'nrt' else None
        c0 = max(x[1] for x in score._scoreq._queue) if score else None
        obs['T'] = fr(main.current_tt._m_seconds)
        try:
            route = pr['route']
            if route == 'clumped':
                addr.send_clumped_bundles(lat, *elements)
            elif route == 'bundlenetaddr':
                with BundleNetAddr(addr) as b:          # no server: the collected bundle goes out with latency None
                    for e in elements:
                        b.send_msg(*e)
            elif route == 'bundlenetaddr_server':
                class Stub:
                    pass
                st = Stub()
                st.addr, st.latency, st._addr = addr, lat, addr
                with BundleNetAddr(st) as b:
                    for e in elements:
                        b.send_msg(*e)
            elif route == 'sync':
                for _ in addr.sync(Condition(), lat, elements):   # driven by hand: no server answers
                    pass
        except Exception as e:
            obs['error'] = repr(e)
        if MODE == 'nrt':
            ents = sorted((x for x in score._scoreq._queue if x[1] > c0), key=lambda x: x[1])
            for prio, cnt, entry in ents:
                wire = parse_packet(bytes(entry.msg[4:]))
                obs['pieces'].append({'time': fr(entry.bndl[0]), 'tag': str(wire[1]), 'ids': ids_of(wire)})
        else:
            for d in captured:
                wire = parse_packet(d)
                obs['pieces'].append({'tag': str(wire[1]), 'ids': ids_of(wire)})
        obs['done'] = True

    if pr['inside']:
        def body(inval):
            yield num(pr['start'])
            if MODE == 'rt':
                t_end = time.time() + 0.002          # the sender is late
                while time.time() < t_end:
                    pass
            do_send()
        with lock:
            Routine(body).play(SystemClock)
        if MODE == 'nrt':
            main.process(0)
        else:
            deadline = time.time() + 6.0
            while time.time() < deadline and not obs['done']:
                time.sleep(0.01)
    else:
        with lock:
            do_send()
            if MODE == 'rt':
                obs['T'] = None       # outside routines every piece reads the physical clock anew
    return obs


# ---------------------------------------------------------------- C07 round 3: bundles nested in MESSAGES (completion messages)
def run_msgnest(pr):
    """send_msg('/cmd', 7, [lat, *elems], ['/x', 1]) or send_bundle(outer, ['/cmd', 7, [lat, *elems]]) from a (late) routine on any
    clock or from outside routines; returns the stamped tree of the nested bundle as read back from the bytes."""
    global _INTS
    _INTS = bool(pr.get('ints'))
    if MODE == 'nrt':
        main.reset()
    lock = main._main_lock
    addr = NetAddr('127.0.0.1', 57110)
    obs = {'done': False, 'raised': None}
    captured = []
    clocks = []
    with lock:
        for t in pr['tempos']:
            clocks.append(TempoClock(num(t)))
    if MODE == 'rt':
        main._osc_interface._send = lambda msg, target: captured.append(bytes(msg.dgram))
        obs['osc_offset'] = str(SystemClock._elapsed_osc_offset)

    def build(es):
        out = []
        for e in es:
            out.append(['/m', int(e[1])] if e[0] == 'm' else [lat_of(e[1])] + build(e[2]))
        return out

    def find_cmd(tree):
        if tree[0] == 'm':
            return tree if tree[1] == '/cmd' else None
        for e in tree[2]:
            r = find_cmd(e)
            if r is not None:
                return r
        return None

    def do_send(inside):
        nested = [lat_of(pr['lat'])] + build(pr['es'])
        score = main._osc_interface._osc_score if MODE == 'nrt' else None
        c0 = max(x[1] for x in score._scoreq._queue) if score else None
        before = main.elapsed_time() if (MODE == 'rt' and not inside) else None
        try:
            if pr['form'] == 'msg':
                addr.send_msg('/cmd', 7, nested, ['/x', 1])
            else:
                addr.send_bundle(lat_of(pr['outer']), ['/cmd', 7, nested])
        except Exception as e:
            obs['raised'] = type(e).__name__
        obs['T'] = fr(main.current_tt._m_seconds if inside else main.main_tt._m_seconds)
        if before is not None:
            obs['bounds'] = [fr(before), obs['T'], fr(main.elapsed_time())]
        if obs['raised'] is None:
            if MODE == 'nrt':
                ent = max((x for x in score._scoreq._queue if x[1] > c0), key=lambda x: x[1])
                top = parse_packet(bytes(ent[2].msg[4:]))
            else:
                top = parse_packet(captured[-1])
            cmd = find_cmd(top)
            blob = [a for a in cmd[2] if isinstance(a, (bytes, bytearray))][0]
            obs['nested'] = merge(None, parse_packet(blob), int(obs['osc_offset']) if MODE == 'rt' else 0)
            if MODE == 'nrt':
                obs['nested'] = _no_imm(obs['nested'])
        obs['done'] = True

    if pr['parent'] is None:
        with lock:
            do_send(False)
    else:
        clock = SystemClock if pr['parent'] == 'S' else AppClock if pr['parent'] == 'A' else clocks[pr['parent'][1]]

        def body(inval):
            yield num(pr['adv'])
            if MODE == 'rt':
                t_end = time.time() + 0.003        # the sender is late
                while time.time() < t_end:
                    pass
            do_send(True)

        def root(inval):
            yield num(pr['start'])
            Routine(body).play(clock, 0)
        with lock:
            Routine(root).play(SystemClock)
        if MODE == 'nrt':
            main.process(0)
        else:
            deadline = time.time() + 6.0
            while time.time() < deadline and not obs['done']:
                time.sleep(0.01)
    for c in clocks:
        if MODE == 'rt':
            c.stop()
    return obs


def _no_imm(tree):
    """NRT never writes IMMEDIATELY: a timetag 1 read back is the time 2^-32 s, not a flag"""
    if tree[0] == 'm':
        return tree
    return ['b', False, tree[2], tree[3], [_no_imm(x) for x in tree[4]]]


# ---------------------------------------------------------------- round 5: routines stepped with next() from OUTSIDE any clock
def run_nextdrive(pr):
    """A Routine is stepped by calling next() directly (main thread; or from inside a clock-woken routine when pr['host'] is a clock):
    at every step it records its logical time and sends bundles.  No clock wakes it."""
    global _INTS
    _INTS = bool(pr.get('ints'))
    if MODE == 'nrt':
        main.reset()
    lock = main._main_lock
    addr = NetAddr('127.0.0.1', 57110)
    obs = {'done': False, 'steps': []}
    captured = []
    clocks = []
    with lock:
        for t in pr['tempos']:
            clocks.append(TempoClock(num(t)))
    if MODE == 'rt':
        main._osc_interface._send = lambda msg, target: captured.append(bytes(msg.dgram))
        obs['osc_offset'] = str(SystemClock._elapsed_osc_offset)

    def build(es):
        return [['/m', int(e[1])] if e[0] == 'm' else [lat_of(e[1])] + build(e[2]) for e in es]

    def one_send(lat, es, rec):
        score = main._osc_interface._osc_score if MODE == 'nrt' else None
        c0 = max(x[1] for x in score._scoreq._queue) if score else None
        n0 = len(captured)
        try:
            addr.send_bundle(lat_of(lat), *build(es))
            if MODE == 'nrt':
                ent = max((x for x in score._scoreq._queue if x[1] > c0), key=lambda x: x[1])
                tree = _no_imm(merge(None, parse_packet(bytes(ent[2].msg[4:])), 0))
            else:
                tree = merge(None, parse_packet(captured[n0]), int(obs['osc_offset']))
            rec['sends'].append({'lat': lat, 'es': es, 'tree': tree, 'raised': None})
        except Exception as e:
            rec['sends'].append({'lat': lat, 'es': es, 'tree': None, 'raised': type(e).__name__})

    obs['tickers'] = [[] for _ in pr.get('tickers', [])]
    tdone = {'n': 0}

    def ticker(j, spec):
        # a routine PLAYED ON A CLOCK while the main thread is stepping another routine by hand
        def tbody(inval):
            _, clk_ = inval
            for _i in range(spec['n'] + 1):
                n0 = len(captured)
                addr.send_bundle(num(spec['lat']), ['/m', 1])
                obs['tickers'][j].append([fr(main.current_tt._seconds), fr(clk_.beats), str(parse_packet(captured[n0])[1]) if MODE == 'rt' else None])
                yield num(spec['delta'])
            tdone['n'] += 1
        return tbody
    if pr.get('tickers'):
        with lock:
            for j, spec in enumerate(pr['tickers']):
                tc = SystemClock if spec['clock'] == 'S' else clocks[spec['clock'][1]]
                Routine(ticker(j, spec)).play(tc, 0)

    def inner_body():
        for step in pr['steps']:
            if MODE == 'rt' and pr.get('slow_ms'):
                t_end = time.time() + pr['slow_ms'] / 1000.0     # a slow step: the main thread stays INSIDE next() for a while
                while time.time() < t_end:
                    pass
            rec = {'T': fr(main.current_tt._m_seconds), 'sends': []}
            for lat, es in step:
                one_send(lat, es, rec)
            obs['steps'].append(rec)
            yield 1

    def drive(rout, outer_T):
        for _ in pr['steps']:
            before = main.elapsed_time() if (MODE == 'rt' and outer_T is None) else None
            rout.next()
            if before is not None:
                obs['steps'][-1]['bounds'] = [fr(before), fr(main.elapsed_time())]
            if outer_T is not None:
                obs['steps'][-1]['outer_T'] = fr(outer_T())
            if MODE == 'rt' and outer_T is None:
                time.sleep(0.003)

    host = pr.get('host')
    if host is None:
        r = Routine(inner_body)
        if pr.get('wrap'):
            # the stepped routine itself steps an inner routine (two levels of next())
            inner = Routine(inner_body)

            def mid_body():
                for _ in pr['steps']:
                    inner.next()
                    yield 1
            r = Routine(mid_body)
        drive(r, None)
        if pr.get('tickers'):
            deadline = time.time() + 6.0
            while time.time() < deadline and tdone['n'] < len(pr['tickers']):
                time.sleep(0.01)
            obs['tickers_done'] = tdone['n'] >= len(pr['tickers'])
        obs['done'] = True
    else:
        clock = SystemClock if host == 'S' else AppClock if host == 'A' else clocks[host[1]]

        def host_body(inval):
            yield num(pr['start'])
            if MODE == 'rt':
                t_end = time.time() + 0.003
                while time.time() < t_end:
                    pass
            drive(Routine(inner_body), lambda: main.current_tt._m_seconds)
            obs['done'] = True
        with lock:
            Routine(host_body).play(clock, 0)
        if MODE == 'nrt':
            main.process(0)
        else:
            deadline = time.time() + 6.0
            while time.time() < deadline and not obs['done']:
                time.sleep(0.01)
    for c in clocks:
        if MODE == 'rt':
            c.stop()
    return obs


# ---------------------------------------------------------------- round 5: clock state changes, then the routine keeps sending
def run_clockseq(pr):
    """A routine on a TempoClock runs a sequence of steps: ['tempo', v] | ['etempo', v] | ['beats', v] | ['bpb', v] | ['yield', d]
    | ['send', lat]; after every yield it records seconds and beats, every send is read back."""
    global _INTS
    _INTS = bool(pr.get('ints'))
    if MODE == 'nrt':
        main.reset()
    lock = main._main_lock
    addr = NetAddr('127.0.0.1', 57110)
    obs = {'done': False, 'trace': []}
    captured = []
    with lock:
        clock = TempoClock(num(pr['tempo']))
        obs['clock_base'] = fr(clock._base_seconds)
    if MODE == 'rt':
        main._osc_interface._send = lambda msg, target: captured.append(bytes(msg.dgram))
        obs['osc_offset'] = str(SystemClock._elapsed_osc_offset)

    def body(inval):
        _, clk_ = inval
        obs['trace'].append(['at', fr(main.current_tt._seconds), fr(clk_.beats)])
        for st in pr['seq']:
            k = st[0]
            if MODE == 'rt' and k in ('tempo', 'etempo', 'beats', 'bpb'):
                t_end = time.time() + 0.002          # late when it touches the clock
                while time.time() < t_end:
                    pass
            if k == 'tempo':
                clk_.tempo = num(st[1])
            elif k == 'etempo':
                clk_.etempo(num(st[1]))
            elif k == 'beats':
                clk_.beats = num(st[1])
            elif k == 'bpb':
                clk_.beats_per_bar = num(st[1])
            elif k == 'yield':
                yield num(st[1])
                obs['trace'].append(['at', fr(main.current_tt._seconds), fr(clk_.beats)])
            elif k == 'send':
                score = main._osc_interface._osc_score if MODE == 'nrt' else None
                c0 = max(x[1] for x in score._scoreq._queue) if score else None
                n0 = len(captured)
                addr.send_bundle(lat_of(st[1]), ['/m', 1])
                if MODE == 'nrt':
                    ent = max((x for x in score._scoreq._queue if x[1] > c0), key=lambda x: x[1])
                    obs['trace'].append(['sent', st[1], fr(ent[2].bndl[0]), str(parse_packet(bytes(ent[2].msg[4:]))[1])])
                else:
                    obs['trace'].append(['sent', st[1], None, str(parse_packet(captured[n0])[1])])
        obs['done'] = True

    obs['bystanders'] = [[] for _ in pr.get('bystanders', [])]

    def bystander(j, spec):
        # another routine PENDING on the same clock while its tempo map is changed
        def bbody(inval):
            _, clk_ = inval
            obs['bystanders'][j].append([fr(main.current_tt._seconds), fr(clk_.beats)])
            yield num(spec['offset'])
            for _i in range(spec['n']):
                obs['bystanders'][j].append([fr(main.current_tt._seconds), fr(clk_.beats)])
                yield num(spec['delta'])
            obs['bystanders'][j].append([fr(main.current_tt._seconds), fr(clk_.beats)])
            obs['bdone'] = obs.get('bdone', 0) + 1
        return bbody

    def root(inval):
        yield num(pr['start'])
        Routine(body).play(clock, 0)
        for j, spec in enumerate(pr.get('bystanders', [])):
            Routine(bystander(j, spec)).play(clock, 0)
    with lock:
        Routine(root).play(SystemClock)
    if MODE == 'nrt':
        main.process(0)
    else:
        deadline = time.time() + 6.0
        while time.time() < deadline and not (obs['done'] and obs.get('bdone', 0) >= len(pr.get('bystanders', []))):
            time.sleep(0.01)
        clock.stop()
    obs['all_done'] = bool(obs['done'] and obs.get('bdone', 0) >= len(pr.get('bystanders', [])))
    return obs


# ---------------------------------------------------------------- round 8: AppClock tasks (RT) with other entries queued on AppClock
def run_appclock(pr):
    """RT only.  Plain functions and a routine on AppClock (the drifting Scheduler), several queued at once, some due in the same tick;
    every task records its logical time, the clock reading it sees, and sends a bundle that is read back."""
    lock = main._main_lock
    addr = NetAddr('127.0.0.1', 57110)
    captured = []
    main._osc_interface._send = lambda msg, target: captured.append(bytes(msg.dgram))
    obs = {'tasks': [], 'tasks_sched': [], 'osc_offset': str(SystemClock._elapsed_osc_offset), 'done': 0}
    lat = num(pr['lat'])

    def record(name, lower):
        n0 = len(captured)
        T = main.current_tt._seconds
        addr.send_bundle(lat, ['/m', 1])
        obs['tasks'].append({'name': name, 'T': fr(T), 'lower': lower, 'now': fr(main.elapsed_time()),
                             'tag': str(parse_packet(captured[n0])[1])})

    def make_f(i, d):
        def f():
            record('function %d' % i, None)
            obs['done'] += 1
        return f

    def rbody(inval):
        low = None
        for i in range(pr['routine_steps']):
            record('routine step %d' % i, low)
            low = fr(Fraction(main.elapsed_time()) + Fraction(pr['routine_delta']))     # re-scheduled at (a later reading) + delta
            yield num(pr['routine_delta'])
        obs['done'] += 1

    expected = 1
    for i, d in enumerate(pr['delays']):
        before = main.elapsed_time()
        AppClock.sched(num(d), make_f(i, d))
        after = main.elapsed_time()
        # the scheduler read the clock between the two readings: scheduled time within [before + d, after + d]
        obs['tasks_sched'].append([i, fr(Fraction(before) + Fraction(d)), fr(Fraction(after) + Fraction(d))])
        if Fraction(d) < Fraction(1, 4):
            expected += 1               # the entry pending far in the future only has to BE there, the probe does not wait for it
    Routine(rbody).play(AppClock)
    deadline = time.time() + 6.0
    while time.time() < deadline and obs['done'] < expected:
        time.sleep(0.01)
    obs['completed'] = obs['done'] >= expected
    with lock:
        AppClock.clear()
    return obs


# ---------------------------------------------------------------- round 8: sends from the main thread racing a slow task on a clock thread
def run_race(pr):
    """RT only.  Slow plain functions run on a clock thread (SystemClock, a TempoClock, AppClock) while the main thread -- WITHOUT
    holding the library's lock, as user code -- keeps sending bundles; each send is bracketed by two clock readings of the harness."""
    lock = main._main_lock
    addr = NetAddr('127.0.0.1', 57110)
    captured = []
    main._osc_interface._send = lambda msg, target: captured.append(bytes(msg.dgram))
    obs = {'sends': [], 'osc_offset': str(SystemClock._elapsed_osc_offset), 'slow_ran': 0}
    host = pr['host']
    tclock = TempoClock(num(pr['tempo'])) if host == 'T' else None
    clock = SystemClock if host == 'S' else AppClock if host == 'A' else tclock

    def slow():
        t_end = time.time() + pr['busy_ms'] / 1000.0
        while time.time() < t_end:          # a task that takes some time (the clock thread holds the main lock meanwhile)
            time.sleep(0.001)
        obs['slow_ran'] += 1
        return None
    for i in range(pr['ntasks']):
        clock.sched(num(pr['gap']) * (i + 1), slow)
    t_stop = time.time() + float(Fraction(pr['gap'])) * (pr['ntasks'] + 1) / (float(Fraction(pr['tempo'])) if host == 'T' else 1.0) + 0.05
    lat = num(pr['lat'])
    while time.time() < t_stop and len(obs['sends']) < 400:
        n0 = len(captured)
        before = main.elapsed_time()
        addr.send_bundle(lat, ['/m', 1])
        after = main.elapsed_time()
        obs['sends'].append([fr(before), str(parse_packet(captured[n0])[1]), fr(after)])
        time.sleep(0.002)
    if tclock is not None:
        tclock.stop()
    with lock:
        SystemClock.clear()
        AppClock.clear()
    return obs


# ---------------------------------------------------------------- function tasks that send (every clock, NRT and RT)
def run_fntask(pr):
    """A PLAIN FUNCTION scheduled with clock.sched(delta, f) -- from the main thread or from inside a routine -- sends a bundle when the
    clock wakes it at logical time t (and once more if it returns a number)."""
    global _INTS
    _INTS = bool(pr.get('ints'))
    if MODE == 'nrt':
        main.reset()
    lock = main._main_lock
    addr = NetAddr('127.0.0.1', 57110)
    obs = {'runs': [], 'done': False}
    captured = []
    clocks = []
    with lock:
        for t in pr['tempos']:
            clocks.append(TempoClock(num(t)))
        obs['clock_base'] = [fr(c._base_seconds) for c in clocks]
    if MODE == 'rt':
        main._osc_interface._send = lambda msg, target: captured.append(bytes(msg.dgram))
        obs['osc_offset'] = str(SystemClock._elapsed_osc_offset)

    def ck(c):
        return SystemClock if c == 'S' else AppClock if c == 'A' else clocks[c[1]]
    target = ck(pr['clock'])

    def build(es):
        return [['/m', int(e[1])] if e[0] == 'm' else [lat_of(e[1])] + build(e[2]) for e in es]
    state = {'n': 0}

    def f():
        rec = {'t': fr(main.current_tt._seconds), 'raised': None, 'tree': None}
        score = main._osc_interface._osc_score if MODE == 'nrt' else None
        c0 = max(x[1] for x in score._scoreq._queue) if score else None
        n0 = len(captured)
        try:
            addr.send_bundle(lat_of(pr['lat']), *build(pr['es']))
            if MODE == 'nrt':
                ent = max((x for x in score._scoreq._queue if x[1] > c0), key=lambda x: x[1])
                rec['tree'] = _no_imm(merge(ent[2].bndl, parse_packet(bytes(ent[2].msg[4:]))))
            else:
                rec['tree'] = merge(None, parse_packet(captured[n0]), int(obs['osc_offset']))
        except Exception as e:
            rec['raised'] = type(e).__name__
        obs['runs'].append(rec)
        state['n'] += 1
        if pr.get('again') is not None and state['n'] == 1:
            return num(pr['again'])          # numeric return: woken once more
        obs['done'] = True
        return None

    if pr['from'] is None:
        with lock:
            before = main.elapsed_time() if MODE == 'rt' else None
            target.sched(num(pr['delta']), f)
            if before is not None:
                obs['bounds'] = [fr(before), fr(main.elapsed_time())]
    else:
        parent = ck(pr['from'])

        def pbody(inval):
            yield num(pr['adv'])
            obs['T'] = fr(main.current_tt._seconds)
            target.sched(num(pr['delta']), f)

        def root(inval):
            yield num(pr['start'])
            Routine(pbody).play(parent, 0)
        with lock:
            Routine(root).play(SystemClock)
    if MODE == 'nrt':
        main.process(0)
    else:
        deadline = time.time() + 6.0
        while time.time() < deadline and not obs['done']:
            time.sleep(0.01)
        for c in clocks:
            c.stop()
    return obs


STUCK_AFTER = 90.0      # every wait of this runner is bounded by 8 s; an item that holds the process for 90 s is stuck, not slow


def main_():
    payload = json.load(open(sys.argv[1]))
    results = {'out': [], 'probes_out': [], 'alongside_out': [], 'clumps_out': [], 'msgnest_out': [], 'nextdrive_out': [], 'clockseq_out': [],
               'appclock_out': [], 'race_out': [], 'fntask_out': []}
    state = {'t': time.time(), 'key': None, 'item': None, 'finished': False}

    def dump():
        with open(sys.argv[2], 'w') as f:
            json.dump(results, f)

    def watchdog():
        # a clock thread or a lock of the library that never gives control back (deadlock / spin) would hold the whole check
        while not state['finished']:
            time.sleep(1.0)
            if state['key'] is not None and time.time() - state['t'] > STUCK_AFTER:
                results[state['key']].append({'fatal': 'stuck', 'stuck': True,
                                              'what': 'the library did not give control back within %d s (all waits of the runner are bounded by 8 s)' % STUCK_AFTER})
                results['stuck_item'] = {'key': state['key'], 'item': state['item']}
                dump()
                os._exit(0)
    threading.Thread(target=watchdog, daemon=True).start()
    if MODE == 'rt':
        rt_setup(payload.get('seed', 1))
    plan = [('cases', 'out', (lambda pr: run_nrt(pr, payload.get('share_lists', False))) if MODE == 'nrt' else run_rt),
            ('probes', 'probes_out', run_probe), ('alongside', 'alongside_out', run_alongside), ('clumps', 'clumps_out', run_clump),
            ('msgnest', 'msgnest_out', run_msgnest), ('nextdrive', 'nextdrive_out', run_nextdrive), ('clockseq', 'clockseq_out', run_clockseq),
            ('appclock', 'appclock_out', run_appclock), ('race', 'race_out', run_race), ('fntask', 'fntask_out', run_fntask)]
    for key, okey, fn_ in plan:
        for pr in payload.get(key, []):
            state.update(t=time.time(), key=okey, item=pr)
            try:
                results[okey].append(fn_(pr))
            except Exception as e:
                import traceback
                results[okey].append({'fatal': '%r\n%s' % (e, traceback.format_exc())})
    state['finished'] = True
    state['key'] = None
    dump()
    global _burn
    _burn = False


if __name__ == '__main__':
    main_()
    sys.stdout.flush()
    os._exit(0)
