"""Law probes on the REAL sc3.synth.envelope.Env (used only to LOOK FOR a failing input).

Independent of the Coq model: the expected values come from harness/oracles/envgen_layout.py
(the server's documented EnvGen / IEnvGen array layout, the server's shape numbers and the
documented breakpoints of the constructors), written from the SuperCollider documentation.
Exact laws use Fractions on dyadic inputs; evaluation laws of transcendental shapes use a
tolerance.  Output: {'bad': [{'law', 'call', 'got', 'expected', 'why'}]} (at most 3 per law)."""
import json, sys, os, random, itertools
from fractions import Fraction as Fr
import sc3
sc3.init(os.environ.get('SC3_MODE', 'nrt'))
from sc3.synth.envelope import Env
from oracles import envgen_layout as ref


def main():
    spec = json.load(open(sys.argv[1]))
    want = set(spec.get('laws') or [])
    rng = random.Random(spec.get('seed', 1))
    bad = []

    def rec(law, call, got, expected, why):
        if len([b for b in bad if b['law'] == law]) < 3:
            bad.append({'law': law, 'call': call, 'got': repr(got), 'expected': repr(expected), 'why': why})

    def on(l):
        return not want or l in want

    def attempt(law, call, f, why):
        try:
            return True, f()
        except Exception as e:
            rec(law, call, '%s: %s' % (type(e).__name__, e), 'no exception', why)
            return False, None

    # ---- 1. named shapes map to the server's shape numbers
    if on('shape_numbers_match_server'):
        for name, k in sorted(ref.SERVER_SHAPES.items()):
            call = "Env([0, 1], [1], %r)._envgen_format()" % name
            ok, fmt = attempt('shape_numbers_match_server', call, lambda: Env([0, 1], [1], name)._envgen_format(),
                              'documented shape name %r must encode as server shape %d' % (name, k))
            if ok and (fmt[0][6] != k or fmt[0][7] != 0):
                rec('shape_numbers_match_server', call, fmt[0][6:8], (k, 0), 'shape number / curvature of a named shape')
        for c in (-4, 2.5, 0):
            call = "Env([0, 1], [1], %r)._envgen_format()" % (c,)
            ok, fmt = attempt('shape_numbers_match_server', call, lambda: Env([0, 1], [1], c)._envgen_format(), 'numeric curve')
            if ok and (fmt[0][6] != ref.NUMERIC_SHAPE or fmt[0][7] != c):
                rec('shape_numbers_match_server', call, fmt[0][6:8], (ref.NUMERIC_SHAPE, c), 'numeric curvature encodes as shape 5 + value')

    # ---- 2. array layout: decode with the server's layout and compare with the specification
    names = sorted(n for n in ref.SERVER_SHAPES if n in Env._SHAPE_NAMES)   # unknown names are reported by law 1
    if on('env_format_layout'):
        for _ in range(spec.get('n_layout', 300)):
            n = rng.randint(1, 6)
            levels = [rng.choice([rng.randint(-5, 5), rng.randint(-40, 40) / 8]) for _ in range(n)]
            times = rng.choice([None, rng.choice([1, 0.5, 2]), [rng.choice([0.25, 0.5, 1, 2]) for _ in range(rng.randint(1, n + 1))]])
            cl = [rng.choice([rng.choice(names), rng.choice([-4, 3, 0.5, 0])]) for _ in range(rng.randint(1, n + 1))]
            curves = cl if rng.random() < 0.7 else cl[0]
            rel = rng.choice([None, None, rng.randint(0, n)])
            loop = rng.choice([None, None, rng.randint(0, n)])
            offset = rng.choice([0, 0.5, 2])
            call = 'Env(%r, %r, %r, %r, %r, %r)' % (levels, times, curves, rel, loop, offset)
            ok, e = attempt('env_format_layout', call, lambda: Env(levels, times, curves, rel, loop, offset), 'constructor raised')
            if not ok:
                continue
            want_env = ref.expected_envgen(levels, times, curves, rel, loop)
            ok, fmt = attempt('env_format_layout', call + '._envgen_format()', lambda: e._envgen_format(), 'format raised')
            if ok:
                got = ref.decode_envgen(list(fmt[0])) if len(fmt) == 1 else None
                if got != want_env:
                    rec('env_format_layout', call + '._envgen_format()', fmt, want_env, ref.first_difference(got, want_env))
            if on('interpolation_format_layout'):
                want_i = ref.expected_ienvgen(levels, times, curves, offset)
                ok, fmt = attempt('interpolation_format_layout', call + '._interpolation_format()', lambda: e._interpolation_format(), 'format raised')
                if ok:
                    got = ref.decode_ienvgen(list(fmt[0])) if len(fmt) == 1 else None
                    if got != want_i:
                        rec('interpolation_format_layout', call + '._interpolation_format()', fmt, want_i, ref.first_difference(got, want_i))

    # ---- 2b. multichannel expansion: channel j is the array of the j-th projection (item[j % len(item)])
    if on('mc_format_expansion'):
        fixed = [([0, [1, 2, 3], 0], [1, [2, 3]], ['lin', ['sin', -2]]), ([[0, 5], [1, 2], 0], [1, 1], 'lin'),
                 ([0, 1, [2, 3]], [[1, 2, 4]], [['hold', 'step']])]
        def rnd():
            n = rng.randint(1, 3)
            it = lambda f: [f() for _ in range(rng.choice([2, 3, 4]))] if rng.random() < 0.4 else f()
            return ([it(lambda: rng.randint(-5, 5)) for _ in range(n + 1)], [it(lambda: rng.choice([0.5, 1, 2])) for _ in range(n)],
                    [it(lambda: rng.choice(names + [-4, 3])) for _ in range(rng.randint(1, n))])
        for levels, times, curves in fixed + [rnd() for _ in range(spec.get('n_mc', 60))]:
            call = 'Env(%r, %r, %r)._envgen_format()' % (levels, times, curves)
            ok, fmt = attempt('mc_format_expansion', call, lambda: Env(levels, times, curves)._envgen_format(), 'format raised')
            if not ok:
                continue
            items = list(levels) + list(times) + (list(curves) if isinstance(curves, list) else [curves])
            w = max([len(x) for x in items if isinstance(x, list)] + [1])
            pj = lambda x, j: x[j % len(x)] if isinstance(x, list) else x
            if len(fmt) != w:
                rec('mc_format_expansion', call, len(fmt), w, 'number of channels = widest list item')
                continue
            for j in range(w):
                want_j = ref.expected_envgen([pj(x, j) for x in levels], [pj(x, j) for x in times],
                                             [pj(x, j) for x in curves] if isinstance(curves, list) else curves, None, None)
                got_j = ref.decode_envgen(list(fmt[j]))
                if got_j != want_j:
                    rec('mc_format_expansion', call, fmt[j], want_j, 'channel %d must be the array of the projection: %s' % (j, ref.first_difference(got_j, want_j)))
                    break

    # ---- 3. evaluation laws
    def close(a, b, scale):
        return abs(a - b) <= 1e-5 * max(1.0, scale)

    level_sets = {
        'any': [[0, 1, 0], [-8, -1], [-8, -1, -27], [-1, 1, -1], [2, -3, 0.5, -0.5], [0.25, 0.25, 4], [-2, -2]],
        'nonneg': [[0, 1, 0], [4, 1, 9], [0.25, 2.25, 0], [16, 16]],
        'samesign': [[1, 4, 0.5], [-1, -8, -2], [3, 3]],
    }
    domain = {'step': 'any', 'hold': 'any', 'lin': 'any', 'linear': 'any', 'sin': 'any', 'sine': 'any', 'wel': 'any',
              'welch': 'any', 'cub': 'any', 'cubed': 'any', 'squared': 'any', 'sqr': 'any',
              'exp': 'samesign', 'exponential': 'samesign', -4: 'any', 3: 'any', 0.00005: 'any', 0: 'any'}
    shapes = spec.get('shapes') or list(domain)
    for shp in shapes:
        if isinstance(shp, str) and shp not in Env._SHAPE_NAMES:
            continue      # an unknown name is reported by law 1
        is_step = isinstance(shp, str) and ref.SERVER_SHAPES.get(shp) == 0
        for levels in level_sets[domain.get(shp, 'any')]:
            for durs in ([1] * (len(levels) - 1), [0.5, 2, 0.25][:len(levels) - 1]):
                for offset in (0, 0.75):
                    call0 = 'Env(%r, %r, %r, offset=%r)' % (levels, durs, shp, offset)
                    ok, e = attempt('env_at_breakpoints', call0, lambda: Env(levels, durs, shp, offset=offset), 'constructor raised')
                    if not ok:
                        continue
                    bps = [sum(durs[:k]) for k in range(len(levels))]
                    scale = max(abs(l) for l in levels)
                    if on('env_at_breakpoints'):
                        for k, bt in enumerate(bps):
                            exp_l = levels[k + 1] if (is_step and k + 1 < len(levels)) else levels[k]
                            call = call0 + '._at(%r)' % (bt + offset)
                            ok, v = attempt('env_at_breakpoints', call, lambda: e._at(bt + offset), 'evaluation raised')
                            if ok and not close(v, exp_l, scale):
                                rec('env_at_breakpoints', call, v, exp_l, 'value at breakpoint %d must be its level' % k)
                    if on('env_at_between_neighbours'):
                        for k in range(len(levels) - 1):
                            lo, hi = sorted((levels[k], levels[k + 1]))
                            for f in (0.125, 0.5, 0.9375):
                                t = bps[k] + f * durs[k] + offset
                                call = call0 + '._at(%r)' % t
                                ok, v = attempt('env_at_between_neighbours', call, lambda: e._at(t), 'evaluation raised')
                                if ok and not (lo - 1e-5 * max(1, scale) <= v <= hi + 1e-5 * max(1, scale)):
                                    rec('env_at_between_neighbours', call, v, [lo, hi], 'value inside segment %d must lie between the neighbouring levels' % k)
                    if on('env_at_holds_last'):
                        for extra in (0, 0.5, 100):
                            t = bps[-1] + extra + offset
                            call = call0 + '._at(%r)' % t
                            ok, v = attempt('env_at_holds_last', call, lambda: e._at(t), 'evaluation raised')
                            if ok and v != levels[-1]:
                                rec('env_at_holds_last', call, v, levels[-1], 'the last level is held after the end')

    # ---- 3b. evaluation INSIDE segments for every shape name of the table and numeric curves: rising and
    #          falling segments, 16 positions per segment, compared with an independent float reference
    #          (oracles/envgen_layout.shape_value), plus the model-free laws: between the neighbouring levels
    #          and monotone from the start level to the target
    def inside(law_prefix, call0, e, levels, durs, cvs, offset):
        """probe one envelope object e whose documented breakpoints are (levels, durs, cvs, offset)"""
        C = list(cvs) if isinstance(cvs, list) else [cvs]
        bps = [sum(durs[:k]) for k in range(len(levels))]
        scale = max(abs(l) for l in levels)
        for k in range(len(levels) - 1):
            if durs[k] <= 0:
                continue
            cv = C[k % len(C)]
            tol = ref.shape_tolerance(cv, scale)
            lo, hi = sorted((levels[k], levels[k + 1]))
            prev = None
            for q in range(0, 16):
                t = bps[k] + q / 16 * durs[k] + offset
                call = call0 + '._at(%r)' % t
                ok, v = attempt('env_at_reference', call, lambda: e._at(t), 'evaluation raised')
                if not ok:
                    break
                want_v = ref.shape_value(cv, levels[k], levels[k + 1], q / 16)
                if on('env_at_reference') and abs(v - want_v) > tol:
                    rec('env_at_reference', call, v, want_v, 'segment %d (%r from %r to %r) at position %d/16' % (k, cv, levels[k], levels[k + 1], q))
                if on('env_at_between_neighbours') and not (lo - tol <= v <= hi + tol):
                    rec('env_at_between_neighbours', call, v, [lo, hi], 'value inside segment %d (%r) must lie between the neighbouring levels' % (k, cv))
                if on('env_at_monotone') and prev is not None:
                    step = v - prev
                    if (levels[k + 1] >= levels[k] and step < -tol) or (levels[k + 1] <= levels[k] and step > tol):
                        rec('env_at_monotone', call, v, 'moving from %r towards %r (previous sample %r)' % (levels[k], levels[k + 1], prev),
                            'inside segment %d (%r) the value must move monotonically from the start level to the target' % (k, cv))
                prev = v

    if on('env_at_reference') or on('env_at_monotone') or on('env_at_between_neighbours'):
        all_names = sorted(set(ref.SERVER_SHAPES) | {n for n in Env._SHAPE_NAMES if n in ref.SERVER_SHAPES})
        all_names = [n for n in all_names if n in Env._SHAPE_NAMES]
        shapes2 = all_names + [-4, 3, 0.5, -0.75, 0.00005, 0, 8.0]
        for shp in shapes2:
            dom = 'samesign' if (isinstance(shp, str) and ref.SERVER_SHAPES[shp] == 2) else 'any'
            for levels in level_sets[dom] + ([[1, 0], [0, 1], [1, 0, 1, 0.5]] if dom == 'any' else [[4, 1], [0.5, 2, 0.25]]):
                for durs, offset in (([1] * (len(levels) - 1), 0), ([0.5, 2, 0.25][:len(levels) - 1], 0.75)):
                    call0 = 'Env(%r, %r, %r, offset=%r)' % (levels, durs, shp, offset)
                    ok, e = attempt('env_at_reference', call0, lambda: Env(levels, durs, shp, offset=offset), 'constructor raised')
                    if ok:
                        inside('', call0, e, levels, durs, shp, offset)
        # wrapped curve lists landing on rising and falling segments (positive levels: every shape is in its domain)
        pool = all_names + [-4, 3, 0.5]
        for _ in range(spec.get('n_mixed', 60)):
            n = rng.randint(1, 5)
            levels = [rng.choice([0.25, 0.5, 1, 2, 3, 4, 8]) for _ in range(n + 1)]
            tl = [rng.choice([0.25, 0.5, 1, 2]) for _ in range(rng.choice([1, n, max(n - 1, 1)]))]
            durs = [tl[i % len(tl)] for i in range(n)]
            cvs = [rng.choice(pool) for _ in range(rng.randint(1, n + 1))]
            offset = rng.choice([0, 0.5])
            call0 = 'Env(%r, %r, %r, offset=%r)' % (levels, tl, cvs, offset)
            ok, e = attempt('env_at_reference', call0, lambda: Env(levels, tl, cvs, offset=offset), 'constructor raised')
            if ok:
                inside('', call0, e, levels, durs, cvs, offset)
        # the constructors with every shape: their release / decay segments fall
        noexp = [c for c in pool if not (isinstance(c, str) and ref.SERVER_SHAPES[c] == 2)]
        for cname in ('perc', 'linen', 'adsr', 'dadsr', 'asr', 'cutoff'):
            for cv in noexp:
                kw = dict(ref.DEFAULTS[cname], curve=cv)
                for kk in kw:
                    if kk.endswith('time') or kk == 'dur':
                        kw[kk] = 0.5
                call0 = 'Env.%s(%s)' % (cname, ', '.join('%s=%r' % kv for kv in kw.items()))
                ok, e = attempt('env_at_reference', call0, lambda: getattr(Env, cname)(**kw), 'constructor raised')
                if ok:
                    bp = ref.documented(cname, kw)
                    lv = [float(p[1]) for p in bp['points']]
                    ds = [float(b[0] - a[0]) for a, b in zip(bp['points'], bp['points'][1:])]
                    inside('', call0, e, lv, ds, cv, 0)

    # ---- 4. constructors produce their documented breakpoints
    if on('ctor_breakpoints'):
        for name, kwargs, want_bp in ref.constructor_cases(rng, spec.get('n_ctor', 20)):
            call = 'Env.%s(%s)' % (name, ', '.join('%s=%r' % kv for kv in kwargs.items()))
            import copy
            ok, e = attempt('ctor_breakpoints', call, lambda: getattr(Env, name)(**copy.deepcopy(kwargs)), 'documented call raised')
            if not ok:
                continue
            ok, got = attempt('ctor_breakpoints', call, lambda: ref.observed_breakpoints(e), 'format raised')
            if ok and got != want_bp:
                rec('ctor_breakpoints', call, got, want_bp, ref.first_difference(got, want_bp))

    json.dump({'bad': bad}, open(sys.argv[2], 'w'))


main()
