"""C14: run the REAL library (sc3 in NRT mode) on key-resolution cases and on event-pattern cases.

payload = {'cases': [case, ...]}
case kind 'keys': {'kind': 'keys', 'keys': {name: val}, 'scale': scale|None, 'ask': [name, ...],
                   'points': {'midicps': [frac], 'cpsmidi': [frac], 'dbamp': [frac], 'ampdb': [frac]}}
case kind 'pat':  {'kind': 'pat', 'pat': tree, 'proto': {name: val}, 'proto_event': bool,
                   'latency': frac, 'start': frac, 'clock': 'system'|'tempo', 'points': {...}}
val   = ['I', n] | ['F', 'n/d'] | ['R', 'n/d'] | ['S', str] | ['B', bool] | ['SC', scale]
scale = {'degrees': [int], 'steps': ['n/d', ...], 'oct': 'n/d'}
tree  = ['bind', kvs] | ['mono', instr, kvs] | ['chain', [tree]] | ['par', [tree]]
      | ['delta', val, tree] | ['dur', val, tree] | ['seq', [tree], repeats, offset] | ['pn', tree, repeats];   kvs = [[key, ['seq', [val]] | ['rep', val]], ...]
"""
import json, logging, os, sys
from fractions import Fraction

import sc3
sc3.init(os.environ.get('SC3_MODE', 'nrt'))
from sc3.base.main import main
from sc3.base import builtins as bi
from sc3.base.stream import routine
from sc3.base.clock import TempoClock, SystemClock
from sc3.synth.server import Server
from sc3.synth.node import Group, Synth
from sc3.synth.synthdef import SynthDef
from sc3.synth.synthdesc import SynthDescLib
from sc3.synth.ugens import Out, SinOsc, DC
from sc3.seq.event import event, Rest
from sc3.seq.scale import Scale, Tuning
from sc3.seq.patterns.eventpatterns import Pbind, Pmono, Ppar, Pchain
from sc3.seq.patterns.filterpatterns import Pdur, Pdelta, Pn
from sc3.seq.patterns.listpatterns import Pseq


class _Errors(logging.Handler):
    def __init__(self):
        super().__init__()
        self.records = []

    def emit(self, record):
        if record.levelno >= logging.ERROR:
            txt = record.getMessage()
            if record.exc_info and record.exc_info[1] is not None:
                txt += ' :: %s: %s' % (type(record.exc_info[1]).__name__, record.exc_info[1])
            self.records.append(txt)


ERRORS = _Errors()
logging.getLogger().addHandler(ERRORS)
logging.getLogger().setLevel(logging.ERROR)
for h in list(logging.getLogger().handlers):
    if h is not ERRORS:
        logging.getLogger().removeHandler(h)

# the instruments of the correspondence (controls are what _get_msg_params looks at)
SYNTHDEFS = {
    'c14a': ['freq', 'amp', 'gate', 'pan'],
    'c14b': ['freq', 'amp', 'pan', 'cutoff'],
    'c14c': ['out', 'freq', 'sustain', 'gate', 'detune', 'dur', 'legato'],
}


def _register():
    def a(freq=440, amp=0.5, gate=1, pan=0):
        Out.ar(0, SinOsc.ar(freq) * amp * gate + pan)

    def b(freq=440, amp=0.5, pan=0, cutoff=1000):
        Out.ar(0, SinOsc.ar(freq) * amp + pan + cutoff)

    def c(out=0, freq=440, sustain=1, gate=1, detune=0, dur=1, legato=1):
        Out.ar(out, SinOsc.ar(freq + detune) * gate * sustain * dur * legato)

    for name, f in (('c14a', a), ('c14b', b), ('c14c', c)):
        SynthDef(name, f).add()
        got = list(SynthDescLib.default.at(name).control_names)
        assert got == SYNTHDEFS[name], (name, got)


def fr(x):
    f = Fraction(x)
    return '%d/%d' % (f.numerator, f.denominator)


def dec_scale(s):
    steps = [float(Fraction(x)) for x in s['steps']]
    return Scale(list(s['degrees']), Tuning(steps, float(Fraction(s['oct'])), name='c14'))


def dec(v):
    k = v[0]
    if k == 'I': return int(v[1])
    if k == 'F': return float(Fraction(v[1]))
    if k == 'R': return Rest(float(Fraction(v[1])))
    if k == 'S': return str(v[1])
    if k == 'B': return bool(v[1])
    if k == 'N': return None
    if k == 'G': return (Group if v[2] == 'group' else Synth).basic_new(*(([Server.default, int(v[1])]) if v[2] == 'group' else ['c14a', Server.default, int(v[1])]))
    if k == 'P': return [x for kk, vv in v[1] for x in (kk, dec(vv))]      # a msg_params list given by the user
    if k == 'BIG': return 1e6
    if k == 'SC': return dec_scale(v[1])
    raise ValueError(v)


def enc(x):
    if isinstance(x, Rest):
        inner = enc(x.value)
        return ['R', inner[1]] if inner[0] in ('I', 'F') else ['X', 'rest of %s' % type(x.value).__name__]
    if isinstance(x, bool): return ['B', x]
    if isinstance(x, int): return ['I', x]
    if isinstance(x, float):
        if x != x or x in (float('inf'), float('-inf')): return ['X', repr(x)]
        return ['F', fr(x)]
    if isinstance(x, str): return ['S', x]
    if x is None: return ['N']
    return ['X', type(x).__name__]


def kernel_points(points):
    out = {}
    for name in ('midicps', 'cpsmidi', 'dbamp', 'ampdb'):
        f = getattr(bi, name)
        rows = []
        for p in points.get(name, []):
            try:
                y = f(float(Fraction(p)))
                rows.append([p, fr(y)] if y == y and abs(y) != float('inf') else [p, None])
            except Exception:
                rows.append([p, None])
        out[name] = rows
    return out


def run_keys(case):
    kw = {k: dec(v) for k, v in case['keys'].items()}
    if case.get('scale') is not None:
        kw['scale'] = dec_scale(case['scale'])
    set_forms(case)
    e = make_event(kw)
    vals = []
    for k in case['ask']:
        try:
            vals.append(enc(e(k)))
        except Exception as ex:
            vals.append(['E', type(ex).__name__])
    return {'vals': vals, 'tables': kernel_points(case.get('points', {})), 'forms': list(FORMS['used'])}


def run_scale(case):
    s = dec_scale(case['scale'])
    return {'octave_ratio': fr(s.tuning.octave_ratio), 'spo': fr(s.tuning.spo), 'name': s.tuning.name}


# ---- alternative entry points: every builder / argument form must denote what the constructor form denotes -----------
import random as _random
import collections as _collections
FORMS = {'rng': None, 'used': []}


def set_forms(case):
    seed = case.get('form_seed')
    FORMS['rng'] = None if seed is None else _random.Random(seed)
    FORMS['used'] = []


def pick(what, options):
    """options[0] is the constructor form; others are chosen only when the case carries a form_seed"""
    r = FORMS['rng']
    o = options[0] if r is None else r.choice(options)
    if o != options[0]:
        FORMS['used'].append('%s:%s' % (what, o))
    return o


def mapping_form(d):
    f = pick('mapping', ['dict', 'pairs', 'pairs-iterator', 'ordered-dict'])
    if f == 'pairs': return list(d.items())
    if f == 'pairs-iterator': return iter(list(d.items()))
    if f == 'ordered-dict': return _collections.OrderedDict(d)
    return d


def make_event(kw):
    f = pick('event', ['dict', 'kwargs', 'dict+kwargs', 'overridden', 'copy', 'event-of-event'])
    if f == 'kwargs': return event(**kw)
    if f == 'dict+kwargs':
        ks = list(kw)
        a, b = {k: kw[k] for k in ks[::2]}, {k: kw[k] for k in ks[1::2]}
        return event(a, **b)
    if f == 'overridden':      # keyword arguments override the dictionary
        wrong = {k: 12345 for k in list(kw)[:2] if k not in ('scale', 'instrument', 'msg_params')}
        return event({**kw, **wrong}, **{k: kw[k] for k in wrong})
    if f == 'copy': return event(kw).copy()
    if f == 'event-of-event': return event(event(kw))
    return event(kw)


def make_chain(ps):
    f = pick('chain', ['ctor', 'chain()', 'chain()-late', 'nested-left']) if len(ps) >= 2 else 'ctor'
    if f == 'chain()':                     # Pchain(A).chain(B).chain(C)
        c = Pchain(ps[0])
        for p in ps[1:]:
            c = c.chain(p)
        return c
    if f == 'chain()-late':                # Pchain(A, B, ...).chain(last)
        return Pchain(*ps[:-1]).chain(ps[-1])
    if f == 'nested-left' and len(ps) >= 3:
        return Pchain(Pchain(*ps[:-1]), ps[-1])
    return Pchain(*ps)


def start_player(pat, clock, proto):
    f = pick('play', ['Pattern.play', 'EventStreamPlayer', 'base.play'])
    if f == 'EventStreamPlayer':
        from sc3.seq.eventstream import EventStreamPlayer
        from sc3.base.stream import stream as _stream
        pl = EventStreamPlayer(_stream(pat), proto or None)
        pl.play(clock, None)
        return pl
    if f == 'base.play':
        from sc3.base.play import play as _play
        return _play(pat, clock, None, proto or None)
    return pat.play(clock, None, proto or None)


def build(tree):
    k = tree[0]

    def kvs(l):
        return mapping_form({key: (Pseq([dec(v) for v in vs[1]]) if vs[0] == 'seq' else dec(vs[1])) for key, vs in l})
    if k == 'bind': return Pbind(kvs(tree[1]))
    if k == 'mono': return Pmono(tree[1], kvs(tree[2]), articulate=bool(tree[3]) if len(tree) > 3 else False)
    if k == 'chain': return make_chain([build(t) for t in tree[1]])
    if k == 'par': return Ppar(*[build(t) for t in tree[1]])
    if k == 'delta': return Pdelta(dec(tree[1]), build(tree[2]))
    if k == 'dur': return Pdur(dec(tree[1]), build(tree[2]))
    if k == 'durq':      # Pdur(dur, pattern, tolerance, quant)
        return Pdur(dec(tree[1]), build(tree[4]), dec(tree[2]), None if tree[3] is None else dec(tree[3]))
    if k == 'seq':
        items = [build(t) for t in tree[1]]
        if pick('list', ['list', 'tuple']) == 'tuple': items = tuple(items)
        return Pseq(items, int(tree[2]), int(tree[3]))
    if k == 'pn': return Pn(build(tree[1]), int(tree[2]))
    raise ValueError(tree)


def enc_msg(t, m):
    cmd = m[0]
    if cmd == '/s_new':
        args = m[5:]
        return {'t': fr(t), 'cmd': 's_new', 'name': m[1], 'node': m[2], 'action': m[3], 'group': enc(m[4]),
                'params': [[args[i], enc(args[i + 1])] for i in range(0, len(args) - 1, 2)], 'odd': len(args) % 2}
    if cmd == '/n_set':
        args = m[2:]
        return {'t': fr(t), 'cmd': 'n_set', 'node': m[1],
                'params': [[args[i], enc(args[i + 1])] for i in range(0, len(args) - 1, 2)], 'odd': len(args) % 2}
    if cmd == '/n_free':
        return {'t': fr(t), 'cmd': 'n_free', 'node': m[1]}
    return None


def run_pat(case):
    main.reset()
    ERRORS.records.clear()
    srv = Server.default
    srv.latency = float(Fraction(case.get('latency', '0/1')))
    proto = {k: dec(v) for k, v in case.get('proto', {}).items()}
    if case.get('proto_event'):
        proto = event(proto)
    set_forms(case)
    pat = build(case['pat'])
    start = float(Fraction(case.get('start', '0/1')))
    use_tempo = case.get("clock") == "tempo"

    ctl = case.get('ctl')
    proto_before = repr(sorted(proto.items(), key=lambda kv: kv[0])) if isinstance(proto, dict) else None

    @routine
    def starter():
        if start > 0:
            yield start
        pl = start_player(pat, TempoClock(1) if use_tempo else None, proto)
        if case.get('twice') is not None:          # the same pattern object played by a second player
            yield float(Fraction(case['twice']))
            pat.play(TempoClock(1) if use_tempo else None, None, proto or None)
        if ctl:
            now = start
            for op, t in ctl:                       # absolute logical times, increasing
                t = float(Fraction(t))
                yield t - now
                now = t
                getattr(pl, op)()

    starter.play()
    score = main.process()
    msgs = []
    for row in score.list:
        t = row[0]
        for m in row[1:]:
            e = enc_msg(t, m)
            if e is not None:
                msgs.append(e)
    end = None
    for row in score.list:
        for m in row[1:]:
            if m[0] == '/c_set':
                end = fr(row[0])
    proto_after = repr(sorted(proto.items(), key=lambda kv: kv[0])) if isinstance(proto, dict) else None
    out = {'msgs': msgs, 'end': end, 'errors': list(ERRORS.records)[:3], 'forms': list(FORMS['used']), 'proto_unchanged': proto_before == proto_after,
           'tables': kernel_points(case.get('points', {}))}
    main.reset()
    srv.latency = 0
    return out


def run_replay(case):
    """one event OBJECT played several times from a routine, its keys changed in between, copies of it played"""
    main.reset()
    ERRORS.records.clear()
    srv = Server.default
    srv.latency = float(Fraction(case.get('latency', '0/1')))
    start = float(Fraction(case.get('start', '0/1')))
    set_forms(case)
    box = [make_event({k: dec(v) for k, v in case['keys'].items()})]

    @routine
    def r():
        if start > 0:
            yield start
        for op in case['ops']:
            if op[0] == 'play': box[0].play()
            elif op[0] == 'set': box[0][op[1]] = dec(op[2])
            elif op[0] == 'del': box[0].pop(op[1], None)
            elif op[0] == 'copy': box[0] = box[0].copy()
            elif op[0] == 'wait': yield float(Fraction(op[1]))

    r.play()
    score = main.process()
    msgs = []
    for row in score.list:
        for m in row[1:]:
            e = enc_msg(row[0], m)
            if e is not None:
                msgs.append(e)
    out = {'msgs': msgs, 'errors': list(ERRORS.records)[:3], 'tables': kernel_points(case.get('points', {}))}
    main.reset()
    srv.latency = 0
    return out


def canon_event(e):
    out = []
    for k in sorted(e.keys()):
        v = e[k]
        c = enc(v)
        out.append([k, c if c[0] in ('I', 'F', 'R', 'S', 'B', 'N') else ['X', type(v).__name__]])
    return out


def run_alias(case):
    """pull the events of a stream by hand (as the player does: stream.next(proto.copy())), once leaving them alone
    and once mutating every event (and the input dict) after it was yielded; later events must not change"""
    main.reset()
    set_forms(case)
    proto = {k: dec(v) for k, v in case.get('proto', {}).items()}
    res = {}
    input_changed = None
    for mode in ('clean', 'mutated'):
        pat = build(case['pat'])
        strm = pat.__stream__()
        evs = []
        try:
            for _ in range(64):
                inev = proto.copy()
                before = dict(inev)
                ev = strm.next(inev)
                if mode == 'clean' and input_changed is None and (ev is inev or dict(inev) != before):
                    # the stream wrote into (or handed back) the caller's own dict
                    input_changed = {'event_index': len(evs), 'same_object': ev is inev,
                                     'keys_added': sorted(set(inev) - set(before))}
                evs.append(canon_event(ev))
                if mode == 'mutated':
                    ev['zz_alias'] = 7
                    for k in list(ev.keys()):
                        if isinstance(ev[k], (int, float)) and not isinstance(ev[k], bool) and k != 'zz_alias':
                            ev[k] = ev[k] + 1000
                    inev['zz_in'] = 9
        except Exception as ex:
            evs.append(['end', type(ex).__name__])
        res[mode] = evs
    main.reset()
    return {'clean': res['clean'], 'mutated': res['mutated'], 'proto_unchanged': 'zz_in' not in proto,
            'input_changed': input_changed}


def main_():
    _register()
    main.process()       # flush the prologue (synthdef /d_recv) of the registration
    main.reset()
    cases = json.load(open(sys.argv[1]))['cases']
    out = []
    for case in cases:
        try:
            f = {'keys': run_keys, 'scale': run_scale, 'pat': run_pat, 'alias': run_alias, 'replay': run_replay}[case['kind']]
            out.append(f(case))
        except BaseException as ex:      # never let one case kill the run
            try:
                main.reset()
            except Exception:
                pass
            out.append({'runner_error': '%s: %s' % (type(ex).__name__, ex)})
    json.dump({'out': out}, open(sys.argv[2], 'w'))


main_()
