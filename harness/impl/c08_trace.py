"""C08: run stress programs on the REAL real-time clocks (sc3.init('rt')) and log every
protocol event through proxies, while the library's own lock is held (the log is a
linearisation).

Proxies (installed on the class objects / instances, the library code is untouched):
  SystemClock._task_queue / _sched_cond, TempoClock()._task_queue / _sched_cond,
  AppClock._scheduler.queue / _sched_lock / _tick_cond, RtMain.elapsed_time
  (quantised to 2^-10 s and clamped non-decreasing, so that every float operation of the
  clocks is exact and the model can recompute timeouts without tolerance).
Every task put into a queue gets an id and a logging wrapper around its __awake__.

payload = {'port': int, 'proxies': bool, 'scenarios': [scenario...]}
scenario = {'name', 'clock': 'sys'|'tempo'|'app', 'tempo': float, 'tasks': {tid: taskspec},
            'threads': [[op...]...], 'horizon': float, 'final': 'drain'|'clear'|'stop',
            'window': bool (AppClock: widen the window between the two with-blocks)}
taskspec = {'results': [res...], 'nested': [[op...]...]}    (k-th awake uses entry k)
res = ['delta', num, den] | ['none'] | ['raise'] | ['stop'] | ['str']
op  = ['sleep', ms] | ['sched', tid, num, den] | ['abs', tid, num, den] (offset from the
      scenario base time) | ['clear'] | ['tempo', num, den] | ['osc'] | ['xsched', tid, num, den]
      (nested only: schedule on SystemClock from another clock's task)
      | ['beats_add', num, den]  (clock.beats = clock.beats + x)
      | ['via', 'sys'|'app'|'aux', op]  (perform op on the scenario's clock from a task running on ANOTHER clock:
        SystemClock, AppClock, or a second TempoClock 'aux')
      | ['osc_do', op]  (send a datagram to the library port; op is performed by the receive function, i.e. in the
        task that the OSC receive thread schedules on SystemClock)
      | ['nolock', op]  (client thread: tempo/beats change WITHOUT taking the main lock first; only without proxies)
A tempo/beats change is logged as tempo_req ... [notify tempo] ... tempo_done(fields): the field update and the
notify of the clock's condition are separate events, so a skipped notify is visible in the trace.
"""
import json, logging, math, os, socket, sys, threading, time
from fractions import Fraction

inp = json.load(open(sys.argv[1]))
import sc3
sc3.LIB_PORT = inp.get('port', 59000)
sc3.LIB_PORT_RANGE = 8
sc3.init('rt')
from sc3.base.main import main
from sc3.base import clock as clk
from sc3.base import functions as fn
from sc3.base import stream as stm

# the library's log records are CAPTURED (the property says a task's exception is logged), not printed
LOGGED = []                # (logger name, level, exception type name or None, message)


class _Capture(logging.Handler):
    def emit(self, record):
        try:
            et = record.exc_info[0].__name__ if record.exc_info and record.exc_info[0] else None
            LOGGED.append((record.name, record.levelname, et, record.getMessage()[:200]))
        except Exception as e:
            LOGGED.append((record.name, record.levelname, 'capture-error', repr(e)))


_sc3log = logging.getLogger('sc3')
_sc3log.addHandler(_Capture())
_sc3log.setLevel(logging.DEBUG)
_sc3log.propagate = False
RAISED = []                # exception type names raised by task wake-ups (as the clocks see them)

QUANT = 1024
PROXIES = inp.get('proxies', True)

LOG = []                 # (cid, kind, args...)   appended under the relevant library lock
PROBLEMS = []            # harness-level anomalies (lock not held, ...)
THREAD_CID = {}          # clock thread ident -> cid
TASK_IDS = {}            # id(task object) -> tid
FOREIGN = [-1]


def fr(x):
    if isinstance(x, float) and not math.isfinite(x):
        return ['nf', repr(x)]
    f = Fraction(x)
    return [f.numerator, f.denominator]


# ---- physical time ---------------------------------------------------------------------
_orig_elapsed = main.elapsed_time
_tl = threading.Lock()
_last = [0.0]


def real_now():
    return _orig_elapsed()


def elapsed_proxy():
    t = math.floor(_orig_elapsed() * QUANT) / QUANT
    with _tl:
        if t < _last[0]:
            t = _last[0]
        else:
            _last[0] = t
    f1 = sys._getframe(1)
    name = f1.f_code.co_name
    cid = THREAD_CID.get(threading.get_ident())
    if getattr(TL, 'retime_reads', None) is not None:
        TL.retime_reads.append(t)
    sc_ = getattr(TL, 'sched', None)
    if name == '_seconds' and sc_ is not None and not TL.based:     # (thread idents are reused: no cid test)
        # _MainTimeThread._seconds inside clock.sched(delta, ...) called by a non-clock thread: the time base of
        # the call.  The library reads it while it holds the main lock (current_tt is process-global).
        TL.based = True
        if not owned():
            PROBLEMS.append('sched(delta) read its time base (main.current_tt._seconds) WITHOUT holding the main lock')
        LOG.append((sc_[0], 'sched_call', fr(t), sc_[1]))
    if name == '_run' and cid is not None:
        LOG.append((cid, 'time', fr(t)))
    elif name == 'elapsed_beats' and cid is not None and f1.f_back is not None \
            and f1.f_back.f_code.co_name == '_run':
        LOG.append((cid, 'time', fr(t)))
    elif name == '_tick' and cid == 'app':
        LOG.append(('app', 'time', fr(t)))
    elif name == '_sched_add' and isinstance(f1.f_locals.get('self'), clk.Scheduler):
        LOG.append(('app', 'time', fr(t)))
    return t


TL = threading.local()


def owned():
    return main._main_lock._is_owned()


_PLAIN_N = {}


def task_id(task):
    k = id(task)
    if k not in TASK_IDS and hasattr(getattr(task, 'func', None), '_c08_tid'):
        # a fresh wrapper of a plain harness function: its own identity, derived from the function's id
        base = task.func._c08_tid
        _PLAIN_N[base] = _PLAIN_N.get(base, 0) + 1
        TASK_IDS[k] = base * 1000 + _PLAIN_N[base]
        KEEP.append(task)
    if k not in TASK_IDS:
        FOREIGN[0] -= 1
        TASK_IDS[k] = FOREIGN[0]
        KEEP.append(task)
    return TASK_IDS[k]


KEEP = []


class FloatSub(float):
    """a numeric result whose exact type is a subclass of float (numpy.float64, unit-carrying floats, ...)"""


class IntSub(int):
    """a numeric result whose exact type is a subclass of int (IntEnum members, numpy ints, ...)"""


def res_code(delta):
    if isinstance(delta, (int, float)) and not isinstance(delta, bool):
        if not math.isfinite(delta):
            return ['nonfinite', repr(delta)]
        return ['delta'] + fr(delta)
    return ['other']


def wrap_awake(task, tid):
    if getattr(task, '_c08_wrapped', False):
        return
    orig = task.__awake__

    def awake(clock):
        cid = THREAD_CID.get(threading.get_ident())
        try:
            r = orig(clock)
        except stm.StopStream:
            LOG.append((cid, 'awake_end', tid, ['other']))
            raise
        except Exception as e:
            RAISED.append(type(e).__name__)
            LOG.append((cid, 'awake_end', tid, ['raise', type(e).__name__]))
            raise
        LOG.append((cid, 'awake_end', tid, res_code(r)))
        return r
    task.__awake__ = awake
    task._c08_wrapped = True


class QProxy:
    def __init__(self, q, cid):
        self.q, self.cid = q, cid

    def empty(self):
        return self.q.empty()

    def peek(self, *a):
        return self.q.peek(*a)

    def add(self, prio, task):
        if not owned():
            PROBLEMS.append('add without the main lock')
        tid = task_id(task)
        wrap_awake(task, tid)
        sc_ = getattr(TL, 'sched', None)
        if sc_ is not None and sc_[0] == self.cid and not TL.based:
            # a sched(delta) of a non-clock thread reached the queue without having read the main thread's time
            LOG.append((self.cid, 'sched_nobase', sc_[1]))
        self.q.add(prio, task)
        if not math.isfinite(prio):
            LOG.append((self.cid, 'add_nonfinite', repr(prio), tid))
        else:
            LOG.append((self.cid, 'add', fr(prio), tid))

    def pop(self):
        if not owned():
            PROBLEMS.append('pop without the main lock')
        item = self.q.pop()
        name = sys._getframe(1).f_code.co_name
        kind = 'clearpop' if name == 'clear' else 'pop'
        LOG.append((self.cid, kind, fr(item[0]), task_id(item[1])))
        return item

    def clear(self):
        if not owned():
            PROBLEMS.append('queue.clear without the main lock')
        self.q.clear()
        LOG.append((self.cid, 'qclear'))

    def remove(self, task):
        PROBLEMS.append('unexpected queue.remove')
        return self.q.remove(task)

    def __iter__(self):
        return iter(self.q)


class CondProxy:
    """SystemClock / TempoClock: _sched_cond (a Condition on the main RLock)"""
    def __init__(self, cond, cid, clock):
        self.cond, self.cid, self.clock = cond, cid, clock

    def __enter__(self):
        return self.cond.__enter__()

    def __exit__(self, *a):
        return self.cond.__exit__(*a)

    def acquire(self, *a, **k):
        return self.cond.acquire(*a, **k)

    def release(self):
        return self.cond.release()

    def wait(self, timeout=None):
        if not owned():
            PROBLEMS.append('wait without the main lock')
        LOG.append((self.cid, 'wait_begin', None if timeout is None else fr(timeout)))
        r = self.cond.wait(timeout)
        LOG.append((self.cid, 'wait_end', bool(r)))
        return r

    def _note(self):
        if not owned():
            PROBLEMS.append('notify without the main lock')
        name = sys._getframe(2).f_code.co_name
        if name in ('tempo', 'etempo', 'beats'):
            LOG.append((self.cid, 'notify', 'tempo'))
        elif name == '_sched_add':
            LOG.append((self.cid, 'notify', 'sched'))
        elif name == 'clear':
            LOG.append((self.cid, 'notify', 'clear'))
        elif name in ('_stop', '_sched_stop'):
            LOG.append((self.cid, 'notify', 'stop'))
        else:
            LOG.append((self.cid, 'notify', 'unknown:' + name))

    def notify(self, n=1):
        self._note()
        self.cond.notify(n)

    def notify_all(self):
        self._note()
        self.cond.notify_all()


# ---- AppClock proxies -------------------------------------------------------------------
WINDOW = {'armed': False, 'in': threading.Event(), 'go': threading.Event()}


def is_app_thread():
    return THREAD_CID.get(threading.get_ident()) == 'app'


class SchedLockProxy:
    def __init__(self, lock):
        self.lock = lock

    def __enter__(self):
        self.lock.acquire()
        if is_app_thread() and sys._getframe(1).f_code.co_name == '_run':
            LOG.append(('app', 'tick_begin'))
        return self

    def __exit__(self, et, ev, tb):
        mine = is_app_thread() and sys._getframe(1).f_code.co_name == '_run'
        if mine:
            LOG.append(('app', 'tick_end' if et is None else 'tick_abort'))
        self.lock.release()
        if mine and WINDOW['armed']:
            # widen the window between the two with-blocks of AppClock._run
            WINDOW['armed'] = False
            WINDOW['in'].set()
            WINDOW['go'].wait(10)
            WINDOW['go'].clear()
        return False

    def acquire(self, *a, **k):
        return self.lock.acquire(*a, **k)

    def release(self):
        return self.lock.release()

    def _is_owned(self):
        return self.lock._is_owned()


class TickCondProxy:
    def __init__(self, cond):
        self.cond = cond

    def __enter__(self):
        self.cond.acquire()
        if is_app_thread() and sys._getframe(1).f_code.co_name == '_run':
            LOG.append(('app', 'cond_enter'))
        return self

    def __exit__(self, et, ev, tb):
        if is_app_thread() and sys._getframe(1).f_code.co_name == '_run':
            LOG.append(('app', 'cond_exit' if et is None else 'cond_abort'))
        self.cond.release()
        return False

    def wait(self, timeout=None):
        LOG.append(('app', 'wait_begin', None if timeout is None else fr(timeout)))
        r = self.cond.wait(timeout)
        LOG.append(('app', 'wait_end', bool(r)))
        return r

    def notify(self, n=1):
        name = sys._getframe(1).f_code.co_name
        LOG.append(('app', 'stop' if name == '_stop' else 'anotify'))
        self.cond.notify(n)

    def notify_all(self):
        self.notify()


class AppQProxy(QProxy):
    def pop(self):
        if not owned():
            PROBLEMS.append('app pop without the main lock')
        item = self.q.pop()
        name = sys._getframe(1).f_code.co_name
        LOG.append(('app', 'clearpop' if name == 'clear' else 'pop', fr(item[0]), task_id(item[1])))
        return item


def wait_for(pred, timeout):
    t0 = time.time()
    while time.time() - t0 < timeout:
        if pred():
            return True
        time.sleep(0.002)
    return pred()


def install():
    S = clk.SystemClock
    THREAD_CID[S._thread.ident] = 'sys'
    THREAD_CID[clk.AppClock._thread.ident] = 'app'
    if not PROXIES:
        return
    main.elapsed_time = elapsed_proxy
    with main._main_lock:
        S._task_queue = QProxy(S._task_queue, 'sys')
        orig = S._sched_cond
        S._sched_cond = CondProxy(orig, 'sys', S)
        orig.notify_all()                 # the thread sits in the un-proxied wait(): cycle it once
    wait_for(lambda: any(e[0] == 'sys' and e[1] == 'wait_begin' for e in LOG), 5)
    A = clk.AppClock
    tc = A._tick_cond
    with main._main_lock:
        with tc:
            A._scheduler.queue = AppQProxy(A._scheduler.queue, 'app')
            A._sched_lock = SchedLockProxy(A._sched_lock)
            A._tick_cond = TickCondProxy(tc)
            tc.notify()
    wait_for(lambda: any(e[0] == 'app' and e[1] == 'wait_begin' for e in LOG), 5)


def new_tempo(tempo, cid):
    with main._main_lock:
        c = clk.TempoClock(tempo)
        THREAD_CID[c._thread.ident] = cid
        if PROXIES:
            c._task_queue = QProxy(c._task_queue, cid)
            c._sched_cond = CondProxy(c._sched_cond, cid, c)
    return c


# ---- scenarios ----------------------------------------------------------------------------
class Run:
    def __init__(self, sc):
        self.sc = sc
        self.tasks = {}
        self.awakes = []        # (tid, real time, quantised time, logical seconds, thread cid)
        self.scheds = []        # (thread, tid, kind, value, real before, real after)
        self.count = {}
        self.errors = []
        self.clock = None
        self.base = None
        self.final_done_at = None
        self.aux = None
        self.cid = None
        self.async_open = set()
        self.not_run = 0
        self.responsive = None
        self.leak = []
        self.logged = None
        self.raised = None
        self.empty_after_final = None
        self.final_queue = None
        self.queue_consistent = None
        self.log1 = None

    def make_task(self, tid, spec):
        run = self

        def body():
            k = run.count.get(tid, 0)
            run.count[tid] = k + 1
            cid = THREAD_CID.get(threading.get_ident())
            run.awakes.append([tid, real_now(), fr(main.current_tt._seconds), cid, owned()])
            nested = spec.get('nested', [])
            if k < len(nested):
                for op in nested[k]:
                    run.do_op(op, 'task%d' % tid)
            results = spec.get('results', [])
            r = results[k] if k < len(results) else ['none']
            if r[0] == 'delta':
                x = Fraction(r[1], r[2])
                return int(x) if (x.denominator == 1 and len(r) > 3) else float(x)
            if r[0] == 'raise':
                raise RuntimeError('task %d raises' % tid)
            if r[0] == 'stop':
                raise stm.StopStream
            if r[0] == 'str':
                return 'not a number'
            if r[0] == 'bool':
                return True
            if r[0] == 'num':
                return {'i0': 0, 'f0': 0.0, 'nf0': -0.0, 'false': False, 'true': True, 'inf': float('inf'), 'nan': float('nan'),
                        'i1': 1, 'empty': '', 'list': [], 'fsub': FloatSub(1 / 64), 'isub': IntSub(0)}[r[1]]
            if r[0] == 'base_exc':
                raise KeyboardInterrupt
            if r[0] == 'exc':
                class Custom(Exception):
                    pass

                class StopIterationSub(StopIteration):
                    pass

                class StopStreamSub(stm.StopStream):
                    pass
                raise {'StopIteration': StopIteration, 'KeyError': KeyError, 'ValueError': ValueError,
                       'ZeroDivisionError': ZeroDivisionError, 'AttributeError': AttributeError, 'Custom': Custom,
                       'StopIterationSub': StopIterationSub, 'StopStreamSub': StopStreamSub,
                       'AssertionError': AssertionError, 'OSError': OSError}[r[1]]('task %d' % tid)
            return None
        if spec.get('plain'):
            # a PLAIN function: the clocks wrap it in a new Function object at every sched call, so scheduling it
            # again while a scheduling is pending is a separate scheduling (not a replacement)
            body._c08_tid = tid
            KEEP.append(body)
            return body
        if spec.get('rscript') is not None:
            # a Routine whose body is a script: ['yield', n, d] | ['self_next'] | ['next', tid] (resume another routine
            # object from inside this one) | ['raise'] | ['stop'] ; a wake-up is recorded at the start of every segment
            script = spec['rscript']
            box = {}

            def rec():
                run.count[tid] = run.count.get(tid, 0) + 1
                run.awakes.append([tid, real_now(), fr(main.current_tt._seconds),
                                   THREAD_CID.get(threading.get_ident()), owned()])

            def gen():
                rec()
                for a in script:
                    if a[0] == 'yield':
                        yield float(Fraction(a[1], a[2]))
                        rec()
                    elif a[0] == 'self_next':
                        box['t'].next()
                    elif a[0] == 'next':
                        run.tasks[a[1]].next()
                    elif a[0] == 'bpb':
                        run.clock.beats_per_bar = a[1]     # legal: this routine plays on the clock
                    elif a[0] == 'raise':
                        raise RuntimeError('routine %d raises' % tid)
                    elif a[0] == 'stop':
                        raise stm.StopStream
            t = stm.Routine(gen)
            box['t'] = t
        elif spec.get('routine') is not None:
            # a real Routine: yields `routine` numeric deltas, then ENDS (its last awake raises StopStream)
            ny, dl = spec['routine'], float(Fraction(*spec.get('yield', [1, 64])))
            slow = spec.get('slow', 0) / 1000.0

            def gen():
                if slow:
                    time.sleep(slow)         # slow work inside the first wake-up (the main lock stays held)
                for _ in range(ny):
                    run.count[tid] = run.count.get(tid, 0) + 1
                    run.awakes.append([tid, real_now(), fr(main.current_tt._seconds),
                                       THREAD_CID.get(threading.get_ident()), owned()])
                    yield dl
                run.count[tid] = run.count.get(tid, 0) + 1
                run.awakes.append([tid, real_now(), fr(main.current_tt._seconds),
                                   THREAD_CID.get(threading.get_ident()), owned()])
            t = stm.Routine(gen)
        else:
            t = fn.Function(body)
        TASK_IDS[id(t)] = tid
        KEEP.append(t)
        return t

    def do_op(self, op, who):
        c = self.clock
        k = op[0]
        try:
            if k == 'sleep':
                time.sleep(op[1] / 1000.0)
            elif k == 'locked':
                # a block of operations during which the clock thread cannot run (it needs the main lock):
                # the order of the schedulings inside is then the only thing that decides ties
                with main._main_lock:
                    for o in op[1]:
                        self.do_op(o, who)
            elif k in ('rplay', 'rresume'):
                t0 = real_now()
                if k == 'rplay':
                    self.tasks[op[1]].play(c, op[2])
                else:
                    self.tasks[op[1]].resume(c, op[2])
                self.scheds.append([who, op[1], 'play', op[2], t0, real_now()])
            elif k == 'rpause':
                self.tasks[op[1]].pause()
            elif k == 'busy':
                t_end = time.time() + op[1] / 1000.0       # a body that runs late (holds the lock)
                while time.time() < t_end:
                    pass
            elif k == 'stop':
                c.stop()
            elif k == 'cmdperiod':
                from sc3.base import systemactions as sac
                sac.CmdPeriod.free_servers = False
                t0 = real_now()
                sac.CmdPeriod.run()
                self.scheds.append([who, None, 'clear', None, t0, real_now()])
            elif k == 'sched_x':
                # explicit edge values for the delay: 'i0' 'f0' 'nf0' 'none' 'inf'
                val = {'i0': 0, 'f0': 0.0, 'nf0': -0.0, 'none': None, 'inf': float('inf'), 'nan': float('nan'), 'false': False}[op[2]]
                t0 = real_now()
                try:
                    c.sched(val, self.tasks[op[1]])
                    out = 'ok'
                except Exception as e:
                    out = type(e).__name__
                self.scheds.append([who, op[1], 'x:' + op[2], out, t0, real_now()])
            elif k == 'sched':
                t0 = real_now()
                outside = who.startswith('client') or who == 'main'
                if PROXIES and outside and self.sc['clock'] in ('sys', 'tempo'):
                    # announce the call to the proxies (thread-local): the time base read inside sched is logged,
                    # under the library's own lock, as one event (sched_call base delta) just before the add
                    TL.sched, TL.based = (self.cid, [op[2], op[3]]), False
                    try:
                        c.sched(float(Fraction(op[2], op[3])), self.tasks[op[1]])
                    finally:
                        TL.sched = None
                else:
                    c.sched(float(Fraction(op[2], op[3])), self.tasks[op[1]])
                self.scheds.append([who, op[1], 'delta', [op[2], op[3]], t0, real_now()])
            elif k == 'abs':
                t0 = real_now()
                when = float(self.base + Fraction(op[2], op[3]))
                c.sched_abs(when, self.tasks[op[1]])
                self.scheds.append([who, op[1], 'abs', fr(when), t0, real_now()])
            elif k == 'asched':
                t0 = real_now()
                self.aux.sched(float(Fraction(op[2], op[3])), self.tasks[op[1]])
                self.scheds.append([who, op[1], 'adelta', [op[2], op[3]], t0, real_now()])
            elif k == 'xsched':
                t0 = real_now()
                clk.SystemClock.sched(float(Fraction(op[2], op[3])), self.tasks[op[1]])
                self.scheds.append([who, op[1], 'xdelta', [op[2], op[3]], t0, real_now()])
            elif k == 'clear':
                t0 = real_now()
                c.clear()
                self.scheds.append([who, None, 'clear', None, t0, real_now()])
            elif k in ('tempo', 'beats_add', 'etempo'):
                self.retime(op, who, lock=True)
            elif k == 'bpb':
                try:
                    c.beats_per_bar = op[1]  # does not move the time map; refused (ClockError) unless the caller is a
                except clk.ClockError:       # routine playing on this very clock: a documented refusal, not an error
                    pass
            elif k == 'nolock':
                # as the main thread of a script does it: WITHOUT taking the main lock first (the entry point
                # itself synchronises where it has to)
                self.retime(op[1], who, lock=False)
            elif k == 'slow':
                time.sleep(op[1] / 1000.0)       # a slow body: the caller (a task) keeps the main lock
            elif k == 'via':
                vc = {'sys': clk.SystemClock, 'app': clk.AppClock, 'aux': self.aux}[op[1]]
                inner, tag = op[2], 'via-' + op[1]
                tok = new_token()
                self.async_open.add(tok)

                def helper():
                    # asynchronous: the scenario does not end before this has run (or was cancelled)
                    if tok in self.async_open:
                        try:
                            self.do_op(inner, tag)
                        finally:
                            self.async_open.discard(tok)
                f = fn.Function(helper)
                KEEP.append(f)
                vc.sched(0, f)
            elif k == 'osc_do':
                tok = new_token()
                self.async_open.add(tok)
                OSC_PENDING[tok] = (self, op[1])
                s = socket.socket(socket.AF_INET, socket.SOCK_DGRAM)
                s.sendto(b'/c08do\x00\x00,i\x00\x00' + tok.to_bytes(4, 'big'), ('127.0.0.1', main._osc_interface.port))
                s.close()
            elif k == 'osc':
                s = socket.socket(socket.AF_INET, socket.SOCK_DGRAM)
                s.sendto(b'/c08\x00\x00\x00\x00,\x00\x00\x00', ('127.0.0.1', main._osc_interface.port))
                s.close()
        except Exception as e:
            self.errors.append('%s: %s %r' % (who, op, e))

    def retime(self, op, who, lock):
        c = self.clock
        cid = self.cid

        def change():
            t0 = real_now()
            val = float(Fraction(op[1], op[2]))
            # the anchor of the change: the caller's logical time.  Inside a task it is frozen (read it now); for a
            # non-clock thread every read refreshes from the physical clock: the entry point's OWN last read counts
            frozen = main.current_tt._seconds
            if op[0] == 'beats_add':
                val = c.beats + val
            TL.retime_reads = []
            if PROXIES:
                LOG.append((cid, 'tempo_req', op[0]))
            try:
                if op[0] == 'tempo':
                    c.tempo = val
                elif op[0] == 'etempo':
                    c.etempo(val)
                else:
                    c.beats = val
            finally:
                reads, TL.retime_reads = TL.retime_reads, None
                # inside a task the main thread's time is frozen (the reads are ignored by the library);
                # etempo always anchors at the physical present
                in_task = who.startswith('task') or who.startswith('via') or who == 'osc'
                if op[0] == 'etempo' or not in_task:
                    anchor = reads[-1] if reads else frozen
                else:
                    anchor = frozen
                if PROXIES:
                    LOG.append((cid, 'tempo_done', fr(c._tempo), fr(c._base_seconds), fr(c._base_beats),
                                fr(c._beat_dur), fr(anchor), fr(val)))
            self.scheds.append([who, None, op[0], [op[1], op[2]], t0, real_now()])
        if lock:
            with main._main_lock:
                change()
        else:
            change()

    def cut(self, cids):
        """snapshot and reset the log while holding the library's lock(s)"""
        if 'app' in cids and PROXIES:
            tc = clk.AppClock._tick_cond
            with main._main_lock:
                with tc:
                    out = list(LOG)
                    del LOG[:]
        else:
            with main._main_lock:
                out = list(LOG)
                del LOG[:]
        return out

    def snapshot(self, cid, kind):
        c = self.clock
        locks = [main._main_lock]
        if kind == 'app' and PROXIES:
            locks.append(clk.AppClock._tick_cond)
        for l in locks:
            l.__enter__() if not hasattr(l, 'cond') else l.cond.acquire()
        try:
            q = c._scheduler.queue if kind == 'app' else c._task_queue
            raw = getattr(q, 'q', q)
            try:
                items = [(fr(p), task_id(t)) for p, t in list(iter(raw)) if math.isfinite(p)]
                live = [e for e in raw._queue if e[-1] is not raw._REMOVED]
                tomb = len(raw._queue) - len(live)
                self.queue_consistent = bool(
                    raw.empty() == (len(live) == 0) and raw._removed_counter == tomb
                    and len(raw._entry_finder) == len(live)
                    and all(raw._entry_finder.get(e[-1]) is e for e in live))
            except Exception as e:
                items, self.queue_consistent = None, 'error %r' % (e,)
            self.final_queue = items
            self.log1 = list(LOG)
            del LOG[:]
        finally:
            for l in reversed(locks):
                l.__exit__(None, None, None) if not hasattr(l, 'cond') else l.cond.release()

    def settle_start(self, cid):
        """bring a singleton clock to 'waiting with an empty queue' and cut the log there"""
        c = self.clock
        c.clear()

        def idle():
            ev = [e for e in LOG if e[0] == cid]
            return bool(ev) and ev[-1][1] == 'wait_begin' and ev[-1][2] is None
        if PROXIES:
            if cid == 'app':
                with clk.AppClock._tick_cond.cond:
                    clk.AppClock._tick_cond.cond.notify()
            wait_for(idle, 5)
        else:
            time.sleep(0.05)
        self.cut([cid])

    def go(self):
        sc = self.sc
        kind = sc['clock']
        cid = kind
        if kind == 'sys':
            self.clock = clk.SystemClock
            self.settle_start('sys')
        elif kind == 'app':
            self.clock = clk.AppClock
            self.settle_start('app')
        else:
            self.cut([])
            cid = 'tempo%d' % sc.get('index', 0)
            self.clock = new_tempo(float(Fraction(*sc.get('tempo', [1, 1]))), cid)
            if sc.get('permanent'):
                self.clock.permanent = True
            # the scenario starts when the new clock thread sits in its first wait (start-up
            # interleavings -- clients acting before the thread first takes the lock -- are not modelled)
            if PROXIES:
                wait_for(lambda: any(e[0] == cid and e[1] == 'wait_begin' for e in LOG), 5)
            else:
                time.sleep(0.03)
        c = self.clock
        self.cid = cid
        del LOGGED[:]
        del RAISED[:]
        if '"aux"' in json.dumps(sc):
            self.aux = clk.TempoClock(1.0)
        for tid, spec in sc['tasks'].items():
            self.tasks[int(tid)] = self.make_task(int(tid), spec)
        self.base = Fraction(main.elapsed_time()) + Fraction(1, 16)
        init_map = None
        if kind == 'tempo':
            init_map = [fr(c._tempo), fr(c._base_seconds), fr(c._base_beats)]
            self.base = Fraction(c.secs2beats(float(self.base)))
        window = None
        if sc.get('window') and PROXIES:
            window = self.window_scenario()
        ths = [threading.Thread(target=self.client, args=(i, ops), daemon=True)
               for i, ops in enumerate(sc['threads'])]
        for t in ths:
            t.start()
        for t in ths:
            t.join(30)
        for op in sc.get('main_ops', []):      # performed by the process' main thread
            self.do_op(op, 'main')
        # operations issued through other clocks / the OSC receive path are asynchronous: wait for them
        # (a lost datagram or a very late helper is cancelled, never executed after the scenario)
        wait_for(lambda: not self.async_open, 5)
        with main._main_lock:
            self.not_run = len(self.async_open)
            self.async_open.clear()
        # let the pending tasks run: until nothing is queued or the horizon passes
        q = c._scheduler.queue if kind == 'app' else c._task_queue
        t_end = time.time() + sc.get('horizon', 1.0)
        final = sc.get('final', 'drain')
        stops = final in ('stop', 'stop_all') or (final == 'cmdperiod' and kind == 'tempo' and not sc.get('permanent'))
        if final == 'drain':
            while time.time() < t_end:
                with main._main_lock:
                    e = q.empty()
                if e:
                    break
                time.sleep(0.005)
        else:
            need = sc.get('wait_for', [])
            wc = sc.get('wait_counts')
            if wc:
                # no upper bound on lateness is asserted: wait (generously) until the expected wake-ups happened
                wait_for(lambda: all(self.count.get(int(t), 0) >= n for t, n in wc.items()), sc.get('before_final', 3.0))
            elif need:
                wait_for(lambda: all(self.count.get(t, 0) > 0 for t in need), sc.get('before_final', 0.03))
            else:
                time.sleep(sc.get('before_final', 0.03))
            if final == 'clear':
                c.clear()
            elif final == 'cmdperiod':
                # the library's panic action: documented to clear ALL clocks' queues and stop the non permanent
                # TempoClocks (servers are left alone here)
                from sc3.base import systemactions as sac
                sac.CmdPeriod.free_servers = False
                sac.CmdPeriod.run()
                if stops:
                    wait_for(lambda: c._thread is None, 5)
            elif final == 'stop_all':
                clk.TempoClock.stop_all()
                wait_for(lambda: c._thread is None, 5)
            elif final == 'stop':
                if kind == 'tempo':
                    c.stop()
                    wait_for(lambda: c._thread is None, 5)
                elif kind == 'sys':
                    c._sched_stop()
                else:
                    c._stop()
            self.final_done_at = real_now()
            with main._main_lock:           # direct observation, no timing: nothing is pending after it returned
                self.empty_after_final = bool(q.empty())
            time.sleep(sc.get('after_final', 0.12))
        time.sleep(0.02)
        alive = None
        if kind == 'tempo':
            alive = c._thread is not None and c._thread.is_alive()
        else:
            alive = c._thread.is_alive()
        # the clock must still be responsive: a probe scheduled now runs (generous wait; liveness is assumed,
        # this only tells a dead / wedged thread from a working one)
        if not stops and not sc.get('expect_dead') and not alive:
            self.responsive = False
        elif not stops and not sc.get('expect_dead'):
            self.tasks[0] = self.make_task(0, {'results': [['none']]})
            try:
                if kind == 'app':
                    c.sched(0.0, self.tasks[0])
                else:
                    self.do_op(['sched', 0, 0, 1], 'main')
                self.responsive = wait_for(lambda: self.count.get(0, 0) > 0, 10)
            except Exception as e:
                self.responsive = False
                self.errors.append('probe: %r' % (e,))
            time.sleep(0.01)
        # global state a failing task may leak: the time-thread stack and the awake flag
        with main._main_lock:
            # "an exception raised by one task is logged": one record per raising wake-up, with that exception
            self.logged = sorted(str(x[2]) for x in LOGGED if 'scheduled on' in x[3] and x[1] == 'ERROR')
            self.raised = sorted(RAISED) if PROXIES else None
            self.leak = []
            if main.current_tt is not main.main_tt:
                self.leak.append('main.current_tt is %r (not the main time thread)' % (main.current_tt,))
            if main._in_awake_call:
                self.leak.append('main._in_awake_call is still set')
        # snapshot of the real queue, with the log up to here (two-site check: model queue vs real queue)
        self.snapshot(cid, kind)
        if kind == 'tempo' and not stops:
            try:
                c.stop()
            except Exception:
                pass
            wait_for(lambda: c._thread is None, 5)
        log = self.log1 + self.cut([cid])
        if self.aux is not None:
            try:
                self.aux.stop()
            except Exception:
                pass
        return {'name': sc['name'], 'clock': kind, 'cid': cid, 'init_map': init_map,
                'base': fr(self.base), 'log': [list(e) for e in log if e[0] == cid],
                'other': sorted(set(str(e[0]) for e in log if e[0] != cid)),
                'awakes': self.awakes, 'scheds': self.scheds, 'errors': self.errors,
                'alive': alive, 'window': window, 'problems': list(PROBLEMS),
                'final_done_at': self.final_done_at, 'async_not_run': self.not_run,
                'responsive': self.responsive, 'final_queue': self.final_queue, 'leak': self.leak,
                'logged': self.logged, 'raised': self.raised, 'empty_after_final': self.empty_after_final,
                'stops': bool(sc.get('final') in ('stop', 'stop_all') or (sc.get('final') == 'cmdperiod' and kind == 'tempo'
                                                                          and not sc.get('permanent'))),
                'n_log1': len([e for e in self.log1 if e[0] == cid]), 'queue_consistent': self.queue_consistent}

    def client(self, i, ops):
        for op in ops:
            self.do_op(op, 'client%d' % i)

    def window_scenario(self):
        """AppClock, deterministic: hold the clock thread between its two with-blocks while a
        client performs a complete sched(); then measure when the task runs."""
        A = clk.AppClock
        sc = self.sc
        res = {}
        WINDOW['in'].clear()
        WINDOW['go'].clear()
        WINDOW['armed'] = True
        with A._tick_cond.cond:           # make the (idle) clock thread loop once
            A._tick_cond.cond.notify()
        if not WINDOW['in'].wait(5):
            res['error'] = 'clock thread did not reach the window'
            WINDOW['armed'] = False
            return res
        t0 = real_now()
        d = Fraction(*sc['window_delta'])
        A.sched(float(d), self.tasks[sc['window_task']])      # both critical sections complete here
        res['sched_done_at'] = real_now() - t0
        WINDOW['go'].set()
        tid = sc['window_task']
        ok = wait_for(lambda: self.count.get(tid, 0) > 0, sc.get('window_bound', 1.0))
        res['ran_within_bound'] = ok
        res['bound'] = sc.get('window_bound', 1.0)
        res['delta'] = float(d)
        if ok:
            res['ran_after'] = [a[1] for a in self.awakes if a[0] == tid][0] - t0
        else:
            # an unrelated sched wakes the clock up
            A.sched(0.0, self.tasks[sc['window_other']])
            ok2 = wait_for(lambda: self.count.get(tid, 0) > 0, 2.0)
            res['ran_after_unrelated_sched'] = ok2
            if ok2:
                res['ran_after'] = [a[1] for a in self.awakes if a[0] == tid][0] - t0
        return res


OSC_PENDING = {}
_TOK = [0]
_TOKL = threading.Lock()


def new_token():
    with _TOKL:
        _TOK[0] += 1
        return _TOK[0]


def osc_recv(msg, time_, addr, port):
    # runs inside the task that the OSC receive thread scheduled on SystemClock
    if msg and msg[0] == '/c08do' and len(msg) > 1:
        ent = OSC_PENDING.pop(msg[1], None)
        if ent is not None:
            run, op = ent
            if msg[1] in run.async_open:
                try:
                    run.do_op(op, 'osc')
                finally:
                    run.async_open.discard(msg[1])


def main_():
    install()
    main.add_osc_recv_func(osc_recv)
    out = []
    for sc in inp['scenarios']:
        del PROBLEMS[:]
        try:
            out.append(Run(sc).go())
        except Exception as e:
            import traceback
            out.append({'name': sc['name'], 'clock': sc['clock'], 'crash': traceback.format_exc()})
    json.dump({'results': out, 'app_variant': 'flag' if hasattr(clk.AppClock, '_tick_pending') else 'orig'},
              open(sys.argv[2], 'w'))
    sys.stdout.flush()
    os._exit(0)


main_()
