"""C02 bridge: build the compiler-model programs (build-C01's `prog`s) with the REAL SynthDef and
report the emitted bytes, the parameter-name table and the float32 words of every constant and
control default, so that  model compiler (Graph.compile) + model writer (Scgf.write_def)  can be
compared with the real bytes.  Uses harness/impl/c01_lib.py (prog -> real graph function).
in: {'cases': [prog]}   out: {'out': [{'ok', 'bytes', 'pnames', 'f32', 'err'}]}"""
import json, os, struct, sys
from fractions import Fraction
import sc3
sc3.init(os.environ.get('SC3_MODE', 'nrt'))
import logging
logging.disable(logging.CRITICAL)
import sc3.base.main as m
import c01_lib as L


def word(x):
    return struct.unpack('>I', struct.pack('>f', x))[0]


def fr(x):
    f = Fraction(float(x))
    return '%d/%d' % (f.numerator, f.denominator)


def main():
    cases = json.load(open(sys.argv[1]))['cases']
    out = []
    for i, p in enumerate(cases):
        name = 'b%d' % i
        d, sd = L.build(p, name)
        if m.main._current_synthdef is not None:
            m.main._current_synthdef = None
        r = {'ok': bool(d['ok']), 'name': name, 'bytes': None, 'pnames': [], 'f32': [], 'err': d.get('err')}
        if sd is not None:
            try:
                mv = sd.as_bytes()
                r['bytes'] = bytes(mv).hex()
                sd._bytes = None
                mv.release()
            except Exception as e:
                r['ok'] = False
                r['err'] = 'as_bytes:' + type(e).__name__
            r['pnames'] = [[cn.name, cn.index] for cn in sd._all_control_names if cn.rate != 'noncontrol']
            vals = list(sd._constants.keys()) + list(sd._controls)
            seen = {}
            for v in vals:
                seen[fr(v)] = word(float(v))
                if word(float(v)) == 0x80000000:
                    r['negzero'] = True      # the sign of a zero is not representable in the compiler model (Q)
            r['f32'] = sorted(seen.items())
        out.append(r)
    json.dump({'out': out}, open(sys.argv[2], 'w'))


main()
