"""C15 lifting half: build operand trees from REAL sc3 objects, apply operators, evaluate.

Input  {'cases': [case, ...]}; case kinds:
  {'k': 'expr', 'x': numdesc, 'fns': [[kdesc, cdesc], ...], 'e': expr}
  {'k': 'util', 'fn': 'list_binop'|'list_unop'|'list_narop'|'wrap_extend'|'flop', ...}
Output {'out': [den, ...]} where den is a tagged tree:
  ['n', tag, num, den]  number (tag 0 int / bool, 1 float as exact fraction)
  ['c', den]            the object was callable and was called with x
  ['s', [den...]]       the object was a Stream (exhausted) or a Pattern (embedded, exhausted)
  ['l', 'L'|'T'|'C', [den...]]   list / tuple / ChannelList
  ['o', rest?, den]     Operand / Rest
  ['e', ExceptionName]  raised while building or evaluating
  ['x', text]           anything else
"""
import copy, json, math, operator, os, sys
from fractions import Fraction

import sc3
sc3.init(os.environ.get('SC3_MODE', 'nrt'))
import sc3.base.builtins as bi
from sc3.base import utils as utl
from sc3.base.functions import Function, AbstractFunction
from sc3.base.stream import Routine, Stream, stream
from sc3.seq.pattern import Pattern
from sc3.seq.patterns.listpatterns import Pseq
from sc3.seq.patterns.filterpatterns import Pn
from sc3.seq.patterns.funcpatterns import Pfunc
from sc3.synth.ugen import ChannelList
from sc3.base.operand import Operand
from sc3.seq.event import Rest

MAXLEN = 64

PYOPS1 = {'neg': operator.neg, 'abs': operator.abs}
PYOPS2 = {'pow': operator.pow, 'lshift': operator.lshift, 'rshift': operator.rshift,
          'and_': operator.and_, 'or_': operator.or_,
          'add': operator.add, 'sub': operator.sub, 'mul': operator.mul, 'truediv': operator.truediv,
          'floordiv': operator.floordiv, 'pymod': operator.mod, 'lt': operator.lt, 'le': operator.le,
          'gt': operator.gt, 'ge': operator.ge, 'eq': operator.eq, 'ne': operator.ne}


def num(d):
    if d[0] == 'B':
        return bool(int(d[1]))
    return int(d[1]) if d[0] == 'I' else float(Fraction(d[1]))


def mk_routine(items):
    def gen():
        for i in items:
            yield i
    return Routine(gen)


NAMES = ['x', 'depth', 'rate', 'q']


def lit(d):
    return repr(num(d))


def mk_fn(f):
    """Function(lambda p0, p1=d1, ...: c + k0*p0 + k1*p1 ...): named parameters, trailing defaults"""
    ps = ', '.join(NAMES[n] if d is None else '%s=%s' % (NAMES[n], lit(d)) for n, d in f['params'])
    body = lit(f['c']) + ''.join(' + %s*%s' % (lit(k), NAMES[n]) for k, (n, _d) in zip(f['coef'], f['params']))
    return Function(eval('lambda %s: %s' % (ps, body)))


def leaf(d, fns):
    t = d[0]
    if t == 'num':
        return num(d[1:])
    if t == 'fn':
        return fns[d[1]]
    if t == 'str':
        return mk_routine([num(i) for i in d[1]])
    if t == 'pat':
        key = json.dumps(d[1])
        cache = fns[-1] if fns and isinstance(fns[-1], dict) else None
        if cache is None:
            return Pseq([num(i) for i in d[1]])
        if key not in cache:
            cache[key] = Pseq([num(i) for i in d[1]])     # the same Pattern object wherever it recurs
        return cache[key]
    if t == 'pfunc':           # value depends on the input passed to next(): c + k * inval, never ends
        return fns[-1]['__pfunc__'][d[1]]()
    if t == 'pstr':            # an already-made pattern stream (PatternValueStream) yielding varying values
        return stream(Pseq([num(i) for i in d[1]]))
    if t == 'seq':
        items = [leaf(i, fns) for i in d[2]]
        return {'L': list, 'T': tuple, 'C': ChannelList}[d[1]](items)
    if t == 'operand':
        return (Rest if d[1] else Operand)(leaf(d[2], fns))
    raise ValueError(d)


DUNDER1 = {'floor': math.floor, 'ceil': math.ceil, 'trunc': math.trunc, 'round': round}


def apply1(name, mode, a):
    if mode == 'dunder':                 # round(a), math.trunc(a), math.floor(a), math.ceil(a)
        return DUNDER1[name](a)
    if mode == 'op':
        return PYOPS1[name](a)
    if mode == 'meth':
        return getattr(a, name)()
    return getattr(bi, name)(a)


def apply2(name, mode, a, b):
    if mode == 'dunder':                 # round(a, n)
        return round(a, b)
    if mode == 'op':
        return PYOPS2[name](a, b)
    if mode == 'meth':
        return getattr(a, name)(b)
    return getattr(bi, name)(a, b)


def apply3(name, mode, a, args, clip=None):
    kw = {}
    if clip is not None:                 # optional string-mode argument of the range-mapping family
        if clip[0] == 'pos':
            args = list(args) + [clip[1]]
        elif clip[0] == 'kw':
            kw = {'clip': clip[1]}
    if mode == 'meth':
        return getattr(a, name)(*args, **kw)
    return getattr(bi, name)(a, *args, **kw)


def stateful(e):
    """a Routine / an already-made stream somewhere inside: consumed by use, never shared"""
    if isinstance(e, list):
        if e and e[0] in ('str', 'pstr'):
            return True
        return any(stateful(i) for i in e)
    return False


def build(e, fns):
    """Identical stateless sub-expressions (patterns, functions, lists, operands and composites of them) are built
    ONCE per case and the same object is used wherever they recur: operand ALIASING (p * p, p.clip(p, p),
    Pseq([q * q]) with q = p + 1).  Each occurrence must still behave as an independent stream of the blueprint."""
    memo = fns[-1].setdefault('__memo__', {}) if fns and isinstance(fns[-1], dict) else None
    if memo is None or e[0] == 'leaf' and e[1][0] in ('num', 'fn') or stateful(e):
        return build1(e, fns)
    key = json.dumps(e)
    if key not in memo:
        memo[key] = build1(e, fns)
    return memo[key]


def build1(e, fns):
    t = e[0]
    if t == 'leaf':
        return leaf(e[1], fns)
    if t == 'un':
        return apply1(e[1], e[2], build(e[3], fns))
    if t == 'bin':
        return apply2(e[1], e[2], build(e[3], fns), build(e[4], fns))
    if t == 'bin1':                      # second argument left to its default
        return apply1(e[1], e[2], build(e[3], fns))
    if t == 'nar':
        return apply3(e[1], e[2], build(e[3], fns), [build(i, fns) for i in e[4]], e[5] if len(e) > 5 else None)
    if t == 'pseq':            # enclosing pattern: the items are EMBEDDED
        return Pseq([build(i, fns) for i in e[1]], e[2])
    if t == 'pn':
        return Pn(build(e[1], fns), e[2])
    raise ValueError(e)


def enc_num(r):
    if isinstance(r, bool):
        return ['n', 0, str(int(r)), '1']
    if isinstance(r, int):
        return ['n', 0, str(r), '1']
    if r != r or r in (float('inf'), float('-inf')):
        return ['x', 'nonfinite']
    fr = Fraction(r)
    return ['n', 1, str(fr.numerator), str(fr.denominator)]


def take(s):
    out = []
    for _ in range(MAXLEN + 1):
        try:
            out.append(s.next())
        except StopIteration:      # StopStream is a StopIteration
            return out
    raise OverflowError('stream longer than %d' % MAXLEN)


def deep(o, x):
    if isinstance(o, (bool, int, float)):
        return enc_num(o)
    if isinstance(o, AbstractFunction):
        pos, kw = x                       # the argument record: every callable gets the same call
        return ['c', deep(o(*pos, **kw), x)]
    if isinstance(o, Stream):
        return ['s', [deep(i, x) for i in take(o)]]
    if isinstance(o, Pattern):
        return ['s', [deep(i, x) for i in take(stream(o))]]
    if isinstance(o, Operand):
        return ['o', isinstance(o, Rest), deep(o.value, x)]
    if isinstance(o, ChannelList):
        return ['l', 'C', [deep(i, x) for i in o]]
    if isinstance(o, tuple):
        return ['l', 'T', [deep(i, x) for i in o]]
    if isinstance(o, list):
        return ['l', 'L', [deep(i, x) for i in o]]
    return ['x', type(o).__name__]


def val(d):
    """plain nested value for the utils-level cases"""
    if d[0] == 'num':
        return num(d[1:])
    items = [val(i) for i in d[2]]
    return {'L': list, 'T': tuple, 'C': ChannelList}[d[1]](items)


def util_op(name, arity):
    if name in PYOPS1 and arity == 1:
        return PYOPS1[name]
    if name in PYOPS2 and arity == 2:
        return PYOPS2[name]
    return getattr(bi, name)


def frozen(v):
    return repr(v)


def run_util(c):
    fn = c['fn']
    T = {'L': list, 'T': tuple, 'C': ChannelList, None: None}
    if fn in ('list_binop', 'list_unop', 'list_narop'):
        # the caller's (nested) lists must not be modified in place
        a = val(c['a'])
        rest = [val(c['b'])] if fn == 'list_binop' else ([val(i) for i in c['args']] if fn == 'list_narop' else [])
        snap = (frozen(a), [frozen(i) for i in rest])
        op = util_op(c['op'], {'list_unop': 1, 'list_binop': 2, 'list_narop': 3}[fn])
        if fn == 'list_unop':
            r = utl.list_unop(op, a, T[c['t']])
        elif fn == 'list_binop':
            r = utl.list_binop(op, a, rest[0], T[c['t']])
        else:
            r = utl.list_narop(op, a, *rest, t=T[c['t']])
        if (frozen(a), [frozen(i) for i in rest]) != snap:
            return 'argument mutated'
        return r
    if fn == 'wrap_extend':
        return utl.wrap_extend([num(i) for i in c['lst']], c['n'])
    if fn == 'flop':
        return utl.flop([val(i) for i in c['lst']])
    if fn == 'list_unop':
        return utl.list_unop(util_op(c['op'], 1), val(c['a']), T[c['t']])
    if fn == 'list_binop':
        return utl.list_binop(util_op(c['op'], 2), val(c['a']), val(c['b']), T[c['t']])
    if fn == 'list_narop':
        return utl.list_narop(util_op(c['op'], 3), val(c['a']), *[val(i) for i in c['args']], t=T[c['t']])
    raise ValueError(fn)


def mk_pfunc(c, k):
    return lambda: Pfunc(lambda inval: c + k * inval)


def observe(obj, ins, x):
    """next(ins[0]), next(ins[1]), ...: what the stream yields for each input (until it ends)"""
    s = obj if isinstance(obj, Stream) else stream(obj)
    out = []
    for v in ins:
        try:
            out.append(s.next(v))
        except StopIteration:
            break
    return ['s', [deep(i, x) for i in out]]


def main():
    cases = json.load(open(sys.argv[1]))['cases']
    out = []
    for c in cases:
        try:
            if c['k'] == 'expr':
                x = ([num(v) for v in c['pos']], {NAMES[n]: num(v) for n, v in c['kw']})
                fns = [mk_fn(f) for f in c['fns']] + [{}]      # last entry: per-case cache of Pattern objects
                if c.get('ins') is not None:
                    fns[-1]['__pfunc__'] = [mk_pfunc(num(cc), num(k)) for cc, k in c['ifns']]
                    out.append(observe(build(c['e'], fns), [num(v) for v in c['ins']], x))
                    continue
                obj = build(c['e'], fns)
                if c.get('twice') and isinstance(obj, AbstractFunction):
                    # warm-up call with OTHER arguments: a composite that caches operand values from its
                    # first evaluation then answers the real call with stale values
                    try:
                        obj(*[v + 1 for v in x[0]], **{k: v + 1 for k, v in x[1].items()})
                    except Exception:
                        pass
                res = deep(obj, x)
                if c.get('twice'):
                    # no cached operand values, no consumed state: a composed function called again and a
                    # pattern streamed again give the same result
                    if deep(obj, x) != res:
                        res = ['x', 'second evaluation differs']
                out.append(res)
            else:
                before = json.dumps(c, sort_keys=True)
                r = deep(run_util(c), None)
                out.append(r)
        except RecursionError:
            out.append(['e', 'RecursionError'])
        except Exception as e:
            out.append(['e', type(e).__name__])
    json.dump({'out': out}, open(sys.argv[2], 'w'))


main()
