"""C02: build REAL SynthDefs from generated graph programs and report their bytes.

in : {'cases': [prog, ...]}
out: {'out': [result, ...]}

prog = {'name': str, 'params': [{'name','default','annot','lag'}], 'variants': {key: {cname: val}} | None,
        'body': [instr], 'base': bool}
instr = {'cls': str, 'meth': str, 'args': [arg]}            a unit constructor call
      | {'op': 'bin'|'un'|'madd'|'idx', ...}                arithmetic on earlier values
arg   = {'k': number} | {'v': j, 'pick': k|None, 'need': ...} | {'p': j, ...} | {'l': [arg]} | {'t': [arg]}
      | {'bad': 'nan'|'str'|'none'|'obj'} | {'env': 1}

The interpreter is adaptive (rates/shapes are resolved on the real objects), the format check only
looks at the emitted bytes, so the program is just a reproducible way to drive the library.
result = {'status': 'ok'|'build_exc'|'bytes_exc', 'exc': [class names], 'bytes': hex, 'order': [[birth, wf]],
          'names3': [[name, index, chans]], 'desc': canonical SynthDesc | None, 'desc_exc': str,
          'base': hex | None}
"""
import json, math, os, struct, sys, operator, traceback, resource
# a malformed definition can make the library's reader allocate gigabytes: fail with MemoryError instead
try:
    resource.setrlimit(resource.RLIMIT_AS, (8 << 30, 8 << 30))
except Exception:
    pass

import sc3
sc3.init(os.environ.get('SC3_MODE', 'nrt'))
import logging
logging.disable(logging.CRITICAL)

from sc3.synth.synthdef import SynthDef
from sc3.synth.synthdesc import SynthDesc, SynthDescLib
import sc3.base.main as _main
from sc3.synth import ugen as ugn
from sc3.synth import _graphparam as gpp
import sc3.synth.ugens as ugs
from sc3.synth.ugens import inout as iou
from sc3.synth.envelope import Env
from sc3.base import utils as utl

# -- creation stamps (class-attribute replacement, no hook in sc3) -------------
_orig_add = SynthDef._add_ugen
_orig_replace = SynthDef._replace_ugen


def _add_ugen(self, ugen):
    if not self._rewrite_in_progress:
        n = getattr(self, '_c02_counter', 0)
        ugen._c02_birth = n
        self._c02_counter = n + 1
    return _orig_add(self, ugen)


def _replace_ugen(self, a, b):
    b._c02_birth = getattr(a, '_c02_birth', -1)
    return _orig_replace(self, a, b)


SynthDef._add_ugen = _add_ugen
SynthDef._replace_ugen = _replace_ugen

RATE = {'scalar': 0, 'control': 1, 'audio': 2, 'demand': 3}
METH_RATE = {'ar': 'audio', 'kr': 'control', 'ir': 'scalar', 'dr': 'demand', 'new': None}


def f32word(x):
    try:
        return struct.unpack('>I', struct.pack('>f', x))[0]
    except (OverflowError, struct.error, TypeError):
        return -1


def flat(x):
    if isinstance(x, (list, tuple)):
        out = []
        for i in x:
            out.extend(flat(i))
        return out
    return [x]


def rate_of(x):
    try:
        return gpp.ugen_param(x)._as_ugen_rate()
    except Exception:
        return None


class Interp:
    def __init__(self, prog, rec=None):
        self.prog = prog
        self.vals = []
        # what the graph functions actually receive / create, independent of the library's own
        # bookkeeping (cn.index): control name -> (first slot, rate number, default words)
        self.rec = {} if rec is None else rec

    def record_param(self, p, x):
        """the value bound to parameter p: an output (or list of outputs) of a control unit whose
        slots are source._special_index + output index"""
        fl = flat(x)
        if not fl or not isinstance(fl[0], ugn.OutputProxy) or not isinstance(fl[0].source_ugen, iou.AbstractControl):
            return
        x0 = fl[0]
        d = p.get('default')
        d = [0.0] if d is None else (list(d) if isinstance(d, list) else [d])
        self.rec[p['name']] = [x0.source_ugen._special_index + x0._output_index, RATE.get(x0.source_ugen.rate, -1),
                               [f32word(v) for v in d]]

    def coerce(self, x, need, unit_rate):
        """Make a single value acceptable for an input that checks rates."""
        if isinstance(x, (list, tuple)):
            return type(x)(self.coerce(i, need, unit_rate) for i in x)
        if need in (None, 'any', 'raw'):
            return x
        r = rate_of(x)
        want = None
        if need == 'audio':
            want = 'audio'
        elif need == 'same':
            want = unit_rate
        elif need == 'notaudio':
            if r == 'audio':
                return ugs.A2K.kr(x)
            return x
        elif need == 'nodemand':
            if r == 'demand':
                return 0.5
            return x
        if want is None or r == want:
            return x
        if r == 'demand':
            x = 0.25
            r = 'scalar'
        if want == 'audio':
            if r == 'control':
                return ugs.K2A.ar(x)
            return ugs.DC.ar(x)
        if want == 'control':
            if r == 'audio':
                return ugs.A2K.kr(x)
            if r == 'scalar':
                return ugs.DC.kr(x)
            return x
        if want == 'scalar':
            return 1.0 if not isinstance(x, (int, float)) else x
        if want == 'demand':
            return x
        return x

    def arg(self, a, unit_rate):
        need = a.get('need')
        if 'k' in a:
            return self.coerce(a['k'], need, unit_rate) if need in ('audio', 'same') else a['k']
        if 'bad' in a:
            return {'nan': float('nan'), 'str': 'abc', 'none': None, 'obj': object(),
                    'inf': float('inf'), 'big': 1e40}[a['bad']]
        if 'env' in a:
            return [Env.adsr(), Env.perc(), Env.asr(), Env([0, 1, 0], [0.1, 0.2])][a['env'] % 4]
        if 'l' in a:
            return [self.arg(i, unit_rate) for i in a['l']]
        if 't' in a:
            return tuple(self.arg(i, unit_rate) for i in a['t'])
        if 'v' in a or 'p' in a:
            if 'v' in a:
                pool = self.vals
                j = a['v']
            else:
                pool = self.params
                j = a['p']
            if not pool:
                return self.coerce(0.5, need, unit_rate)
            x = pool[j % len(pool)]
            if x is None:
                x = 0.5
            if a.get('pick') is not None:
                fl = flat(x)
                x = fl[a['pick'] % len(fl)] if fl else 0.5
            elif a.get('single'):
                fl = flat(x)
                x = fl[0] if fl else 0.5
            return self.coerce(x, need, unit_rate)
        raise ValueError('bad arg %r' % (a,))

    def run(self, params):
        self.params = list(params)
        for p, x in zip(self.prog['params'], self.params):
            self.record_param(p, x)
        self.vals = []
        for ins in self.prog['body']:
            self.vals.append(self.step(ins))
        if self.prog.get('returns'):
            sig = [x for v in self.vals for x in flat(v) if isinstance(x, ugn.UGen)]
            return sig[-1] if sig else 0.5
        return None

    def step(self, ins):
        if 'wrap' in ins:
            # SynthDef.wrap(inner function with its own parameters): a further group of controls
            w = dict(ins['wrap'])
            w['returns'] = True
            sub = Interp(w, self.rec)
            func = make_func(w, sub)
            rates = [p.get('lag') for p in w['params']]
            return SynthDef.wrap(func, rates=rates if any(r is not None for r in rates) else None)
        if 'ctl' in ins:
            # a control registered by hand: <Class>.add_name(name); <Class>.<meth>(values[, lags])
            k = ins['ctl']
            cls = getattr(iou, k['cls'])
            first = len(_main.main._current_synthdef._controls)
            cls.add_name(k['name'])
            args = [list(k['values'])] + ([list(k['lags'])] if k.get('lags') is not None else [])
            v = getattr(cls, k['meth'])(*args)
            self.rec[k['name']] = [first, RATE[METH_RATE[k['meth']]], [f32word(x) for x in k['values']]]
            return v
        if 'dyncls' in ins:
            # a unit class with a generated name (unit name = type(self).__name__), registered so that
            # the library's own reader finds it
            base = ugs.installed_ugens[ins['basecls']]
            cls = type(ins['dyncls'], (base,), {})
            ugs.installed_ugens[ins['dyncls']] = cls
            ur = METH_RATE[ins['meth']]
            return getattr(cls, ins['meth'])(*[self.arg(a, ur) for a in ins['args']])
        if 'cls' in ins:
            cls = ugs.installed_ugens[ins['cls']]
            meth = ins['meth']
            ur = METH_RATE[meth]
            args = [self.arg(a, ur) for a in ins['args']]
            return getattr(cls, meth)(*args)
        op = ins['op']
        if op in ('unidx', 'binidx'):
            # an operator chosen by its position in the library's own operator table (whatever its length)
            from sc3.synth import _specialindex as _si
            tab = _si._unops_list if op == 'unidx' else _si._binops_list
            name = tab[ins['idx'] % len(tab)][0]

            def sig(x):
                fl = flat(x)
                x = fl[0] if fl else 0.5
                return x if isinstance(x, ugn.UGen) else ugs.DC.kr(x if isinstance(x, (int, float)) else 0.5)
            a = sig(self.arg(ins['a'], None))
            if op == 'unidx':
                return ugn.UnaryOpUGen.new(name, a)
            return ugn.BinaryOpUGen.new(name, a, sig(self.arg(ins['b'], None)))
        if op == 'bin':
            a = self.arg(ins['a'], None)
            b = self.arg(ins['b'], None)
            if isinstance(a, list) and not isinstance(a, ugn.ChannelList):
                a = ugn.ChannelList(a)
            if isinstance(b, list) and not isinstance(b, ugn.ChannelList):
                b = ugn.ChannelList(b)
            if not isinstance(a, (ugn.UGen, ugn.ChannelList)) and not isinstance(b, (ugn.UGen, ugn.ChannelList)):
                a = ugs.DC.kr(a) if isinstance(a, (int, float)) and not (isinstance(a, float) and math.isnan(a)) else a
            sel = ins['sel']
            if sel in ('min', 'max'):
                f = getattr(a, sel, None)
                if f is None:
                    return getattr(b, sel)(a)
                return f(b)
            return {'+': operator.add, '-': operator.sub, '*': operator.mul, '/': operator.truediv,
                    '<': operator.lt, '>': operator.gt, '%': operator.mod, '**': operator.pow}[sel](a, b)
        if op == 'un':
            a = self.arg(ins['a'], None)
            if isinstance(a, list) and not isinstance(a, ugn.ChannelList):
                a = ugn.ChannelList(a)
            if not isinstance(a, (ugn.UGen, ugn.ChannelList)):
                a = ugs.DC.kr(a)
            sel = ins['sel']
            if sel == 'neg':
                return -a
            if sel == 'abs':
                return abs(a)
            return getattr(a, sel)()
        if op == 'madd':
            a = self.arg(ins['a'], None)
            if isinstance(a, list) and not isinstance(a, ugn.ChannelList):
                a = ugn.ChannelList(a)
            if not isinstance(a, (ugn.UGen, ugn.ChannelList)):
                a = ugs.DC.kr(a)
            return a.madd(self.arg(ins['mul'], None), self.arg(ins['add'], None))
        if op == 'sum':
            a = flat(self.arg(ins['a'], None))
            if not any(isinstance(i, ugn.UGen) for i in a):
                a = a + [ugs.DC.kr(0.5)]
            s = a[0]
            for i in a[1:]:
                s = s + i
            return s
        raise ValueError('bad instr %r' % (ins,))


def make_func(prog, interp):
    """A real Python function whose signature carries the generated parameters."""
    parts = []
    ns = {'_run': interp.run}
    for i, p in enumerate(prog['params']):
        s = p['name']
        if p.get('annot'):
            s += ': %r' % p['annot']
        d = p.get('default')
        ns['_d%d' % i] = tuple(d) if isinstance(d, list) else d
        s += ' = _d%d' % i
        parts.append(s)
    src = 'def graph(%s):\n    return _run([%s])\n' % (', '.join(parts), ', '.join(p['name'] for p in prog['params']))
    exec(src, ns)
    return ns['graph']


def exc_chain(e):
    out = []
    while e is not None and len(out) < 4:
        out.append(type(e).__name__ + ': ' + str(e)[:120])
        e = e.__cause__
    return out


def canon_start(b):
    if isinstance(b, str):
        return ['q'] if b == '?' else ['n', b]
    if isinstance(b, (int, float)):
        return ['c', f32word(b)]
    if isinstance(b, ugn.OutputProxy):
        return ['u', b.source_ugen._synth_index, b._output_index]
    if isinstance(b, ugn.SynthObject):
        return ['u', b._synth_index, b._output_index]
    return ['other', repr(b)]


def canon_desc(d):
    ctls = []
    for c in d.controls:
        dv = c.default_value if isinstance(c.default_value, list) else [c.default_value]
        ctls.append([None if c.name == '?' else c.name, RATE.get(c.rate, -1), [f32word(x) for x in dv]])
    def io(x):
        return [RATE.get(x.rate, -1), x.channels, canon_start(x.starting_channel), x.type.__name__]
    return {'name': d.name, 'cnames': list(d.control_names), 'ctls': ctls, 'gate': bool(d.has_gate),
            'hasvar': bool(d.has_variants), 'ins': [io(x) for x in d.inputs], 'outs': [io(x) for x in d.outputs]}


LAST_REC = {}


def build_one(prog, name=None, variants='keep'):
    interp = Interp(prog)
    LAST_REC.clear()
    interp.rec = LAST_REC
    func = make_func(prog, interp)
    rates = [p.get('lag') for p in prog['params']]
    if not any(r is not None for r in rates):
        rates = None
    kw = {}
    v = prog.get('variants') if variants == 'keep' else None
    if v:
        kw['variants'] = {k: dict(pairs) for k, pairs in v}
    return SynthDef(prog['name'] if name is None else name, func, rates=rates, **kw)


def take_bytes(sd):
    """bytes of as_bytes(), then drop the memoryview the library keeps in sd._bytes: it is an exported
    buffer of a BytesIO inside a reference cycle; when the cycle collector frees the BytesIO first,
    CPython reports 'deallocated BytesIO object has exported buffers' and the process may crash."""
    mv = sd.as_bytes()
    b = bytes(mv)
    sd._bytes = None
    try:
        mv.release()
    except Exception:
        pass
    return b


def truth_units(sd):
    """The emitted units as the live objects describe themselves (not through any writer)."""
    out = []
    for u in sd._children:
        ins = []
        for i in u.inputs:
            if isinstance(i, bool) or isinstance(i, (int, float)):
                try:
                    ins.append([-1, sd._constants[float(i)]])
                except KeyError:
                    ins.append([-1, -7])
            elif isinstance(i, ugn.SynthObject):
                ins.append([i._synth_index, i._output_index])
            else:
                ins.append([-9, -9])          # a sequence or something else that is not a wire
        rate = RATE.get(u.rate, 0)
        if isinstance(u, ugn.MultiOutUGen):
            outs = [RATE.get(ch.rate, 0) for ch in u._channels]
        elif isinstance(u, iou.AbstractOut):
            outs = []
        else:
            outs = [rate] * u._num_outputs()
        out.append([type(u).__name__, rate, ins, outs, u._special_index, getattr(u, 'operator', None)])
    return out


def recon_units(sdef):
    """The units the library's reader rebuilt from the bytes, field by field."""
    out = []
    for u in sdef._children:
        nch = len(u._channels) if isinstance(u, ugn.MultiOutUGen) else None
        ins = []
        for i in u.inputs:
            if isinstance(i, (int, float)):
                ins.append(['c', f32word(i)])
            elif isinstance(i, ugn.OutputProxy):
                ins.append(['u', i.source_ugen._synth_index, i._output_index])
            else:
                ins.append(['u', i._synth_index, 0])
        out.append([type(u).__name__, u.rate, u._special_index, ins, nch, getattr(u, 'operator', None)])
    return out


def truth_consts(sd):
    ks = [None] * len(sd._constants)
    for v, i in sd._constants.items():
        ks[i] = f32word(v)
    return ks


def cache_probe(prog, sd, b):
    """as_bytes() caching and aliasing: the cached value, the value after add(), the bytes of a second
    SynthDef built from the same program, and a lazily serialised older SynthDef after another build."""
    bad = []
    try:
        m1 = sd.as_bytes()
        m2 = sd.as_bytes()                      # served from self._bytes
        if bytes(m1) != b or bytes(m2) != b:
            bad.append('cached as_bytes() differs from the first result')
        other = build_one(prog)                 # same program again, before sd is looked at again
        if bytes(sd.as_bytes()) != b:
            bad.append('as_bytes() changed after another SynthDef was built')
        ob = take_bytes(other)
        if ob != b:
            bad.append('a second SynthDef built from the same program gives different bytes')
        try:
            sd.add()                             # description library + no booted server
            if bytes(sd.as_bytes()) != b:
                bad.append('as_bytes() changed after add()')
            lib = SynthDescLib.get_lib('default')
            d = lib.synth_descs.get(sd.name)
            if d is None or d.name != sd.name:
                bad.append('add() did not register a description under the definition name')
            else:
                lib.synth_descs.pop(sd.name, None)
        except Exception as e:
            bad.append('add() raised ' + exc_chain(e)[0])
        sd._bytes = None
        try:
            m1.release(); m2.release()
        except Exception:
            pass
    except Exception as e:
        bad.append('cache probe raised ' + exc_chain(e)[0])
    return bad


def retry_after_failure(sd):
    """as_bytes() raised: the same call repeated (and add(), which serialises too) must raise again --
    or give a complete definition -- never hand out what the failed attempt left behind."""
    out = []
    for what in ('as_bytes', 'as_bytes', 'add', 'as_bytes'):
        try:
            if what == 'add':
                sd.add()
                SynthDescLib.get_lib('default').synth_descs.pop(sd.name, None)
                out.append(['add', 'returned', None])
            else:
                r = sd.as_bytes()
                out.append(['as_bytes', 'returned', bytes(r).hex()])
        except Exception as e:
            out.append([what, 'raised', type(e).__name__])
        if _main.main._current_synthdef is not None:
            _main.main._current_synthdef = None
            out.append([what, 'leak', 'main._current_synthdef'])
    return out


# units with ordering side effects, by NAME (the property's own list: local buffer set-up, FFT chains,
# random seeding) -- not by asking the library whether it treats them as width-first
def orders_side_effects(u):
    n = type(u).__name__
    return isinstance(u, ugn.WidthFirstUGen) or n in ('LocalBuf', 'SetBuf', 'ClearBuf', 'FFT', 'IFFT', 'FFTTrigger',
                                                      'RandSeed', 'RandID') or n.startswith('PV_')


def new_result():
    return {'status': 'ok', 'exc': [], 'bytes': None, 'order': [], 'names3': [], 'desc': None,
            'desc_exc': None, 'base': None, 'nunits': 0}


def run_case(prog):
    res = new_result()
    try:
        sd = build_one(prog)
    except Exception as e:
        res['status'] = 'build_exc'
        res['exc'] = exc_chain(e)
        sd = None
    describe_sd(res, sd, prog)
    if prog.get('base'):
        # the same graph under the neutral name 'n' and without variants: the structure the
        # model's writer is applied to when the real name / the variants make the writer raise
        try:
            sdb = build_one(prog, name='n', variants='drop')
            res['base'] = take_bytes(sdb).hex()
            res['names3'] = [[cn.name, cn.index, len(utl.as_list(cn.default_value))]
                             for cn in sdb._all_control_names if cn.rate != 'noncontrol']
        except Exception as e:
            res['base_exc'] = exc_chain(e)
    return res


def describe_sd(res, sd, prog=None, probe_cache=True):
    """Everything the check looks at for one built SynthDef (bytes, creation order, declared parameters,
    live units, the library reader's description / rebuilt units / definition name, leaks)."""
    if sd is not None:
        try:
            b = take_bytes(sd)
            res['bytes'] = b.hex()
        except Exception as e:
            res['status'] = 'bytes_exc'
            res['exc'] = exc_chain(e)
            res['retry'] = retry_after_failure(sd)
        res['nunits'] = len(sd._children)
        res['order'] = [[getattr(u, '_c02_birth', -1), orders_side_effects(u)] for u in sd._children]
        res['names3'] = [[cn.name, cn.index, len(utl.as_list(cn.default_value))]
                         for cn in sd._all_control_names if cn.rate != 'noncontrol']
        CN_RATE = {'scalar': 0, 'trigger': 1, 'control': 1, 'audio': 2}
        # declared parameters: name-table order from the library, slot / rate / defaults from what the graph
        # functions really received (rec); the library's own cn.index only where nothing was recorded
        rec = dict(LAST_REC)
        res['decl'] = [[cn.name] + (rec[cn.name] if cn.name in rec else
                                    [cn.index, CN_RATE.get(cn.rate, -1), [f32word(x) for x in utl.as_list(cn.default_value)]])
                       for cn in sd._all_control_names if cn.rate != 'noncontrol']
        res['decl_from_graph'] = sum(1 for cn in sd._all_control_names if cn.name in rec)
        res['truth'] = truth_units(sd)
        res['truthk'] = truth_consts(sd)
        if res['bytes'] is not None:
            if probe_cache and prog is not None:
                res['cache'] = cache_probe(prog, sd, b)
            try:
                res['desc'] = canon_desc(SynthDesc.new_from(sd))
            except Exception as e:
                res['desc_exc'] = ' <- '.join(exc_chain(e))
            try:
                import io as _io
                rd = SynthDesc._read_stream(_io.BytesIO(b), keep_defs=True)[0]
                res['recon'] = recon_units(rd.sdef)
            except Exception as e:
                res['recon'] = None
                res['recon_exc'] = ' <- '.join(exc_chain(e))
            try:
                res['defname'] = SynthDesc.def_name_from_bytes(bytearray(b))
            except Exception as e:
                res['defname'] = None
                res['defname_exc'] = ' <- '.join(exc_chain(e))
            if _main.main._current_synthdef is not None:
                res['leak'] = 'main._current_synthdef is still set after SynthDesc.new_from'
                _main.main._current_synthdef = None
            try:
                if take_bytes(sd) != b:
                    res['desc_exc'] = 'as_bytes() is not stable'
            except Exception as e:
                res['desc_exc'] = 'second as_bytes() raised'
    if _main.main._current_synthdef is not None:
        res['leak'] = 'main._current_synthdef is still set after the build / as_bytes'
        _main.main._current_synthdef = None
    if not _main.main._def_build_lock.acquire(blocking=False):
        res['leak'] = 'main._def_build_lock is still held'
    else:
        _main.main._def_build_lock.release()
    return res


def main():
    cases = json.load(open(sys.argv[1]))['cases']
    out = []
    for prog in cases:
        try:
            out.append(run_case(prog))
        except Exception as e:   # never let one case kill the run
            out.append({'status': 'harness_exc', 'exc': [traceback.format_exc()[-800:]], 'bytes': None,
                        'order': [], 'names3': [], 'desc': None, 'desc_exc': None, 'base': None, 'nunits': 0})
    json.dump({'out': out}, open(sys.argv[2], 'w'))


if __name__ == '__main__':
    main()
