"""C16: drive the allocators through Server option partitions and the Bus / Buffer / Node users (NRT, no server process).

payload: {'cases': [{'opts': {...ServerOptions fields...}, 'client': k, 'ops': [...]}]}
object-level ops (r = tie-break number):
  ['A', n, r] / ['C', n, r]        AudioBus(n, s) / ControlBus(n, s)
  ['Ai', n, k] / ['Ci', n, k]      AudioBus(n, s, index=k) / ControlBus(...)      explicit index (0 included)
  ['B', n, r]                      Buffer(8, 1, s) (n == 1) or Buffer.new_consecutive(n, 8, 1, s)
  ['Bi', n, k]                     the same with bufnum=k                          explicit number (0 included)
  ['Bx']                           Buffer(None, 1, s): raises ValueError           error path of the constructor
  ['F', j]                         free the j-th object created so far (again = double free at object level)
  ['FA']                           Buffer.free_all(s)
  ['N', n]                         n ids from s._next_node_id(), then Node/Group/Synth.basic_new with node_id=0 and =None
  ['R', k]                         s._set_client_id(k): the allocators are re-created while objects are live
  ['D', n, r]                      make the SECOND server the default, AudioBus(n) / ControlBus(n) / Buffer(8, 1) without
                                   a server argument, restore the default
Every call the objects make on an allocator is recorded by a spy on that allocator instance, together with the allocator's
state after it; the driver checks the OBJECT-level expectations itself ('ledger'):
  exactly the expected allocator calls, index/bufnum/node id equal to the explicit value or to what the allocator returned
  (type int), nothing allocated by explicit-index constructors, double free does not reach the allocator, used blocks of
  every allocator == the ranges handed to objects and not freed, the other server's allocators untouched.
Output per case: {'segments': [{'which', 'server', 'params': [size, reserved, off], 'client', 'log': [[op, entry]...]}],
                  'ledger': [messages], 'observations': [...], 'node': [...], 'errors': [...]}"""
import json, os, sys, logging
import sc3
sc3.init(os.environ.get('SC3_MODE', 'nrt'))
logging.disable(logging.CRITICAL)
import sc3.synth._engine as eng
import sc3.base.builtins as real_bi
from sc3.base.netaddr import NetAddr
from sc3.synth.server import Server
from sc3.synth.bus import AudioBus, ControlBus, BusException
from sc3.synth.buffer import Buffer
from sc3.synth.node import Node, Group, Synth


import types
import sc3.synth._serverstatus as sst


class CapFunc:
    '''stands in for responders.OscFunc inside _send_notify_request: keeps the responder function so that the driver can
    deliver the server's reply message to it'''
    captured = {}

    def __init__(self, func, path, *a, **kw):
        self.func = func
        CapFunc.captured[path] = self

    def one_shot(self):
        pass

    def free(self):
        pass

    def enable(self):
        pass

    def disable(self):
        pass


def deliver_notify_reply(s, state, kind, reply):
    '''_send_notify_request(True) as the watcher does while booting / registering, then the server's OSC reply
    ['/done' | '/fail', '/notify', *reply] is handed to the responder function the library registered for it.'''
    sw = s._status_watcher
    sw._server_booting = state == 'booting'
    sw._server_registering = state == 'registering'
    sw._server_unregistering = state == 'unregistering'
    real_rpd = sst.rpd
    sst.rpd = types.SimpleNamespace(OscFunc=CapFunc)
    saved = (sw._finalize_boot_done, sw._finalize_register_done)
    sw._finalize_boot_done = lambda: None          # ServerBoot / sync / tree: not the property's business
    sw._finalize_register_done = lambda: None
    try:
        CapFunc.captured = {}
        sw._send_notify_request(True)
        path = '/done' if kind == 'done' else '/fail'
        CapFunc.captured[path].func([path, '/notify'] + list(reply), 0.0, s.addr, 57120)
    finally:
        sst.rpd = real_rpd
        del sw._finalize_boot_done, sw._finalize_register_done
        sw._server_booting = sw._server_registering = sw._server_unregistering = False
        sw._clear_actions()


class Chooser:
    r = 0
    last = None

    def __call__(self, lst):
        lst = sorted(lst, key=lambda b: (b.start, b.size))
        x = lst[self.r % len(lst)]
        self.last = x.start
        return x


class BiProxy:
    def __init__(self, chooser):
        self.choice = chooser

    def __getattr__(self, name):
        return getattr(real_bi, name)


CH = Chooser()
eng.bi = BiProxy(CH)
OPT_FIELDS = ('audio_buses', 'control_buses', 'buffers', 'input_channels', 'output_channels', 'reserved_audio_buses',
              'reserved_control_buses', 'reserved_buffers', 'max_logins', 'initial_node_id')
KINDS = ('audio', 'control', 'buffer')
ATTR = {'audio': '_audio_bus_allocator', 'control': '_control_bus_allocator', 'buffer': '_buffer_allocator'}


def observe(a):
    cells = [[i, b.start, b.size, bool(b.used)] for i, b in enumerate(a._array) if b is not None]
    freed = [[int(k), sorted(b.start for b in s)] for k, s in a._freed.items()]
    alias = all(0 <= b.start - a.addr_offset < len(a._array) and a._array[b.start - a.addr_offset] is b
                and not b.used and b.size == k for k, s in a._freed.items() for b in s)
    return a.top, cells, freed, alias


class Run:
    def __init__(self, servers):
        self.servers = servers
        self.segments = []
        self.calls = []          # allocator calls of the current object-level op: (server idx, which, 'a'|'f', arg, result)
        self.live = {}           # (server idx, which) -> {start: size} handed out and not freed (reset by 'R')
        self.ledger = []
        self.observations = []

    def attach(self, si):
        s = self.servers[si]
        if si == 0:
            self.built_init = s.options.initial_node_id     # what the node allocator was built with
        for which in KINDS:
            a = getattr(s, ATTR[which])
            seg = {'which': which, 'server': si, 'params': [a.size, a.pos - a.addr_offset, a.addr_offset],
                   'client': s.client_id, 'opts': {f: getattr(s.options, f) for f in OPT_FIELDS}, 'log': []}
            self.segments.append(seg)
            self.live[(si, which)] = {}
            self.spy(a, si, which, seg)

    def spy(self, a, si, which, seg):
        orig_alloc, orig_free = a.alloc, a.free
        run = self

        def alloc(n=1):
            CH.last = None
            r = orig_alloc(n)
            top, cells, freed, alias = observe(a)
            seg['log'].append([['a', n, CH.last], [0 if r is None else 1, r or 0, top, cells, freed, CH.last, alias]])
            run.calls.append((si, which, 'a', n, r))
            if r is not None and n >= 1:
                run.live[(si, which)][r] = n
            return r

        def free(addr):
            r = orig_free(addr)
            if addr is not None:
                top, cells, freed, alias = observe(a)
                seg['log'].append([['f', addr], [0, 0, top, cells, freed, None, alias]])
                run.live[(si, which)].pop(addr, None)
            run.calls.append((si, which, 'f', addr, None))
            return r

        a.alloc, a.free = alloc, free

    def expect(self, what, cond, detail):
        if not cond:
            self.ledger.append('%s: %s' % (what, detail))

    def check_blocks(self, what):
        for (si, which), live in self.live.items():
            a = getattr(self.servers[si], ATTR[which])
            used = sorted((b.start, b.size) for b in a.blocks())
            self.expect(what, used == sorted(live.items()),
                        'used blocks of the %s allocator of server %d are %s but the ranges handed out and not freed are %s' % (
                            which, si, used, sorted(live.items())))


def ctrl_obs(s, op, rebuilt):
    return {'op': op, 'client': s.client_id, 'sw': s._status_watcher._max_logins, 'rebuilt': rebuilt,
            'params': {w: [getattr(s, ATTR[w]).size, getattr(s, ATTR[w]).pos - getattr(s, ATTR[w]).addr_offset,
                           getattr(s, ATTR[w]).addr_offset] for w in KINDS}}


def is_int(x):
    return type(x) is int


def run_case(servers, c):
    for s in servers:
        for k, v in c['opts'].items():
            setattr(s.options, k, v)
        s._status_watcher._max_logins = None
    servers[0]._set_client_id(c['client'])
    servers[1]._set_client_id(0)
    Server.default = servers[0]
    s = servers[0]
    run = Run(servers)
    run.attach(0)
    run.attach(1)
    res = {'client_id': s.client_id, 'first_private_bus': s.options.first_private_bus(), 'errors': [], 'node': [], 'ctrl': [ctrl_obs(s, None, True)]}
    objs = []            # (kind, obj, server idx, allocated start or None, explicit)
    cls = {'A': (AudioBus, 'audio'), 'C': (ControlBus, 'control')}
    for op in c['ops']:
        kind = op[0]
        run.calls = []
        what = '%s' % (op,)
        try:
            if kind in ('A', 'C'):
                K, which = cls[kind]
                CH.r = op[2]
                obj = None
                try:
                    obj = K(op[1], s)
                except BusException:
                    pass
                run.expect(what, [x[:4] for x in run.calls] == [(0, which, 'a', op[1])], 'allocator calls %s' % (run.calls,))
                r = run.calls[0][4] if run.calls else None
                if obj is None:
                    run.expect(what, r is None, 'BusException although the allocator returned %r' % (r,))
                else:
                    run.expect(what, is_int(obj.index) and obj.index == r, 'index %r, allocator returned %r' % (obj.index, r))
                objs.append((which, obj, 0))
            elif kind in ('Ai', 'Ci'):
                K, which = cls[kind[0]]
                obj = K(op[1], s, index=op[2])
                run.expect(what, run.calls == [], 'explicit index reached the allocator: %s' % (run.calls,))
                run.expect(what, is_int(obj.index) and obj.index == op[2], 'index is %r, not the explicit %r' % (obj.index, op[2]))
                objs.append((which, obj, 0))
            elif kind in ('B', 'Bi'):
                n = op[1]
                explicit = kind == 'Bi'
                CH.r = 0 if explicit else op[2]
                bufs = None
                try:
                    if n == 1:
                        bufs = [Buffer(8, 1, s, bufnum=op[2])] if explicit else [Buffer(8, 1, s)]
                    else:
                        bufs = Buffer.new_consecutive(n, 8, 1, s, bufnum=op[2]) if explicit else Buffer.new_consecutive(n, 8, 1, s)
                except Exception as e:
                    if not ('buffer numbers' in str(e) or 'No block' in str(e)):
                        raise
                if explicit:
                    run.expect(what, run.calls == [], 'explicit bufnum reached the allocator: %s' % (run.calls,))
                    base = op[2]
                else:
                    run.expect(what, [x[:4] for x in run.calls] == [(0, 'buffer', 'a', n)], 'allocator calls %s' % (run.calls,))
                    base = run.calls[0][4] if run.calls else None
                    if bufs is None:
                        run.expect(what, base is None, 'exception although the allocator returned %r' % (base,))
                if bufs is not None:
                    nums = [b.bufnum for b in bufs]
                    run.expect(what, base is not None and all(is_int(x) for x in nums) and nums == list(range(base, base + n)),
                               'buffer numbers %r, expected %r..' % (nums, base))
                objs.append(('buffer', bufs[0] if bufs else None, 0))
            elif kind == 'Bx':
                before = sorted(run.live[(0, 'buffer')].items())
                try:
                    Buffer(None, 1, s)
                    run.expect(what, False, 'no exception')
                except ValueError:
                    pass
                except Exception as e:
                    if not ('buffer numbers' in str(e) or 'No block' in str(e)):
                        raise
                if sorted(run.live[(0, 'buffer')].items()) != before:
                    run.observations.append('Buffer(None, 1, s) raised ValueError AFTER taking a buffer number: %s leaked' % (
                        [x for x in sorted(run.live[(0, 'buffer')].items()) if x not in before],))
            elif kind == 'F':
                if not objs:
                    continue
                which, obj, si = objs[op[1] % len(objs)]
                if obj is None:
                    continue
                addr = obj.bufnum if which == 'buffer' else obj.index
                obj.free()
                if addr is None:
                    run.expect(what, run.calls == [], 'double free reached the allocator: %s' % (run.calls,))
                else:
                    run.expect(what, [x[:4] for x in run.calls] == [(si, which, 'f', addr)], 'allocator calls %s, expected free(%r)' % (run.calls, addr))
                    now = obj.bufnum if which == 'buffer' else obj.index
                    run.expect(what, now is None, 'object still has index %r after free' % (now,))
            elif kind == 'FA':
                Buffer.free_all(s)
                run.expect(what, s._buffer_allocator.blocks() == [], 'used blocks remain: %s' % (s._buffer_allocator.blocks(),))
                run.expect(what, all(x[2] == 'f' and x[:2] == (0, 'buffer') for x in run.calls), 'calls %s' % (run.calls,))
            elif kind == 'N':
                temp0 = s._node_allocator._temp
                ids = [s._next_node_id() for _ in range(op[1])]
                n0 = Node.basic_new(s, 0)
                g0 = Group.basic_new(s, 0)
                y0 = Synth.basic_new('default', s, 0)
                g1 = Group.basic_new(s)
                for o0 in (n0, g0, y0):
                    run.expect(what, is_int(o0.node_id) and o0.node_id == 0, 'explicit node id 0 became %r' % (o0.node_id,))
                res['node'].append({'built_init': run.built_init, 'temp0': temp0, 'client': s.client_id, 'user': s._node_allocator.user, 'init': s._node_allocator._init_temp, 'ids': ids + [g1.node_id],
                                    'mask': s._node_allocator._mask, 'temp': s._node_allocator._temp,
                                    'id_offset': s._node_allocator.id_offset()})
                run.expect(what, run.calls == [], 'node ids reached a bus/buffer allocator: %s' % (run.calls,))
            elif kind in ('R', 'O', 'L', 'M'):
                before = [getattr(s, ATTR[w]) for w in KINDS] + [s._node_allocator]
                if kind == 'R':
                    s._set_client_id(op[1])
                elif kind == 'O':
                    for f, v in op[1].items():
                        setattr(s.options, f, v)    # the user changes options; nothing is rebuilt until _set_client_id
                elif kind == 'L':                   # the server's reply to /notify: granted id, reported login count
                    s._status_watcher._handle_login_done(op[1], op[2])
                else:                               # ['M', state, 'done'|'fail', reply]: the real 'done'/'fail' responder gets the message
                    deliver_notify_reply(s, op[1], op[2], op[3])
                after = [getattr(s, ATTR[w]) for w in KINDS] + [s._node_allocator]
                rebuilt = [x is not y for x, y in zip(before, after)]
                run.expect(what, all(rebuilt) or not any(rebuilt), 'only some allocators were re-created: %s' % (rebuilt,))
                if all(rebuilt):
                    run.attach(0)        # new allocators: new segments; the objects created so far are stale
                res['ctrl'].append(ctrl_obs(s, op, all(rebuilt)))
                res['client_id'] = s.client_id
            elif kind == 'D':
                Server.default = servers[1]
                try:
                    CH.r = op[2]
                    made = []
                    for K, which in ((AudioBus, 'audio'), (ControlBus, 'control')):
                        try:
                            made.append((which, K(op[1])))
                        except BusException:
                            made.append((which, None))
                    try:
                        made.append(('buffer', Buffer(8, 1)))
                    except Exception as e:
                        if not ('buffer numbers' in str(e) or 'No block' in str(e)):
                            raise
                        made.append(('buffer', None))
                finally:
                    Server.default = servers[0]
                run.expect(what, [x[:3] for x in run.calls] == [(1, 'audio', 'a'), (1, 'control', 'a'), (1, 'buffer', 'a')],
                           'objects created without a server argument while another server is the default called %s' % (run.calls,))
                for (which, obj), call in zip(made, run.calls):
                    if obj is not None:
                        run.expect(what, obj._server is servers[1], '%s object bound to server %s' % (which, obj._server.name))
                        objs.append((which, obj, 1))
            run.check_blocks(what)
        except Exception as e:
            res['errors'].append('%s: %s: %s' % (op, type(e).__name__, e))
            break
    res['segments'] = run.segments
    res['ledger'] = run.ledger
    res['observations'] = run.observations
    return res


def main():
    p = json.load(open(sys.argv[1]))
    s1 = Server.default
    s2 = Server('c16second', NetAddr('127.0.0.1', 57190))
    out = []
    for c in p['cases']:
        try:
            out.append(run_case([s1, s2], c))
        except Exception as e:
            import traceback
            out.append({'fatal': '%s: %s\n%s' % (type(e).__name__, e, traceback.format_exc()[-800:])})
    json.dump({'cases': out}, open(sys.argv[2], 'w'))


main()
