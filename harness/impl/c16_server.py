"""C16: drive the allocators through Server option partitions and the Bus / Buffer users (NRT, no server process).

payload: {'cases': [{'opts': {...ServerOptions fields...}, 'client': k,
                     'ops': [['A', n, r] | ['C', n, r] | ['B', n, r] | ['F', j] ]}]}
 A/C/B = AudioBus(n) / ControlBus(n) / Buffer.new_consecutive(n) (Buffer(...) when n == 1); F j = free the j-th object
 created so far (again = double free at object level).
Output per case: {'params': {'audio': [size, pos_reserved, off], 'control': ..., 'buffer': ...},
                  'logs': {'audio': [[op, entry]...], ...}, 'errors': [...]}
where each log item is (['a', n, c] | ['f', addr], entry) with entry as in c16_alloc.py."""
import json, os, sys, logging
import sc3
sc3.init(os.environ.get('SC3_MODE', 'nrt'))
logging.disable(logging.CRITICAL)
import sc3.synth._engine as eng
import sc3.base.builtins as real_bi
from sc3.synth.server import Server
from sc3.synth.bus import AudioBus, ControlBus, BusException
from sc3.synth.buffer import Buffer


class Chooser:
    r = 0
    last = None

    def __call__(self, lst):
        lst = sorted(lst, key=lambda b: (b.start, b.size))
        x = lst[self.r % len(lst)]
        self.last = x.start
        return x


class BiProxy:
    def __init__(self, chooser):
        self.choice = chooser

    def __getattr__(self, name):
        return getattr(real_bi, name)


CH = Chooser()
eng.bi = BiProxy(CH)


def observe(a):
    cells = [[i, b.start, b.size, bool(b.used)] for i, b in enumerate(a._array) if b is not None]
    freed = [[int(k), sorted(b.start for b in s)] for k, s in a._freed.items()]
    alias = all(0 <= b.start - a.addr_offset < len(a._array) and a._array[b.start - a.addr_offset] is b
                and not b.used and b.size == k for k, s in a._freed.items() for b in s)
    return a.top, cells, freed, alias


def run_case(s, c):
    o = s.options
    for k, v in c['opts'].items():
        setattr(o, k, v)
    s._status_watcher._max_logins = None
    s._set_client_id(c['client'])
    al = {'audio': s._audio_bus_allocator, 'control': s._control_bus_allocator, 'buffer': s._buffer_allocator}
    res = {'params': {k: [a.size, a.pos - a.addr_offset, a.addr_offset] for k, a in al.items()},
           'client_id': s.client_id, 'first_private_bus': o.first_private_bus(),
           'logs': {'audio': [], 'control': [], 'buffer': []}, 'errors': [],
           'node': [s._node_allocator.user, s._next_node_id(), s._next_node_id()]}
    objs = []
    for op in c['ops']:
        kind = op[0]
        try:
            if kind in 'ACB':
                which = {'A': 'audio', 'C': 'control', 'B': 'buffer'}[kind]
                CH.r, CH.last = op[2], None
                n = op[1]
                obj, idx = None, None
                try:
                    if kind == 'A':
                        obj = AudioBus(n, s); idx = obj.index
                    elif kind == 'C':
                        obj = ControlBus(n, s); idx = obj.index
                    elif n == 1:
                        obj = Buffer(8, 1, s); idx = obj.bufnum
                    else:
                        obj = Buffer.new_consecutive(n, 8, 1, s)[0]; idx = obj.bufnum
                except BusException:
                    idx = None
                except Exception as e:
                    if 'buffer numbers' in str(e) or 'No block' in str(e):
                        idx = None
                    else:
                        raise
                top, cells, freed, alias = observe(al[which])
                res['logs'][which].append([['a', n, CH.last], [0 if idx is None else 1, idx or 0, top, cells, freed, CH.last, alias]])
                objs.append((which, obj))
            else:
                if not objs:
                    continue
                which, obj = objs[op[1] % len(objs)]
                if obj is None:
                    continue
                addr = obj.bufnum if which == 'buffer' else obj.index
                if which == 'buffer' and addr is None:
                    continue            # double Buffer.free is C17's business (F15)
                obj.free()
                if addr is not None:
                    top, cells, freed, alias = observe(al[which])
                    res['logs'][which].append([['f', addr], [0, 0, top, cells, freed, None, alias]])
        except Exception as e:
            res['errors'].append('%s: %s: %s' % (op, type(e).__name__, e))
            break
    return res


def main():
    p = json.load(open(sys.argv[1]))
    s = Server.default
    out = []
    for c in p['cases']:
        try:
            out.append(run_case(s, c))
        except Exception as e:
            out.append({'fatal': '%s: %s' % (type(e).__name__, e)})
    json.dump({'cases': out}, open(sys.argv[2], 'w'))


main()
