"""C01 implementation runner: compile every prog with the REAL SynthDef and describe the result.
in:  {"cases": [prog, ...]}     out: {"out": [description, ...], "catalogue_bad": [...]}"""
import json, os, sys
import sc3
sc3.init(os.environ.get('SC3_MODE', 'nrt'))
import logging
logging.disable(logging.CRITICAL)
import sc3.base.main as m
import c01_lib as L


def main():
    cases = json.load(open(sys.argv[1]))['cases']
    out = []
    for i, p in enumerate(cases):
        d, sd = L.build(p, 'c%d' % i)
        if m.main._current_synthdef is not None:
            d['ctx_left_set'] = True
            m.main._current_synthdef = None     # keep the cases independent (C20 looks at this)
        out.append(d)
    json.dump({'out': out, 'catalogue_bad': L.check_catalogue()}, open(sys.argv[2], 'w'))


main()
