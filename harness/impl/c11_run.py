"""C11: compile script programs into REAL generator functions / Routine / Condition / FlowVar
objects (sc3 in NRT mode), apply an operation history from outside, and print after every
operation the canonical observation that coq/model/Routine.v:enc_world defines.

case = {'defs': [{'kind': 'gen'|'fn', 'hasin': bool, 'script': [act, ...]}, ...],
        'cells': ['cond'|'flow', ...], 'ops': [['call', call] | ['tick'], ...]}
act  = ['yield', val] | ['return'] | ['raise'] | ['yreset', val] | ['always', val]
     | ['call', call, catch] | ['wait', c] | ['flowget', c] | ['log', val]
call = ['next', r, val] | ['stop'|'pause'|'resume'|'reset'|'play', r]
     | ['signal'|'unhang', c] | ['settest', c, bool] | ['flowset', c, val]
val  = ['none'] | ['int', n] | ['str', k] | ['hang'] | ['awake'] | ['unbound']
"""
import json, logging, os, sys
from fractions import Fraction

import sc3
sc3.init(os.environ.get('SC3_MODE', 'nrt'))
from sc3.base.main import main
from sc3.base import stream as stm
from sc3.base import clock as clk
from sc3.base.stream import (Routine, Condition, FlowVar, StopStream, PausedStream,
                             YieldAndReset, AlwaysYield, RoutineException)

logging.disable(logging.CRITICAL)


RECURSION = [False]


class UserError(Exception):
    pass


class UserBase(BaseException):      # a BaseException that is not an Exception
    pass


BASES = [UserBase, KeyboardInterrupt, SystemExit, GeneratorExit]


def exc_code(e):
    t = type(e)
    if t is PausedStream: return 2
    if t is StopStream: return 1
    if t is RoutineException: return 3
    if t is ValueError: return 4
    if t is RecursionError:
        RECURSION[0] = True
        return 8
    if t is RuntimeError: return 5
    if t is UserError: return 6
    if t is AttributeError: return 7
    if t is Exception: return 9
    if t in BASES: return 12
    return 99


class Env:
    def __init__(self, case):
        self.case = case
        self.routines = []
        self.cells = []
        self.logl = []
        self.weird = []          # anything the encoding cannot express
        self.struct = []
        self.chain_bad = []

    # ---- values
    def dec(self, v):
        k = v[0]
        if k == 'none': return None
        if k == 'int': return int(v[1])
        if k == 'str': return 'v%d' % v[1]
        if k == 'hang': return 'hang'
        if k == 'unbound': return FlowVar._UNBOUND
        if k == 'float': return float(v[1])
        if k == 'bool': return bool(v[1])
        if k == 'estr': return ''
        if k == 'elist': return []
        raise ValueError(v)

    def enc(self, x):
        if x is None: return [0]
        if type(x) is bool: return [6, int(x)]
        if type(x) is int: return [1, x]
        if type(x) is float:                      # type tags kept: 0.0 is not 0
            fr = Fraction(x)
            if fr.denominator == 1: return [7, int(fr)]
            self.weird.append('non-integral float'); return [98]
        if type(x) is str and x == '': return [8]
        if type(x) is list and x == []: return [9]
        if x == 'hang': return [3]
        if isinstance(x, str) and x[:1] == 'v' and x[1:].lstrip('-').isdigit(): return [2, int(x[1:])]
        if isinstance(x, tuple) and len(x) == 2 and isinstance(x[0], Routine) and x[1] is clk.SystemClock: return [4]
        if x is FlowVar._UNBOUND: return [5]
        self.weird.append('value %r' % (x,)); return [98]

    def enc_out(self, o):
        return [0] + self.enc(o[1]) if o[0] == 'ret' else [1, o[1]]

    def enc_call(self, c):
        k = c[0]
        if k == 'next': return [0, c[1]] + self.enc(self.dec(c[2]))
        if k in ('stop', 'pause', 'resume', 'reset', 'play'):
            return [{'stop': 1, 'pause': 2, 'resume': 3, 'reset': 4, 'play': 5}[k], c[1]]
        if k == 'signal': return [6, c[1]]
        if k == 'unhang': return [7, c[1]]
        if k == 'settest': return [8, c[1], self.test_code(c[2])]
        if k == 'flowset': return [9, c[1]] + self.enc(self.dec(c[2]))
        raise ValueError(c)

    # ---- what is assigned to cond.test: any object / callable; the model sees its truth value or "raises"
    TESTS = {'true': True, 'false': False, '0': 0, '1': 1, '0.0': 0.0, '[]': [], '[0]': [0], "''": '', "'x'": 'x', 'none': None}

    def test_obj(self, t):
        if isinstance(t, bool): return t
        if t == 'err':
            def raising(): raise UserError()
            return raising
        if t == 'errbase':
            def raising_base(): raise UserBase()
            return raising_base
        if t.startswith('fn_'):
            v = self.TESTS[t[3:]]
            return lambda: v
        return self.TESTS[t]

    def test_code(self, t):
        if isinstance(t, bool): return int(t)
        if t == 'err': return 2
        if t == 'errbase': return 3
        return 1 if self.TESTS[t[3:] if t.startswith('fn_') else t] else 0

    def cell_test_code(self, x):
        try:
            return 1 if x.test else 0
        except UserError:
            return 2
        except UserBase:
            return 3

    def cond_of(self, c):
        x = self.cells[c]
        return x.condition if isinstance(x, FlowVar) else x

    # ---- the operations, applied to the real objects
    def do_call(self, c):
        k = c[0]
        if k == 'next': return self.routines[c[1]].next(self.dec(c[2]))
        if k == 'stop': return self.routines[c[1]].stop()
        if k == 'pause': return self.routines[c[1]].pause()
        if k == 'resume': return self.routines[c[1]].resume()
        if k == 'reset': return self.routines[c[1]].reset()
        if k == 'play': return self.routines[c[1]].play()
        if k == 'signal': return self.cond_of(c[1]).signal()
        if k == 'unhang': return self.cond_of(c[1]).unhang()
        if k == 'settest':
            self.cells[c[1]].test = self.test_obj(c[2]); return None
        if k == 'flowset':
            self.cells[c[1]].value = self.dec(c[2]); return None
        raise ValueError(c)

    def log(self, i, e):
        self.logl.append([i] + e)

    # ---- script -> real function
    def make_func(self, i, d):
        env = self
        script = d['script']

        def simple(a):
            """actions that neither yield nor end the body; returns True if handled"""
            k = a[0]
            if k == 'call':
                c, catch = a[1], a[2]
                try:
                    v = env.do_call(c)
                except Exception as e:
                    if not catch:
                        raise
                    env.log(i, [3] + env.enc_call(c) + [1, exc_code(e)])
                else:
                    env.log(i, [3] + env.enc_call(c) + [0] + env.enc(v))
                return True
            if k == 'log':
                me = env.routines[i]
                # main.current_tt versus the parent chain: from the current thread the parents lead to main_tt
                t, n = main.current_tt, 0
                while t is not None and t is not main.main_tt and n < 50:
                    t, n = t.parent, n + 1
                if t is not main.main_tt:
                    env.chain_bad.append('body of routine %d: the parent chain of main.current_tt does not end in main_tt' % i)
                env.log(i, [2] + env.enc(env.dec(a[1])) + [1 if main.current_tt is me else 0,
                                                            me.state.value - 1, env.num(me._m_seconds)])
                return True
            return False

        def ends(a):
            k = a[0]
            if k == 'raise': raise UserError()
            if k == 'raisebase': raise BASES[a[1] % len(BASES)]()
            if k == 'yreset': raise YieldAndReset(env.dec(a[1]))
            if k == 'always': raise AlwaysYield(env.dec(a[1]))

        if d['kind'] == 'gen':
            def run():
                for a in script:
                    k = a[0]
                    if simple(a):
                        continue
                    if k == 'yield':
                        x = yield env.dec(a[1])
                        env.log(i, [1] + env.enc(x))
                    elif k == 'return':
                        return
                    elif k == 'relay':
                        x = yield env.routines[a[1]].next(env.dec(a[2]))
                        env.log(i, [1] + env.enc(x))
                    elif k == 'wait':
                        yield from env.cond_of(a[1]).wait()
                    elif k == 'flowget':
                        x = env.cells[a[1]]
                        if isinstance(x, FlowVar):
                            v = yield from x.value
                        else:          # a plain Condition has no value: model = wait, then log UNBOUND
                            yield from x.wait()
                            v = FlowVar._UNBOUND
                        env.log(i, [4] + env.enc(v))
                    else:
                        ends(a)
            if d['hasin']:
                def body(inval):
                    env.log(i, [0] + env.enc(inval))
                    return (yield from run())
            else:
                def body():
                    return (yield from run())
        else:
            def run_fn():
                for a in script:
                    k = a[0]
                    if simple(a):
                        continue
                    if k == 'return':
                        return
                    if k in ('yield', 'wait', 'flowget', 'relay'):
                        continue
                    ends(a)
            if d['hasin']:
                def body(inval):
                    env.log(i, [0] + env.enc(inval))
                    run_fn()
            else:
                def body():
                    run_fn()
        return body

    def make_routine(self, cls, func):
        """a Routine, or an instance of a Routine SUBCLASS of the library whose body is the same script: its overridden
        play/resume/stop/reset must obey the same transition table"""
        if cls == 'routine':
            return Routine(func)
        if cls == 'esp':
            from sc3.seq.eventstream import EventStreamPlayer, EventStreamCleanup

            class CountingStream:                 # the subclass's own state: how often was the source stream rewound?
                resets = 0

                def reset(self): self.resets += 1

                def next(self, inval=None): raise StopStream

            class CountingCleanup(EventStreamCleanup):
                runs = 0

                def run(self):
                    self.runs += 1
                    super().run()
            r = EventStreamPlayer.__new__(EventStreamPlayer)
            Routine.__init__(r, func)            # the script is the body; everything else is EventStreamPlayer's
            r._stream, r._event, r._is_muted, r._cleanup = CountingStream(), dict(), False, CountingCleanup()
            return r
        raise ValueError(cls)

    def num(self, x):
        fr = Fraction(x)
        if fr.denominator != 1:
            self.weird.append('non-integral time %r' % x)
            return 0
        return int(fr)

    # ---- observation
    def tid(self, t):
        if t is None: return -1
        if t is main.main_tt: return 0
        for i, r in enumerate(self.routines):
            if t is r: return i + 1
        return 98

    def snapshot(self):
        out = [self.tid(main.current_tt), self.num(main.main_tt._m_seconds), 0]
        for r in self.routines:
            out += [r.state.value - 1, 0 if r._iterator is None else 1, self.num(r._m_seconds), self.tid(r.parent)] + self.enc(r._last_value)
            out += [0] if r._terminal_value is Routine._SENTINEL else [1] + self.enc(r._terminal_value)
        q = [e for e in main._clock_scheduler.queue._queue if e[-1] is not type(main._clock_scheduler.queue)._REMOVED]
        q.sort(key=lambda e: (e[0], e[1]))
        out.append(len(q))
        for e in q:
            out += [self.num(e[0]), self.tid(e[2].task) - 1]
        for x in self.cells:
            if isinstance(x, FlowVar):
                out += [1, 0] if x._value is FlowVar._UNBOUND else [1, 1] + self.enc(x._value)
                wt = x.condition._waiting_threads
            else:
                out += [0, self.cell_test_code(x)]
                wt = x._waiting_threads
            out += [len(wt)] + [self.tid(t) - 1 for t in wt]
        return out

    def structured(self, o):
        """the same observation, keyed, for the monitors of harness/oracles/c11_monitors.py"""
        q = [e for e in main._clock_scheduler.queue._queue if e[-1] is not type(main._clock_scheduler.queue)._REMOVED]
        q.sort(key=lambda e: (e[0], e[1]))
        cells = []
        for x in self.cells:
            if isinstance(x, FlowVar):
                cells.append({'flow': True, 'test': x._value is not FlowVar._UNBOUND,
                              'value': None if x._value is FlowVar._UNBOUND else self.enc(x._value),
                              'waiting': [self.tid(t) - 1 for t in x.condition._waiting_threads]})
            else:
                cells.append({'flow': False, 'test': self.cell_test_code(x), 'value': None,
                              'waiting': [self.tid(t) - 1 for t in x._waiting_threads]})
        return {'out': self.enc_out(o), 'cur': self.tid(main.current_tt),
                'main_secs': self.num(main.main_tt._m_seconds),
                'states': [r.state.value - 1 for r in self.routines],
                'fresh': [r._iterator is None for r in self.routines],
                'parents': [self.tid(r.parent) for r in self.routines],
                'sub': [[r._stream.resets, r._cleanup.runs] if hasattr(r, '_cleanup') else None for r in self.routines],
                'lastv': [self.enc(r._last_value) for r in self.routines],
                'terms': [None if r._terminal_value is Routine._SENTINEL else self.enc(r._terminal_value) for r in self.routines],
                'queue': [[self.num(e[0]), self.tid(e[2].task) - 1] for e in q],
                'cells': cells, 'loglen': len(self.logl)}

    def tick(self):
        """one iteration of the REAL ClockScheduler.run(): the scheduler's queue is wrapped so that
        the loop sees it empty after one pop (everything else goes to the real TaskQueue)"""
        sched = main._clock_scheduler
        real = sched.queue
        if real.empty():
            return ['ret', None]

        class OneShot:
            def __init__(self):
                self.popped = False

            def empty(self):
                return self.popped or real.empty()

            def pop(self):
                self.popped = True
                return real.pop()

            def __getattr__(self, name):
                return getattr(real, name)

            def __iter__(self):
                return iter(real)

        seen = []
        orig = Routine.__awake__

        def spy(this, clock):
            try:
                v = orig(this, clock)
            except BaseException as e:
                seen.append(['exc', exc_code(e)])
                raise
            seen.append(['ret', v])
            return v
        Routine.__awake__ = spy
        sched.queue = OneShot()
        try:
            sched.run()
        except BaseException:       # ClockTask._wakeup only handles Exception: a BaseException comes through
            pass
        finally:
            sched.queue = real
            Routine.__awake__ = orig
        return seen[0] if seen else ['exc', 99]

    def run(self):
        case = self.case
        main.reset()
        main.current_tt = main.main_tt
        self.cells = [FlowVar() if k == 'flow' else Condition() for k in case['cells']]
        self.routines = [None] * len(case['defs'])
        for i, d in enumerate(case['defs']):
            self.routines[i] = self.make_routine(d.get('cls', 'routine'), self.make_func(i, d))
        obs = []
        for op in case['ops']:
            if op[0] == 'tick':
                o = self.tick()
            else:
                try:
                    o = ['ret', self.do_call(op[1])]
                except BaseException as e:      # incl. KeyboardInterrupt / SystemExit raised by a body
                    o = ['exc', exc_code(e)]
            obs.append(self.enc_out(o) + [-9] + self.snapshot())
            self.struct.append(self.structured(o))
        flat = []
        for e in self.logl:
            flat += e + [-9]
        obs.append(flat)
        # leave the library usable for the next case whatever this one did to it
        main.current_tt = main.main_tt
        main.reset()
        return obs


def probes():
    """aliasing laws checked directly (class: shared mutable state)"""
    bad = []
    main.reset(); main.current_tt = main.main_tt

    def gen():
        yield 1
        yield 2
        yield 3
    a, b = Routine(gen), Routine(gen)          # ONE generator function object, two routines
    got = [a.next(), b.next(), a.next(), a.next(), b.next()]
    if got != [1, 1, 2, 3, 2]:
        bad.append('two routines over one generator function share a position: %s' % got)
    a.reset()
    if [a.next(), b.next()] != [1, 3]:
        bad.append('reset of one routine disturbed another routine over the same function')
    b.stop()
    if a.state.name != 'Suspended' or a.next() != 2:
        bad.append('stop of one routine disturbed another routine over the same function')
    c1, c2 = Condition(), Condition()           # per-instance waiting lists
    f1, f2 = FlowVar(), FlowVar()
    f1.value = 0
    if f2._value is not FlowVar._UNBOUND or not f1.condition.test or f2.condition.test:
        bad.append('FlowVar state is shared between instances or a FlowVar bound to 0 does not count as bound')
    if c1._waiting_threads is c2._waiting_threads or f1.condition._waiting_threads is f2.condition._waiting_threads:
        bad.append('waiting lists are shared between Condition instances')
    r1, r2 = Routine(gen), Routine(gen)
    if r1._terminal_value is not Routine._SENTINEL or r1._iterator is not None or r1.parent is not None:
        bad.append('a fresh Routine is not in its initial state')
    # a REAL EventStreamPlayer whose source stream, evaluated inside the player's body, tries to reset / stop / pause the
    # player: refused, and refused means NO effect (the source stream is not rewound, the cleanup is not run)
    try:
        from sc3.seq.eventstream import EventStreamPlayer
        from sc3.base.stream import FunctionStream
        seen = {'resets': 0, 'n': 0, 'out': []}

        def nxt(inval):
            seen['n'] += 1
            if seen['n'] == 2:
                for name in ('reset', 'stop', 'pause'):
                    try:
                        getattr(player, name)()
                        seen['out'].append(name + ' accepted')
                    except RoutineException:
                        seen['out'].append('refused')
            if seen['n'] > 3:
                raise StopStream
            return {'delta': 1, 'degree': seen['n']}

        def rst():
            seen['resets'] += 1
        player = EventStreamPlayer(FunctionStream(nxt, rst))
        player.mute()                       # events are produced, not played
        vals = []
        for _ in range(3):
            vals.append(player.next())
        if seen['out'] != ['refused'] * 3 or seen['resets'] != 0 or seen['n'] != 3 or player.state.name != 'Suspended':
            bad.append('real EventStreamPlayer: reset/stop/pause from inside its own body: %s, source stream rewound %d times, '
                       'produced %d events, state %s (expected: three refusals, no rewind, Suspended)' % (
                           seen['out'], seen['resets'], seen['n'], player.state.name))
    except BaseException as e:
        bad.append('real EventStreamPlayer probe failed to run: %s: %s' % (type(e).__name__, e))
    main.reset(); main.current_tt = main.main_tt
    return bad


def main_():
    cases = json.load(open(sys.argv[1]))['cases']
    out = []
    lim = sys.getrecursionlimit()
    for case in cases:
        RECURSION[0] = False
        try:
            env = Env(case)
            obs = env.run()
            out.append({'obs': obs, 'weird': env.weird, 'struct': env.struct, 'log': env.logl, 'chain_bad': env.chain_bad,
                        'recursion': RECURSION[0]})
        except BaseException as e:   # never let one case kill the run
            main.current_tt = main.main_tt
            out.append({'obs': None, 'weird': ['runner: %s: %s' % (type(e).__name__, e)], 'struct': [], 'log': []})
        sys.setrecursionlimit(lim)
    try:
        pr = probes()
    except BaseException as e:
        pr = ['probe runner: %s: %s' % (type(e).__name__, e)]
    json.dump({'out': out, 'probes': pr}, open(sys.argv[2], 'w'))


main_()
