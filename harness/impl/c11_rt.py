"""C11, real-time part: routines played on the real clock THREADS (SystemClock, AppClock, TempoClock)
that end in every documented way; after each has finished the main thread must be back to normal:
main.current_tt is main.main_tt, the clocks' "inside a wake-up" flag (main._in_awake_call) is False,
the main thread's logical time follows physical time again, and a routine played afterwards does not
start in the past.

All timing requirements are LOWER bounds on logical time (or generous upper bounds on waiting for a
flag), so machine load cannot raise a false alarm.

input : {'endings': [...], 'sleep_check': [...endings after which the 0.3 s time check is made]}
output: {'scenarios': [{clock, ending, ...observations..., 'violations': [text]}]}
"""
import json, logging, os, sys, threading, time

import sc3
sc3.LIB_PORT = int(os.environ.get('SC3_LIB_PORT', str(58500 + (os.getpid() % 30) * 12)))
sc3.LIB_PORT_RANGE = 12
sc3.init('rt')
from sc3.base.main import main
from sc3.base import clock as clk
from sc3.base.stream import Routine, StopStream, YieldAndReset, AlwaysYield

logging.disable(logging.CRITICAL)


class UserError(Exception):
    pass


def now_logical():
    """logical time of the thread that is current (inside a routine: the routine's)"""
    return float(main.current_tt._seconds)


def make(ending, rec, done):
    """a routine body ending in the given way; records the logical time of its last step"""
    def last():
        rec['end_logical'] = now_logical()
        rec['cur_is_self'] = main.current_tt is rec['routine']
        done.set()

    if ending == 'exhaust':
        def f():
            yield 0.01
            last()
    elif ending == 'return':
        def f():
            yield 0.01
            last()
            return
            yield 0.01
    elif ending == 'raise':
        def f():
            yield 0.01
            last()
            raise UserError()
    elif ending == 'raise_first':
        def f():
            last()
            raise UserError()
            yield 0
    elif ending == 'yreset':
        def f():
            yield 0.01
            last()
            raise YieldAndReset('again')      # not a number: not re-scheduled
    elif ending == 'always':
        def f():
            yield 0.01
            last()
            raise AlwaysYield('forever')
    elif ending == 'function':
        def f():
            last()
    elif ending == 'function_raises':
        def f():
            last()
            raise UserError()
    elif ending == 'late_nested':
        # the routine runs LATE (busy body); a routine nested in it must inherit the LOGICAL time of its
        # parent, not the physical time, and so must a routine nested two levels down
        def inner2():
            rec['inner2_logical'] = now_logical()
            yield 1
        def inner():
            rec['inner_logical'] = now_logical()
            r3 = Routine(inner2)
            r3.next()
            yield 1
        def f():
            yield 0.01
            rec['outer_logical'] = now_logical()
            t0 = time.time()
            while time.time() - t0 < 0.06:
                pass
            r2 = Routine(inner)
            r2.next()
            rec['outer_logical_after'] = now_logical()
            rec['physical_after'] = main.elapsed_time()
            last()
    elif ending == 'nested_ends':
        def inner():
            yield 1
        def f():
            r2 = Routine(inner)
            yield 0.01
            r2.next()
            try:
                r2.next()                     # ends inside: StopStream, caught
            except StopStream:
                pass
            rec['nested_cur_ok'] = main.current_tt is rec['routine']
            last()
    elif ending == 'nested_raises':
        def inner():
            raise UserError()
            yield 1
        def f():
            r2 = Routine(inner)
            yield 0.01
            last()
            r2.next()                         # raises inside the nested routine and propagates
    else:
        raise ValueError(ending)
    return f


def settle(timeout=2.0):
    """wait (generously) until no wake-up is in progress: the flag is False and current_tt is main_tt.
    Returns what was seen last."""
    t0 = time.time()
    while True:
        with main._main_lock:
            flag = bool(main._in_awake_call)
            cur = main.current_tt is main.main_tt
        if (not flag and cur) or time.time() - t0 > timeout:
            return flag, cur
        time.sleep(0.01)


def scenario(clock_name, clock, ending, sleep_check, other_clock=None):
    out = {'clock': clock_name, 'ending': ending, 'violations': []}
    v = out['violations']
    rec, done = {}, threading.Event()
    if ending == 'sched_function_raises':
        # not a routine: a plain callable handed to clock.sched (wrapped by the library, woken via __awake__)
        def plain():
            rec['end_logical'] = now_logical()
            done.set()
            raise UserError()
        r = None
        clock.sched(0, plain)
    else:
        r = Routine(make(ending, rec, done))
        rec['routine'] = r
        r.play(clock)
    if not done.wait(3.0):
        out['skipped'] = 'the routine did not finish within 3 s'
        return out
    flag, cur = settle()
    out['in_awake_call_after'] = flag
    out['current_tt_is_main'] = cur
    out['state'] = r.state.name if r is not None else None
    if not cur:
        v.append('after the routine ended (%s) main.current_tt is not main.main_tt' % ending)
    if flag:
        v.append('main._in_awake_call is still True 2 s after the routine ended (%s): the wake-up flag was not '
                 'cleared on this exit path' % ending)
    if rec.get('cur_is_self') is False or rec.get('nested_cur_ok') is False:
        v.append('inside the body main.current_tt was not the routine (after a nested routine ended)')
    if ending == 'late_nested':
        o, a, b = rec.get('outer_logical'), rec.get('inner_logical'), rec.get('inner2_logical')
        out['late'] = {k: rec.get(k) for k in ('outer_logical', 'inner_logical', 'inner2_logical', 'outer_logical_after', 'physical_after')}
        if not (o == a == b == rec.get('outer_logical_after')):
            v.append('a routine running 0.06 s late at logical time %r started nested routines at logical %r and %r '
                     '(they must inherit the parent\'s logical time exactly)' % (o, a, b))
    # several reads of the main thread's time in a row: each refreshes from physical time, never goes back
    reads = [float(main.main_tt._seconds) for _ in range(5)]
    if any(y < x for x, y in zip(reads, reads[1:])):
        v.append('successive reads of the main thread\'s logical time went backwards: %s' % reads)
    t_ref = main.elapsed_time()
    if sleep_check:
        a = float(main.main_tt._seconds)
        time.sleep(0.3)
        b = float(main.main_tt._seconds)
        out['main_time_advance_over_0.3s_sleep'] = b - a
        if b - a < 0.2:
            v.append('the main thread\'s logical time advanced by %.3f s over a 0.3 s sleep (required >= 0.2): it no '
                     'longer follows time after the routine ended (%s)' % (b - a, ending))
    else:
        time.sleep(0.02)
    # a routine played afterwards from the main thread must not start in the past
    prec, pdone = {}, threading.Event()

    def probe():
        prec['start'] = now_logical()
        prec['cur_ok'] = main.current_tt is prec['routine']
        yield 0.005
        pdone.set()
    p = Routine(probe)
    prec['routine'] = p
    p.play(clock)
    if other_clock is not None:     # ... and the next UNRELATED operation: a routine played on another clock
        orec, odone = {}, threading.Event()

        def oprobe():
            orec['start'] = now_logical()
            yield 0.005
            odone.set()
        t_ref2 = main.elapsed_time()
        Routine(oprobe).play(other_clock)
        if odone.wait(3.0):
            out['other_clock_probe_start'] = orec['start']
            if orec['start'] < t_ref2:
                v.append('a routine played on ANOTHER clock from the main thread at physical time >= %.6f started at '
                         'logical time %.6f: in the past' % (t_ref2, orec['start']))
    if pdone.wait(3.0):
        out['probe_start'] = prec['start']
        out['prev_end_logical'] = rec.get('end_logical')
        out['physical_when_done'] = t_ref
        if rec.get('end_logical') is not None and prec['start'] < rec['end_logical']:
            v.append('a routine played afterwards started at logical %.6f, before the end %.6f of the previous one'
                     % (prec['start'], rec['end_logical']))
        if prec['start'] < t_ref:
            v.append('a routine played from the main thread at physical time >= %.6f started at logical time %.6f: '
                     'in the past (the main thread\'s logical time is frozen)' % (t_ref, prec['start']))
        if not prec['cur_ok']:
            v.append('inside the routine played afterwards main.current_tt was not that routine')
    else:
        out['probe_skipped'] = True
    settle()
    return out


def concurrent(clock_name, clock, opname, ends):
    """An operation issued from ANOTHER OS thread (here: the main thread) while a clock thread is executing a step of the
    routine's body.  It comes from outside, so it must not be refused: under the library lock it waits for the step to end
    and then acts on the state the routine is in (table of the model).  Every expectation is state-based, so a main thread
    that is late (arrives after the step) sees the same results: load cannot raise a false alarm."""
    out = {'clock': clock_name, 'ending': 'concurrent_%s_%s' % (opname, 'ends' if ends else 'yields'), 'violations': []}
    v = out['violations']
    started, flags = threading.Event(), {'step_done': False}

    def body():
        yield 0.01
        started.set()                      # the clock thread is inside this step (holding the library lock) ...
        t0 = time.time()
        while time.time() - t0 < 0.08:     # ... and stays in it for a while
            pass
        flags['step_done'] = True
        if not ends:
            yield 1000                     # no further wake-up during the test
            yield 1000
    r = Routine(body)
    r.play(clock)
    if not started.wait(3.0):
        out['skipped'] = 'the routine did not start within 3 s'
        return out
    try:
        res = getattr(r, opname)()
        outcome = 'returned %r' % (res,)
    except BaseException as e:
        outcome = 'raised %s' % type(e).__name__
    done_at_return = flags['step_done']
    state = r.state.name
    out.update({'outcome': outcome, 'step_done_when_the_call_returned': done_at_return, 'state_after': state})
    if outcome.startswith('raised RoutineException'):
        v.append('%s() called from another thread while the clock thread was executing the routine\'s body was refused '
                 '(RoutineException): it comes from outside and must wait for the step to end' % opname)
    elif outcome.startswith('raised') and not (opname == 'next' and ends and outcome == 'raised StopStream'):
        v.append('%s() from another thread raised: %s' % (opname, outcome))
    if not done_at_return:
        v.append('%s() from another thread returned while the clock thread was still inside the step of the body: '
                 'operations from outside must be serialised with the wake-ups' % opname)
    after_step = 'Done' if ends else 'Suspended'          # state once the step is over
    want = {'pause': 'Done' if ends else 'Paused', 'stop': 'Done', 'reset': 'Init', 'resume': after_step, 'play': after_step,
            'next': 'Done' if ends else 'Suspended'}[opname]
    if not outcome.startswith('raised RoutineException') and state != want:
        v.append('%s() from another thread: the routine is %s afterwards, documented %s' % (opname, state, want))
    if opname == 'next' and not ends and outcome != 'returned 1000':
        v.append('next() from another thread did not run the next step after waiting: %s' % outcome)
    settle()
    with main._main_lock:
        if main.current_tt is not main.main_tt:
            v.append('after %s() from another thread main.current_tt is not main.main_tt' % opname)
    try:
        r.stop()
    except BaseException:
        pass
    return out


def main_():
    inp = json.load(open(sys.argv[1]))
    clocks = [('SystemClock', clk.SystemClock), ('AppClock', clk.AppClock),
              ('TempoClock', clk.TempoClock(64)), ('TempoClock_b', clk.TempoClock(32))]
    res = []
    for name, c in clocks:
        if name not in inp.get('clocks', [n for n, _ in clocks]):
            continue
        for e in inp['endings']:
            try:
                other = clocks[(clocks.index((name, c)) + 1) % len(clocks)][1]
                res.append(scenario(name, c, e, e in inp.get('sleep_check', []), other))
            except BaseException as ex:
                res.append({'clock': name, 'ending': e, 'violations': [], 'skipped': '%s: %s' % (type(ex).__name__, ex)})
    for name, c in clocks[:3]:
        for opname in inp.get('concurrent', []):
            for ends in (False, True):
                try:
                    res.append(concurrent(name, c, opname, ends))
                except BaseException as ex:
                    res.append({'clock': name, 'ending': 'concurrent_' + opname, 'violations': [],
                                'skipped': '%s: %s' % (type(ex).__name__, ex)})
    json.dump({'scenarios': res}, open(sys.argv[2], 'w'))
    sys.stdout.flush()
    os._exit(0)        # daemon clock threads / sockets: do not wait for interpreter shutdown


main_()
