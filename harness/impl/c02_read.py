"""C02: feed hand-made SCgf-2 bytes (every field with its own distinct value, fields the writer never
produces: negative special indices, many outputs, name table in any order) to the LIBRARY's reader.
in : {'cases': [hex]}    out: {'out': [{'desc', 'units', 'exc', 'defname', 'leak'}]}"""
import io, json, sys
import c02_build as B          # initialises sc3 (nrt), helpers
from sc3.synth.synthdesc import SynthDesc
from sc3.synth import ugen as ugn
import sc3.base.main as _main


recon_units = B.recon_units


def main():
    cases = json.load(open(sys.argv[1]))['cases']
    out = []
    for h in cases:
        b = bytes.fromhex(h)
        r = {'desc': None, 'units': None, 'exc': None, 'defname': None, 'leak': None}
        try:
            descs = SynthDesc._read_stream(io.BytesIO(b), keep_defs=True)
            d = descs[0]
            r['desc'] = B.canon_desc(d)
            r['units'] = recon_units(d.sdef)
            r['ndescs'] = len(descs)
        except Exception as e:
            r['exc'] = B.exc_chain(e)
        except BaseException as e:     # MemoryError is an Exception; keep anything else visible
            r['exc'] = ['BaseException ' + type(e).__name__]
        try:
            r['defname'] = SynthDesc.def_name_from_bytes(bytearray(b))
        except Exception as e:
            r['defname_exc'] = B.exc_chain(e)
        if _main.main._current_synthdef is not None:
            r['leak'] = 'main._current_synthdef still set after the reader returned/raised'
            _main.main._current_synthdef = None
        if not _main.main._def_build_lock.acquire(blocking=False):
            r['leak'] = 'main._def_build_lock still held after the reader returned/raised'
        else:
            _main.main._def_build_lock.release()
        out.append(r)
    json.dump({'out': out}, open(sys.argv[2], 'w'))


main()
