"""Run sc3.base.builtins kernels on exact inputs; print canonical exact outputs."""
import json, sys
from fractions import Fraction
import sc3.base.builtins as bi

def dec(a):
    return int(a[1]) if a[0] == 'I' else float(Fraction(a[1]))

def enc(r):
    if isinstance(r, bool):
        return ['B', int(r)]
    if isinstance(r, int):
        return [0, str(r), '1']
    if isinstance(r, float):
        if r != r or r in (float('inf'), float('-inf')):
            return [3, str(r), '0']
        fr = Fraction(r)
        return [1, str(fr.numerator), str(fr.denominator)]
    return [4, repr(r), '0']

def main():
    cases = json.load(open(sys.argv[1]))['cases']
    out = []
    for c in cases:
        f = getattr(bi, c['f'])
        try:
            out.append(enc(f(*[dec(a) for a in c['args']])))
        except ZeroDivisionError:
            out.append([2, '0', '0'])
        except Exception as e:
            out.append([5, type(e).__name__, '0'])
    json.dump({'out': out}, open(sys.argv[2], 'w'))

main()
