"""C13: build REAL sc3 pattern objects from expression trees and evaluate them.

input : {'cases': [{'expr': E, 'n': int, 'sched': [0/1...], 'finite': bool}, ...]}
output: {'out': [ {'iter': R, 'next': R, 'all': [V..]|None, 'two': [R, R], 'mutated': bool,
                   'again': R} ... ]}
R = [[V...], end] with end in 'stop' | 'more' | 'err:<ExceptionName>' | 'timeout'
V = ['i', str] | ['f', 'num/den'] | ['b', 0/1] | ['l', [V..]] | ['t', [V..]] | ['x', repr]
E = see build() below.
"""
import json, os, signal, sys
from fractions import Fraction

import sc3
import sc3.base.main
sc3.init(os.environ.get('SC3_MODE', 'nrt'))
from sc3.base.stream import stream, StopStream
import sc3.base.builtins as bi
from sc3.seq import pattern as ptt
from sc3.base import absobject as aob
from sc3.seq.patterns.listpatterns import (Pseq, Pser, Pswitch, Pswitch1, Ptuple, Place, Pslide,
                                            Prand, Pxrand, Pwrand)
import sc3.seq.patterns.listpatterns as _lp
import sc3.seq.patterns.valuepatterns as _vp
from sc3.seq.patterns.filterpatterns import (Pn, Plen, Pdrop, Pstutter, Pclump, Pflatten, Pdiff,
                                              Pconst, Pcollect, Pselect, Preject, Pwrap, Pseed)
from sc3.seq.patterns.valuepatterns import Pseries, Pgeom, Pwhite
from sc3.seq.patterns.funcpatterns import Pif

import operator
INF = float('inf')

# --- record the draws of every seeded generator (Routine.rand_seed = x -> random.Random(x))
import random as _random
import sc3.base.stream as _stm
LOG = []


class LogRandom(_random.Random):
    def __init__(self, x=None):
        super().__init__(x)
        self._c13_seed = x
        self._c13_hist = []

    def randrange(self, start, stop=None, step=1):
        r = super().randrange(start, stop, step)
        LOG.append((self._c13_seed, tuple(self._c13_hist), start, stop, r))
        self._c13_hist.insert(0, (start, stop))
        return r

    def choices(self, population, weights=None, *, cum_weights=None, k=1):
        # bi.choices(range(n), weights)[0] (Pwrand): oracle key (-1, n), result = the chosen index
        r = super().choices(population, weights, cum_weights=cum_weights, k=k)
        pop = list(population)
        LOG.append((self._c13_seed, tuple(self._c13_hist), -1, len(pop), pop.index(r[0]) if k == 1 else -7))
        self._c13_hist.insert(0, (-1, len(pop)))
        return r


class _RandomShim:
    Random = LogRandom

    def __getattr__(self, name):
        return getattr(_random, name)


_stm.random = _RandomShim()

class Boom(BaseException):
    """not an Exception: exercises the bare-except / finally paths (Routine.next)"""


def _boom(x):
    raise Boom()


import functools


class Wrap1(list):
    """a user CLASS used as converter: Wrap1(x) is the list [x]"""
    def __init__(self, x):
        super().__init__([x])


class _Inc:
    def __call__(self, x):
        return x + 1

    def meth(self, x):
        return x + 1


# one meaning, several kinds of callable (picked per node): plain function, functools.partial,
# bound method, callable instance, builtin function
KINDS = {
    'inc': [lambda x: x + 1, functools.partial(operator.add, 1), _Inc().meth, _Inc()],
    'neg': [lambda x: -x, operator.neg, functools.partial(operator.mul, -1)],
    'dbl': [lambda x: x * 2, functools.partial(operator.mul, 2)],
    'pos': [lambda x: x > 0, functools.partial(operator.lt, 0)],
}
FUNCS = {
    'float': float,          # a CLASS (builtin type with a signature)
    'abs': abs,              # a builtin function
    'wrap1': Wrap1,          # a user class
    'boom': _boom,
    'inc': lambda x: x + 1,
    'dbl': lambda x: x * 2,
    'neg': lambda x: -x,
    'pair': lambda x: [x, x],
    'even': lambda x: x % 2 == 0,
    'lt3': lambda x: x < 3,
    'pos': lambda x: x > 0,
}
BINOPS = {
    'add': lambda a, b: a + b, 'sub': lambda a, b: a - b, 'mul': lambda a, b: a * b,
    'div': lambda a, b: a / b, 'floordiv': lambda a, b: a // b, 'mod': lambda a, b: a % b,
    'min': lambda a, b: bi.min(a, b), 'max': lambda a, b: bi.max(a, b),
    'lt': lambda a, b: a < b, 'le': lambda a, b: a <= b, 'gt': lambda a, b: a > b,
    'ge': lambda a, b: a >= b, 'eq': lambda a, b: a == b, 'ne': lambda a, b: a != b,
    'pow': lambda a, b: a ** b, 'lshift': lambda a, b: a << b, 'rshift': lambda a, b: a >> b,
    'bitand': lambda a, b: a & b, 'bitor': lambda a, b: a | b, 'bitxor': lambda a, b: a ^ b,
}
NAMED = ['round', 'roundup', 'trunc', 'thresh', 'clip2', 'wrap2', 'fold2', 'excess', 'scaleneg', 'amclip',
         'ring1', 'ring2', 'ring3', 'ring4', 'difsqr', 'sumsqr', 'sqrsum', 'sqrdif', 'absdif']
for _n in NAMED:
    BINOPS[_n] = (lambda f: lambda a, b: f(a, b))(getattr(bi, _n))          # bi.f(a, b): either side may be the pattern
# the method spelling of the same operators (a is a pattern): p.pow(x), p.round(x), ...
METHODS = {'pow': 'pow', 'lshift': 'lshift', 'rshift': 'rshift', 'bitand': 'bitand', 'bitor': 'bitor', 'bitxor': 'bitxor',
           'min': 'min', 'max': 'max'}
METHODS.update({n: n for n in NAMED})
UNOPS = {'neg': lambda a: -a, 'abs': lambda a: abs(a)}


def dv(v):
    t = v[0]
    if t == 'i':
        return int(v[1])
    if t == 'f':
        return float(Fraction(v[1]))
    if t == 'b':
        return bool(v[1])
    if t == 'l':
        return [dv(x) for x in v[1]]
    if t == 't':
        return tuple(dv(x) for x in v[1])
    if t == 'n':
        return None
    raise ValueError(v)


def ev(r):
    if r is None:
        return ['n']
    if isinstance(r, bool):
        return ['b', int(r)]
    if isinstance(r, int):
        return ['i', str(r)]
    if isinstance(r, float):
        if r != r or r in (INF, -INF):
            return ['x', repr(r)]
        fr = Fraction(r)
        return ['f', '%d/%d' % (fr.numerator, fr.denominator)]
    if isinstance(r, list):
        return ['l', [ev(x) for x in r]]
    if isinstance(r, tuple):
        return ['t', [ev(x) for x in r]]
    return ['x', repr(r)[:80]]


def reps(r):
    return INF if r == 'inf' else int(r)


MEMO = None          # dict when identical sub-expressions must be ONE shared Python object
ARGS = []            # (list object handed to a constructor, copy of its contents)


def _lst(items):
    ARGS.append((items, list(items)))
    return items


def build(e):
    if MEMO is None:
        return build1(e)
    key = json.dumps(e)
    if key not in MEMO:
        MEMO[key] = build1(e)
    return MEMO[key]


def build1(e):
    k = e[0]
    if k == 'val':
        return dv(e[1])
    B = build
    if k in ('Pseq', 'Pser') and not e[1]:
        # an empty list cannot be constructed; this is a pattern whose list was emptied afterwards
        p = (Pseq if k == 'Pseq' else Pser)([0], reps(e[2]), e[3])
        p.lst = []
        return p
    if k == 'Place' and not e[1]:
        p = Place([0], reps(e[2]), e[3])
        p.lst = []
        return p
    if k == 'Pseq':
        return Pseq(_lst([B(x) for x in e[1]]), reps(e[2]), e[3])
    if k == 'Pser':
        return Pser(_lst([B(x) for x in e[1]]), reps(e[2]), e[3])
    if k == 'Pn':
        return Pn(B(e[1]), reps(e[2]))
    if k == 'Place':
        # a one-element sub-list stands for a plain (non-list) item when flagged
        items = []
        for sub, plain in zip(e[1], e[4]):
            items.append(B(sub[0]) if plain else _lst([B(x) for x in sub]))
        return Place(_lst(items), reps(e[2]), e[3])
    if k == 'Plen':
        return Plen(B(e[1]), e[2])
    if k == 'Pdrop':
        return Pdrop(B(e[1]), e[2])
    if k == 'Pstutter':
        return Pstutter(B(e[1]), B(e[2]))
    if k == 'Pclump':
        return Pclump(B(e[1]), B(e[2]))
    if k == 'Pflatten':
        return Pflatten(B(e[1]), B(e[2]))
    if k == 'Pdiff':
        return Pdiff(B(e[1]))
    if k == 'Pconst':
        return Pconst(B(e[1]), dv(e[2]), dv(e[3]))
    if k == 'Pfun':
        cls = {'collect': Pcollect, 'select': Pselect, 'reject': Preject}[e[1]]
        f = FUNCS[e[2]]
        if e[2] in KINDS:
            f = KINDS[e[2]][len(json.dumps(e)) % len(KINDS[e[2]])]
        return cls(f, B(e[3]))
    if k == 'Pwrap':
        return Pwrap(B(e[1]), B(e[2]), B(e[3]))
    if k == 'Punop':
        a = B(e[2])
        if not isinstance(a, ptt.Pattern):
            return ptt.Punop(_UN[e[1]], a)
        return UNOPS[e[1]](a)         # through AbstractObject's operator composition
    if k == 'Pbinop':
        a, b = B(e[2]), B(e[3])
        if isinstance(a, ptt.Pattern) and e[1] in METHODS and len(json.dumps(e)) % 2:
            return getattr(aob.AbstractObject, METHODS[e[1]])(a, b)      # method spelling (two sites, one meaning)
        if isinstance(a, ptt.Pattern) or isinstance(b, ptt.Pattern):
            return BINOPS[e[1]](a, b)       # through AbstractObject's operator composition / the scbuiltin decorator
        return ptt.Pbinop(_BIN[e[1]], a, b)
    if k == 'Pnarop':
        a, b, c = B(e[2]), B(e[3]), B(e[4])
        if isinstance(a, ptt.Pattern):
            # p.clip(lo, hi) / wrap / fold -- called on the class: a Pslide INSTANCE has a bool attribute 'wrap'
            return getattr(aob.AbstractObject, e[1])(a, b, c)
        return ptt.Pnarop(getattr(bi, e[1]), a, b, c)
    if k == 'Pif':
        return Pif(B(e[1]), B(e[2]), B(e[3]))
    if k == 'Pseries':
        return Pseries(dv(e[1]), B(e[2]), reps(e[3]))
    if k == 'Pgeom':
        return Pgeom(dv(e[1]), B(e[2]), reps(e[3]))
    if k == 'Pswitch':
        return Pswitch(_lst([B(x) for x in e[1]]), B(e[2]))
    if k == 'Pswitch1':
        return Pswitch1(_lst([B(x) for x in e[1]]), B(e[2]))
    if k == 'Ptuple':
        return Ptuple(_lst([B(x) for x in e[1]]), reps(e[2]))
    if k == 'Pslide':
        return Pslide(_lst([B(x) for x in e[1]]), B(e[2]), B(e[3]), e[4], bool(e[5]), reps(e[6]))
    # seeded random patterns (implementation-only checks)
    if k == 'Pseed':
        return Pseed(B(e[1]), B(e[2]))
    if k == 'Prand':
        return Prand(_lst([B(x) for x in e[1]]), reps(e[2]))
    if k == 'Pxrand':
        return Pxrand(_lst([B(x) for x in e[1]]), reps(e[2]))
    if k == 'Pwhite':
        return Pwhite(B(e[1]), B(e[2]), reps(e[3]))
    if k == 'Pwrand':
        w = None if e[2] is None else [dv(x) for x in e[2]]
        return Pwrand(_lst([B(x) for x in e[1]]), w, reps(e[3]))
    if k == 'Pext':
        # any other random pattern class, by name with literal arguments (implementation-only cases)
        cls = getattr(_lp, e[1], None) or getattr(_vp, e[1])
        return cls(*[INF if a == 'inf' else a for a in e[2]])
    raise ValueError('unknown expression kind %r' % (k,))


_UN = {'neg': operator.neg, 'abs': operator.abs}
_BIN = {'add': operator.add, 'sub': operator.sub, 'mul': operator.mul, 'div': operator.truediv,
        'floordiv': operator.floordiv, 'mod': bi.mod, 'min': bi.min, 'max': bi.max,
        'lt': operator.lt, 'le': operator.le, 'gt': operator.gt, 'ge': operator.ge,
        'eq': operator.eq, 'ne': operator.ne, 'pow': operator.pow, 'lshift': operator.lshift, 'rshift': operator.rshift,
        'bitand': operator.and_, 'bitor': operator.or_, 'bitxor': operator.xor}
_BIN.update({n: getattr(bi, n) for n in ['round', 'roundup', 'trunc', 'thresh', 'clip2', 'wrap2', 'fold2', 'excess', 'scaleneg',
                                          'amclip', 'ring1', 'ring2', 'ring3', 'ring4', 'difsqr', 'sumsqr', 'sqrsum', 'sqrdif', 'absdif']})


class Timeout(Exception):
    pass


def _alarm(sig, frm):
    raise Timeout()


def snapshot(x, depth=0):
    """Structural dump of a pattern object (to detect mutation of the blueprint)."""
    if depth > 12:
        return '...'
    if isinstance(x, ptt.Pattern):
        return (type(x).__name__, tuple((k, snapshot(v, depth + 1)) for k, v in sorted(vars(x).items())))
    if isinstance(x, (list, tuple)):
        return (type(x).__name__, tuple(snapshot(v, depth + 1) for v in x))
    if callable(x):
        return ('fn', getattr(x, '__name__', '?'))
    return repr(x)


def take(nextf, n):
    """n calls of nextf; values are encoded only AFTER the run (a yielded list that is mutated
    later by the stream shows up as a wrong value)."""
    raw, end = [], 'more'
    try:
        for _ in range(n):
            raw.append(nextf())
    except StopIteration:          # StopStream is a StopIteration
        end = 'stop'
    except Timeout:
        raise                      # abort the whole case (the timer is one-shot)
    except RecursionError:
        end = 'err:RecursionError'
    except Boom:
        end = 'err:Boom'
    except Exception as e:
        end = 'err:' + type(e).__name__
    return [raw, end]


def enc(r):
    return [[ev(x) for x in r[0]], r[1]]


def stop_is_none(b):
    return b is None


def run_case(c):
    global MEMO
    res = {'iter': None, 'next': None, 'all': None, 'two': None, 'mutated': False, 'again': None}
    n = c['n']
    del LOG[:]
    del ARGS[:]
    MEMO = {} if c.get('share') else None
    mm = sc3.base.main.main
    grng0 = mm._m_rgen.getstate()
    signal.setitimer(signal.ITIMER_REAL, c.get('timeout', 2.0))
    try:
        try:
            p = build(c['expr'])
        except Timeout:
            raise
        except Exception as e:
            r = [[], 'err:' + type(e).__name__]
            res.update({'iter': r, 'next': r, 'again': r, 'embed': r, 'reset': r, 'two': [r, r], 'ctor_error': True})
            return res
        snap0 = snapshot(p)
        it = iter(p)
        r_iter = take(lambda: next(it), n)
        # a stream that signalled its end must KEEP signalling it (no silent restart), also when pulled
        # again as an iterator
        after = []
        if r_iter[1] == 'stop':
            for _ in range(3):
                r1 = take(lambda: next(it), 1)
                after.append([[ev(x) for x in r1[0]], r1[1]])
        res['after_end'] = after
        s = stream(p)
        r_next = take(lambda: s.next(), n)
        if r_next[1] == 'stop':
            for _ in range(2):
                r1 = take(lambda: s.next(), 1)
                after.append([[ev(x) for x in r1[0]], r1[1]])
        # the __embed__ path of the same object (iter / stream use __stream__)
        g = _stm.embed(p, None)
        r_embed = take(lambda: next(g), n)
        # reset: a partly used stream, reset, must start again
        s3 = stream(p)
        take(lambda: s3.next(), min(3, n))
        s3.reset()
        r_reset = take(lambda: s3.next(), n)
        # two interleaved streams of the SAME pattern object
        a, b = stream(p), stream(p)
        outs = [[[], 'more'], [[], 'more']]
        for w in c['sched']:
            o = outs[w]
            if o[1] != 'more':
                continue
            r = take((a if w == 0 else b).next, 1)
            o[0].extend(r[0])
            if r[1] != 'more':
                o[1] = r[1]
        # a stream made after all the others must give the same sequence again
        it2 = iter(p)
        r_again = take(lambda: next(it2), n)
        res.update({'iter': enc(r_iter), 'next': enc(r_next), 'embed': enc(r_embed), 'reset': enc(r_reset),
                    'two': [enc(outs[0]), enc(outs[1])], 'again': enc(r_again)})
        res['mutated'] = (snapshot(p) != snap0)
        res['args_mutated'] = any(list(l) != cp or any(x is not y for x, y in zip(l, cp)) for l, cp in ARGS)
        if c.get('finite'):
            s2 = stream(p)
            try:
                signal.setitimer(signal.ITIMER_REAL, 1.0)
                res['all'] = [ev(x) for x in s2.all()]
            except Timeout:
                res['all'] = None
                res['all_timeout'] = True
            except Boom:
                res['all'] = 'err:Boom'
            except Exception as e:
                res['all'] = 'err:' + type(e).__name__
    except Timeout:
        res['timeout'] = True
    finally:
        signal.setitimer(signal.ITIMER_REAL, 0)
        MEMO = None
    # every random pattern of a case is inside a Pseed: the global generator must not have been used
    res['global_rng_touched'] = (mm._m_rgen.getstate() != grng0)
    # error-path cleanup: the current time thread must be the main one again
    if mm.current_tt is not mm.main_tt:
        res['leaked_tt'] = repr(mm.current_tt)
        mm.current_tt = mm.main_tt
    draws, bad = {}, False
    for seed, hist, a, b, r in LOG:
        if type(seed) is not int or stop_is_none(b):
            bad = True
            continue
        key = (seed, hist, a, b)
        if key in draws and draws[key] != r:
            bad = True            # the same generator history gave two different results
        draws[key] = r
    res['draws'] = [[s, [list(x) for x in h], a, b, r] for (s, h, a, b), r in draws.items()]
    res['draws_inconsistent'] = bad
    return res


def main():
    cases = json.load(open(sys.argv[1]))['cases']
    signal.signal(signal.SIGALRM, _alarm)
    sys.setrecursionlimit(5000)
    out = []
    timeouts = 0
    for c in cases:
        if timeouts >= 8:        # the tree under test hangs: do not spend the whole budget on it
            out.append({'skipped': True})
            continue
        try:
            r = run_case(c)
            if r.get('timeout') or (r.get('iter') and r['iter'][1] == 'timeout') or r.get('all_timeout'):
                timeouts += 1
            out.append(r)
        except Exception as e:
            out.append({'harness_error': type(e).__name__ + ': ' + str(e)[:200]})
    # process-level state: the first cases again, after everything else ran
    rerun_diff = []
    for i, c in enumerate(cases[:25]):
        if timeouts >= 8 or out[i].get('skipped') or out[i].get('timeout'):
            break
        try:
            r = run_case(c)
            if r.get('iter') != out[i].get('iter') or r.get('two') != out[i].get('two'):
                rerun_diff.append(i)
        except Exception:
            rerun_diff.append(i)
    ctor = {}
    for cls, args in ((Pseq, ()), (Pser, ()), (Place, ()), (Ptuple, ()), (Pslide, ()), (Prand, ()), (Pxrand, ())):
        try:
            cls([], *args)
            ctor[cls.__name__] = 'accepted'
        except Exception as e:
            ctor[cls.__name__] = type(e).__name__
    json.dump({'out': out, 'ctor_empty': ctor, 'rerun_diff': rerun_diff}, open(sys.argv[2], 'w'))


main()
