"""Direct law probes on the real sc3.base.builtins (used only to LOOK FOR a failing input).

Exact laws are checked with Fractions on dyadic inputs (binary64 arithmetic is exact there,
DESIGN.md section 3); inverse laws with a relative tolerance."""
import json, sys, itertools, math
from fractions import Fraction as Fr
import sc3.base.builtins as bi

def grid(ints=True, floats=True):
    vals = []
    if ints:
        vals += list(range(-7, 8))
    if floats:
        vals += [k / 4 for k in range(-26, 27)] + [k / 8 + 0.0 for k in (-33, -1, 1, 33)]
    return vals

def ex(x):
    return Fr(x)

def is_mult(r, q):
    return q != 0 and (ex(r) / ex(q)).denominator == 1

def main():
    spec = json.load(open(sys.argv[1]))
    want = set(spec.get('laws') or [])
    bad = []
    def rec(law, args, got, why):
        if len([b for b in bad if b['law'] == law]) < 3:
            bad.append({'law': law, 'args': [repr(a) for a in args], 'got': repr(got), 'why': why})
    def on(l):
        return not want or l in want
    nums = grid()
    pos = [v for v in nums if v > 0]
    for a in nums:
        for b in pos:
            if on('mod_nonneg'):
                try:
                    r = bi.mod(a, b)
                    if not (0 <= r < b): rec('mod_nonneg', (a, b), r, '0 <= mod(a,b) < b')
                except Exception as e: rec('mod_nonneg', (a, b), repr(e), 'raised')
            for name, lo_ok, hi_ok in (('round', None, None), ('roundup', None, None), ('trunc', None, None)):
                if not on(name + '_multiple'): continue
                try:
                    r = getattr(bi, name)(a, b)
                    if not is_mult(r, b): rec(name + '_multiple', (a, b), r, 'result is a multiple of the quantum')
                    elif name == 'round' and not (2 * ex(r) - ex(b) <= 2 * ex(a) <= 2 * ex(r) + ex(b)): rec('round_multiple', (a, b), r, 'nearest multiple')
                    elif name == 'roundup' and not (ex(a) <= ex(r) < ex(a) + ex(b)): rec('roundup_multiple', (a, b), r, 'least multiple >= x')
                    elif name == 'trunc' and not (ex(r) <= ex(a) < ex(r) + ex(b)): rec('trunc_multiple', (a, b), r, 'greatest multiple <= x')
                except Exception as e: rec(name + '_multiple', (a, b), repr(e), 'raised')
    bnds = [v for v in nums if abs(v) <= 3]
    for x in nums:
        for lo, hi in itertools.product(bnds, bnds):
            if lo < hi:
                if on('wrap_in_bounds'):
                    try:
                        r = bi.wrap(x, lo, hi)
                        allint = all(type(v) is int for v in (x, lo, hi))
                        if not (lo <= r <= hi if allint else lo <= r < hi): rec('wrap_in_bounds', (x, lo, hi), r, 'lo <= wrap < hi (<= hi for ints)')
                    except Exception as e: rec('wrap_in_bounds', (x, lo, hi), repr(e), 'raised')
                if on('fold_in_bounds'):
                    try:
                        r = bi.fold(x, lo, hi)
                        if not (lo <= r <= hi): rec('fold_in_bounds', (x, lo, hi), r, 'lo <= fold <= hi')
                    except Exception as e: rec('fold_in_bounds', (x, lo, hi), repr(e), 'raised')
            if lo <= hi and on('clip'):
                try:
                    r = bi.clip(x, lo, hi)
                    if not (lo <= r <= hi) and type(x) is float: rec('clip', (x, lo, hi), r, 'lo <= clip <= hi')
                    if bi.clip(r, lo, hi) != r: rec('clip', (x, lo, hi), r, 'clip idempotent')
                except Exception as e: rec('clip', (x, lo, hi), repr(e), 'raised')
    def close(a, b):
        return abs(a - b) <= 1e-9 * max(1.0, abs(a), abs(b))
    inv = [('midicps', 'cpsmidi'), ('midiratio', 'ratiomidi'), ('octcps', 'cpsoct'), ('dbamp', 'ampdb')]
    for f, g in inv:
        law = '%s_%s_inverse' % (g, f)
        if on(law) or on('%s_%s_inverse' % (f, g)):
            F, G = getattr(bi, f), getattr(bi, g)
            for k in range(-40, 41):
                v = k * 1.5 + 0.25
                try:
                    if not close(G(F(v)), v): rec('%s_%s_inverse' % (g, f), (v,), G(F(v)), '%s(%s(x)) = x' % (g, f))
                except Exception as e: rec('%s_%s_inverse' % (g, f), (v,), repr(e), 'raised')
            for k in range(1, 60):
                v = k * 7.25
                try:
                    if not close(F(G(v)), v): rec('%s_%s_inverse' % (f, g), (v,), F(G(v)), '%s(%s(x)) = x' % (f, g))
                except Exception as e: rec('%s_%s_inverse' % (f, g), (v,), repr(e), 'raised')
    json.dump({'bad': bad}, open(sys.argv[2], 'w'))

main()
