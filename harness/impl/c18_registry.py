"""C18 (iv): registry histories on the REAL SystemAction / ServerAction / NotificationCenter code.

SystemAction and ServerAction are exercised through private subclasses (own `_actions` /
`_servers` dicts, every method inherited unchanged) so that the library's own registrations
(SynthDescLib on ServerBoot 'all', responders on CmdPeriod) do not interfere; a second pass runs
the SystemAction part on the real CmdPeriod class with clocks/servers switched off.
Input  {histories: [{ops: [...], removes: {a: [b, ...]}}]}
Output {out: [[log per op]]}   log = [[who, payload], ...];  [[0,0]] = KeyError"""
import json, os, sys
import sc3
sc3.init(os.environ.get('SC3_MODE', 'nrt'), verbosity='CRITICAL')
from sc3.base import systemactions as sac
from sc3.base import model as mdl
from sc3.synth import server as srv


class Obj:
    """a FALSY object (servers, observed objects, listeners): `if x:` where `is None` is meant shows"""
    def __init__(self, n):
        self.n = n

    def __bool__(self):
        return False


MSGS = {1: 0, 2: ''}        # falsy, hashable message keys


def run(hist, use_cmdperiod):
    log = []
    removes = {int(k): v for k, v in hist.get('removes', {}).items()}

    if use_cmdperiod:
        SA = sac.CmdPeriod
        saved = dict(SA._actions)
        SA._actions = dict()
        SA.clear_clocks = False
        SA.free_servers = False
    else:
        class SA(sac.SystemAction):
            _actions = dict()

    class SV(sac.ServerAction):
        _servers = dict()

    acts = {}

    def sa_action(a):
        if a not in acts:
            def f(payload):
                log.append([a, payload])
                for b in removes.get(a, []):
                    SA.remove(sa_action(b))
            acts[a] = f
        return acts[a]

    sv_acts = {}

    def sv_action(a):
        if a not in sv_acts:
            def f(server, payload):
                log.append([a, payload])
            sv_acts[a] = f
        return sv_acts[a]

    servers = {0: srv.Server.default}

    def skey(k):
        if k == 'default' or k == 'all':
            return k
        n = k[1]
        if n not in servers:
            servers[n] = Obj(n)
        return servers[n]

    objs, listeners = {}, {}

    def obj(n):
        return objs.setdefault(n, Obj(n))

    def lis(n):
        return listeners.setdefault(n, Obj(n))

    def nc_action(a):
        def f(o, msg, listener):
            log.append([listener.n, a])
        return f

    outs = []
    for op in hist['ops']:
        del log[:]
        k = op[0]
        try:
            if k == 'sa_add':
                SA.add(sa_action(op[1]), op[2])
            elif k == 'sa_remove':
                SA.remove(sa_action(op[1]))
            elif k == 'sa_remove_all':
                SA.remove_all()
            elif k == 'sa_run':
                SA.run()
            elif k == 'sv_add':
                SV.add(skey(op[1]), sv_action(op[2]), op[3])
            elif k == 'sv_remove':
                SV.remove(skey(op[1]), sv_action(op[2]))
            elif k == 'sv_remove_server':
                SV.remove_server(skey(op[1]))
            elif k == 'sv_run':
                SV.run(skey(['srv', op[1]]))
            elif k == 'nc_register':
                mdl.NotificationCenter.register(obj(op[1]), MSGS[op[2]], lis(op[3]), nc_action(op[4]))
            elif k == 'nc_unregister':
                mdl.NotificationCenter.unregister(obj(op[1]), MSGS[op[2]], lis(op[3]))
            elif k == 'nc_notify':
                mdl.NotificationCenter.notify(obj(op[1]), MSGS[op[2]])
            elif k == 'nc_unregister_msg':
                mdl.NotificationCenter.unregister(obj(op[1]), MSGS[op[2]])
            elif k == 'nc_unregister_obj':
                mdl.NotificationCenter.unregister(obj(op[1]))
        except KeyError:
            log.append([0, 0])
        except Exception as e:
            log.append([-1, type(e).__name__])
        outs.append([list(x) for x in log])
    if use_cmdperiod:
        SA._actions = saved
    for o in objs.values():
        try:
            mdl.NotificationCenter.unregister(o)
        except KeyError:
            pass
    return outs


def main():
    inp = json.load(open(sys.argv[1]))
    out = []
    for i, h in enumerate(inp['histories']):
        out.append(run(h, use_cmdperiod=(i % 3 == 2)))
    json.dump({'out': out}, open(sys.argv[2], 'w'))


main()
