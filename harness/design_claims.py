#!/usr/bin/env python3
"""Merges build/claims_update/Cxx.json into harness/claims.json (when present) and regenerates the table of
DESIGN.md section 11.2 between <!-- CLAIMS-BEGIN --> and <!-- CLAIMS-END --> from harness/claims.json ('row') and the
theorem names of coq/props/Cxx.v.  Run harness/manifest_gen.py afterwards."""
import json, os, re, glob
HERE = os.path.dirname(os.path.dirname(os.path.abspath(__file__)))
CJ = os.path.join(HERE, 'harness', 'claims.json')


def theorems(pid):
    src = open(os.path.join(HERE, 'coq', 'props', pid + '.v')).read()
    src = re.sub(r'\(\*.*?\*\)', '', src, flags=re.S)
    return re.findall(r'^\s*Theorem\s+([A-Za-z0-9_\']+)', src, flags=re.M)


def main():
    claims = json.load(open(CJ))
    for f in sorted(glob.glob(os.path.join(HERE, 'build', 'claims_update', 'C??.json'))):
        pid = os.path.basename(f)[:-5]
        u = json.load(open(f))
        for k in ('text', 'technique', 'note', 'ref', 'row'):
            if k in u:
                claims.setdefault(pid, {})[k] = u[k]
    json.dump(claims, open(CJ, 'w'), indent=1, sort_keys=True)
    rows = ['| prop. | theorems (partial / refuted) | proof core | tie | not proved / partial / only tested |', '|---|---|---|---|---|']
    tot = 0
    for pid in sorted(claims):
        th = theorems(pid)
        tot += len(th)
        par = sum(1 for t in th if t.endswith('_partial') or '_partial_' in t)
        ref = sum(1 for t in th if 'refuted' in t)
        r = claims[pid].get('row', {})
        cell = lambda s: (s or '—').replace('|', '/').replace('\n', ' ')
        rows.append('| %s | %d (%d/%d) | %s | %s | %s |' % (pid, len(th), par, ref, cell(r.get('proof_core')), cell(r.get('tie')), cell(r.get('not_proved'))))
    rows.append('')
    rows.append('%d property theorems in `coq/props/` in total.' % tot)
    p = os.path.join(HERE, 'DESIGN.md')
    s = open(p).read()
    a, b = '<!-- CLAIMS-BEGIN -->', '<!-- CLAIMS-END -->'
    if a in s:
        s = s[:s.index(a) + len(a)] + '\n' + '\n'.join(rows) + '\n' + s[s.index(b):]
        open(p, 'w').write(s)
    print(tot, 'theorems;', sum(1 for c in claims.values() if 'row' in c), 'rows')


if __name__ == '__main__':
    main()
