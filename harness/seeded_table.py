#!/usr/bin/env python3
"""Prints the markdown table of seeded changes (seeded/*/meta.json) for DESIGN.md."""
import json, os, glob
HERE = os.path.dirname(os.path.dirname(os.path.abspath(__file__)))
rows = []
def _key(d):
    b = os.path.basename(d); p, k = b.split('-'); return (p, int(k))
for d in sorted(glob.glob(os.path.join(HERE, 'seeded', 'C*-*')), key=_key):
    m = json.load(open(os.path.join(d, 'meta.json')))
    pid = m['breaks']
    c = m.get('checks', {}).get(pid, {})
    first = m.get('first_eval', c)
    now = m.get('checks', {}).get(pid, {})
    def verdict(x):
        if not x: return '?'
        if x.get('rc') == 1:
            st = '+'.join(x.get('stages') or []) or 'proof'
            nf = any('no-failing-input-found' in l for l in x.get('lines', [])) and not any(
                l.startswith('VIOLATION') and 'no-failing-input-found' not in l for l in x.get('lines', []))
            return 'caught (%s%s)' % (st, ', no input' if nf else '')
        return 'MISSED'
    if m.get('judged_outside'):
        rows.append('| %s | %s | %s | %s | %s |' % (os.path.basename(d), (m.get('file') or '').replace('sc3/', ''), (m.get('summary') or '').replace('|', '/')[:150], 'not caught', 'judged outside the property: ' + m['judged_outside'][:120]))
        continue
    rows.append('| %s | %s | %s | %s | %s |' % (os.path.basename(d), (m.get('file') or '').replace('sc3/', ''),
                (m.get('summary') or '').replace('|', '/')[:150], verdict(first), verdict(now)))
print('| seed | file | change | first evaluation | current check |')
print('|---|---|---|---|---|')
print('\n'.join(rows))
