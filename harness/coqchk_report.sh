#!/bin/bash
# Independent re-check of all compiled property files with coqchk; writes /verif/coqchk_report.txt
cd "$(dirname "$0")/../coq" || exit 1
mods=$(for i in $(seq -w 1 20); do echo -n "SC3.props.C$i "; done)
{
  echo "coqchk -silent -o -Q . SC3 SC3.props.C01 ... SC3.props.C20   (run $(date -u +%FT%TZ) on /verif at $(git -C .. rev-parse --short HEAD), /repo at $(git -C /repo rev-parse --short HEAD))"
  echo
  ( time timeout 3000 coqchk -silent -o -Q . SC3 $mods ) 2>&1
  echo "rc=$?"
} > ../coqchk_report.txt
tail -5 ../coqchk_report.txt
