"""Translator target: sc3/base/builtins.py linlin  ->  coq/gen/Gen_maps.v  (property C15, lifting half).

`linlin(x, inmin, inmax, outmin, outmax, clip='minmax')` is the rational member of the range-mapping family
behind the n-ary methods AbstractObject.linlin/linexp/explin/expexp/... (the others use pow/log and are not
executable over num).  Its `clip` parameter is a STRING mode ('minmax' | 'min' | 'max' | None), outside the
translator's numeric grammar, so the function is regenerated once per mode: the parameter is removed, its
occurrences are replaced by the constant and the resulting string comparisons are folded to booleans BEFORE
the (unchanged, fail-closed) FuncTranslator sees the body.  Anything else in the body that is outside the
accepted grammar refuses the target.  Regenerated on every run from the working tree."""
import ast
import copy
import json
import os

from .py2coq import FuncTranslator, Refused
from . import targets as T

MODES = [('minmax', 'minmax'), ('min', 'min'), ('max', 'max'), ('none', None)]
FUNCS = ['linlin']


class _Specialise(ast.NodeTransformer):
    def __init__(self, param, value):
        self.param, self.value = param, value

    def visit_Name(self, n):
        if n.id == self.param:
            if not isinstance(n.ctx, ast.Load):
                raise Refused('assignment to the mode parameter %s' % self.param)
            return ast.copy_location(ast.Constant(self.value), n)
        return n

    def visit_Compare(self, n):
        n = self.generic_visit(n)
        if len(n.ops) == 1 and isinstance(n.left, ast.Constant) and isinstance(n.comparators[0], ast.Constant):
            l, r = n.left.value, n.comparators[0].value
            if all(isinstance(v, str) or v is None for v in (l, r)):
                if isinstance(n.ops[0], ast.Eq):
                    return ast.copy_location(ast.Constant(l == r), n)
                if isinstance(n.ops[0], ast.NotEq):
                    return ast.copy_location(ast.Constant(l != r), n)
                if isinstance(n.ops[0], ast.Is):
                    return ast.copy_location(ast.Constant(l is r), n)
                if isinstance(n.ops[0], ast.IsNot):
                    return ast.copy_location(ast.Constant(l is not r), n)
        return n


def gen_maps(repo, gendir):
    rel = 'sc3/base/builtins.py'
    tree = ast.parse(open(os.path.join(repo, rel)).read())
    funcs = T._funcs(tree)
    errors, done = [], {}
    out = [T.HEADER % rel,
           'From Coq Require Import ZArith QArith Bool.\nRequire Import SC3.lib.PyNum.\nOpen Scope Z_scope.\n']
    for name in FUNCS:
        for tag, value in MODES:
            try:
                fd = funcs.get(name)
                if fd is None:
                    raise Refused('function %s not found' % name)
                if not set(T._decorator(fd)) <= T.SC_DECOS:
                    raise Refused('unexpected decorator on %s: %s' % (name, T._decorator(fd)))
                params = [a.arg for a in fd.args.args]
                if not params or params[-1] != 'clip' or len(fd.args.defaults) != 1 \
                        or not isinstance(fd.args.defaults[0], ast.Constant) or fd.args.defaults[0].value != 'minmax':
                    raise Refused("%s: expected a last parameter clip='minmax'" % name)
                fd2 = copy.deepcopy(fd)
                fd2.args.args = fd2.args.args[:-1]
                fd2.args.defaults = []
                fd2.body = [_Specialise('clip', value).visit(s) for s in fd2.body]
                ast.fix_missing_locations(fd2)
                tr = FuncTranslator('num', {})
                tr.locals = {}
                out.append('(* %s with clip = %r *)' % (name, value))
                out.append(tr.function(fd2, 'py_%s_%s' % (name, tag)))
                done['%s_%s' % (name, tag)] = len(params) - 1
            except Refused as e:
                errors.append({'target': 'Gen_maps', 'error': '%s[clip=%r]: %s' % (name, value, e)})
    T._write(os.path.join(gendir, 'Gen_maps.v'), '\n'.join(out))
    T._write(os.path.join(gendir, 'Gen_maps.json'), json.dumps(done, indent=0, sort_keys=True))
    return errors


GENERATORS = {'Gen_maps': gen_maps}
