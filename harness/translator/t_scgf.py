"""Translator target Gen_scgftables (C02, also usable by C04).

Regenerates from /repo's working tree the tables the SCgf model (coq/model/Scgf.v) needs:
  * `gen_rate_number`  -- UGen._rate_number (sc3/synth/ugen.py): rate name -> rate number, default 0;
  * `gen_rate_names`   -- SynthDesc._RATE_NAME (sc3/synth/synthdesc.py): rate number -> rate name;
  * the class tables of the library's description reader (SynthDesc._read_ugen_spec2):
    `gen_control_classes`   issubclass(cls, AbstractControl)
    `gen_controlname_classes` isinstance(source, Control)   (add_iodesc: bus input -> control name)
    `gen_in_classes`        issubclass(cls, AbstractIn)
    `gen_out_classes`       issubclass(cls, AbstractOut) with the literal returned by _num_fixed_args
    computed from the class statements of sc3/synth/ugens/*.py (transitive, by simple base name).
Fail-closed: the primitives of sc3/synth/_fmtrw.py and the reader methods that give these tables
their meaning (SynthDesc.new_from, _read_synthdef2, _read_ugen_spec2, _check_synthdesc2,
def_name_from_bytes, SynthObject._rate_number) must be, as ASTs, exactly the functions transcribed in
coq/model/Scgf.v (their source is pinned below); otherwise the definitions are left out of the
generated file and everything that depends on them stops compiling.
"""
import ast
import glob
import os

from .py2coq import Refused
from .targets import _write, HEADER

EXPECTED = {'SynthDesc._check_synthdesc2': 'def _check_synthdesc2(self):\n'
                                '    names = set()\n'
                                '    nm = None\n'
                                '\n'
                                "    # For reasons I don't know, synthdef controls can have duplicated\n"
                                '    # names, beacuse control values can be assigned by position. That is\n'
                                "    # not possible if the file was created from this library or sclang's\n"
                                '    # standard interface, unless there is a bug somewhere. For simplicity\n'
                                "    # and consistnecy, I'm considering the files as malformed and throwing\n"
                                '    # an error. This can be review later.\n'
                                '    for cname in self.controls:\n'
                                '        nm = cname.name\n'
                                "        if nm != '?' and nm in names:\n"
                                '            raise SynthDescError(\n'
                                '                f"SynthDesc \'{self.name}\' has duplicated "\n'
                                '                f"control name \'{nm}\'")\n'
                                '        else:\n'
                                '            names.add(nm)\n'
                                '\n'
                                '    if len(names) > 255:\n'
                                '        raise SynthDescError(\n'
                                '            "a SynthDef cannot have more than 255 "\n'
                                '            f"control names (\'{self.name}\')")\n'
                                '\n'
                                "    if 'gate' in names:\n"
                                '        self.has_gate = True',
 'SynthDesc._read_synthdef2': 'def _read_synthdef2(self, stream, keep_def=False):\n'
                              '    with _libsc3.main._def_build_lock:\n'
                              '        try:\n'
                              '            self.inputs = []\n'
                              '            self.outputs = []\n'
                              '            self.control_names = []\n'
                              '            self.control_dict = dict()\n'
                              '\n'
                              '            self.name = frw.read_pascal_str(stream)\n'
                              '\n'
                              '            self.sdef = sdf.SynthDef._dummy(self.name)\n'
                              '            _libsc3.main._current_synthdef = self.sdef\n'
                              '\n'
                              '            num_constants = frw.read_i32(stream)\n'
                              '            self.constants = frw.read_f32_list(stream, num_constants)\n'
                              '\n'
                              '            num_controls = frw.read_i32(stream)\n'
                              '            self.sdef._controls = frw.read_f32_list(stream, num_controls)\n'
                              '            self.controls = [\n'
                              "                iou.ControlName('?', i, '?', self.sdef._controls[i], None)\n"
                              '                for i in range(num_controls)]\n'
                              '\n'
                              '            num_control_names = frw.read_i32(stream)\n'
                              '            for _ in range(num_control_names):\n'
                              '                control_name = frw.read_pascal_str(stream)\n'
                              '                control_index = frw.read_i32(stream)\n'
                              '                self.controls[control_index].name = control_name\n'
                              '                self.control_names.append(control_name)\n'
                              '                self.control_dict[control_name] = \\\n'
                              '                    self.controls[control_index]\n'
                              '\n'
                              '            num_ugens = frw.read_i32(stream)\n'
                              '            for _ in range(num_ugens):\n'
                              '                self._read_ugen_spec2(stream)\n'
                              '\n'
                              '            # Append all default values of each multichannel\n'
                              '            # control to the fist ControlName default value.\n'
                              '            aux_ctrl = None\n'
                              '            for ctrl in self.controls:\n'
                              "                if ctrl.name == '?':\n"
                              '                    default_value = utl.as_list(aux_ctrl.default_value)\n'
                              '                    default_value.append(ctrl.default_value)\n'
                              '                    aux_ctrl.default_value = default_value\n'
                              '                else:\n'
                              '                    aux_ctrl = ctrl\n'
                              '\n'
                              '            self.sdef._control_names = [\n'
                              '                x for x in self.controls if x.name is not None]\n'
                              '            self.has_array_args = any(\n'
                              "                cn.name == '?' for cn in self.controls)\n"
                              '\n'
                              '            num_variants = frw.read_i16(stream)\n'
                              '            self.has_variants = num_variants > 0\n'
                              '            # // maybe later, read in variant names and values\n'
                              '            # // this is harder than it might seem at first\n'
                              '\n'
                              '            self.sdef._constants = dict()\n'
                              '            for i, k in enumerate(self.constants):\n'
                              '                self.sdef._constants[k] = i\n'
                              '\n'
                              '            if not keep_def:\n'
                              '                # // throw away unneeded stuff\n'
                              '                self.sdef = None\n'
                              '                self.constats = None\n'
                              '\n'
                              '            self._check_synthdesc2()\n'
                              '        finally:\n'
                              '            _libsc3.main._current_synthdef = None',
 'SynthDesc._read_ugen_spec2': 'def _read_ugen_spec2(self, stream):\n'
                               '    ugen_class = frw.read_pascal_str(stream)\n'
                               '    try:\n'
                               '        ugen_class = ugns.installed_ugens[ugen_class]\n'
                               '    except KeyError as e:\n'
                               '        raise Exception(\n'
                               '            f"no UGen class found for \'{ugen_class}\' which was "\n'
                               '            f"specified in synthdef file: {self.name}") from e\n'
                               '\n'
                               '    rate_index = frw.read_i8(stream)\n'
                               '    num_inputs = frw.read_i32(stream)\n'
                               '    num_outputs = frw.read_i32(stream)\n'
                               '    special_index = frw.read_i16(stream)\n'
                               '\n'
                               '    # NOTE: _write_input_spec writes _synth_index and _output_index as i32.\n'
                               '    input_specs = frw.read_i32_list(stream, num_inputs * 2)\n'
                               '    output_specs = frw.read_i8_list(stream, num_outputs)  # Not used.\n'
                               '\n'
                               '    ugen_inputs = []\n'
                               '    for i in range(0, len(input_specs), 2):\n'
                               '        ugen_index = input_specs[i]\n'
                               '        output_index = input_specs[i + 1]\n'
                               '        if ugen_index < 0:\n'
                               '            input = self.constants[output_index]\n'
                               '        else:\n'
                               '            ugen = self.sdef._children[ugen_index]\n'
                               '            if isinstance(ugen, ugn.MultiOutUGen):\n'
                               '                input = ugen._channels[output_index]\n'
                               '            else:\n'
                               '                input = ugen\n'
                               '        ugen_inputs.append(input)\n'
                               '\n'
                               '    rate = self._RATE_NAME[rate_index]\n'
                               '    ugen = ugen_class._new_from_desc(\n'
                               '        rate, num_outputs, ugen_inputs, special_index)\n'
                               '    if isinstance(ugen, ugn.OutputProxy):\n'
                               '        ugen = ugen.source_ugen\n'
                               '    ugen._add_to_synth()\n'
                               '\n'
                               '    def add_iodesc(iolst, nchan):  # lambda\n'
                               '        b = ugen.inputs[0]\n'
                               '        if type(b) is ugn.OutputProxy\\\n'
                               '        and isinstance(b.source_ugen, iou.Control):\n'
                               '            control = None\n'
                               '            cmp_index = b._output_index + b.source_ugen._special_index\n'
                               '            for item in self.controls:  # detect\n'
                               '                if item.index == cmp_index:\n'
                               '                    control = item\n'
                               '                    break\n'
                               '            if control is not None:\n'
                               '                b = control.name\n'
                               '        iolst.append(IODesc(rate, nchan, b, ugen_class))\n'
                               '\n'
                               '    if issubclass(ugen_class, iou.AbstractControl):\n'
                               '        # // Control.newFromDesc does not set the specialIndex, since it\n'
                               "        # // doesn't call Control-init. Therefore we fill it in here.\n"
                               '        ugen._special_index = special_index\n'
                               '        for i in range(num_outputs):\n'
                               '            self.controls[i + special_index].rate = rate\n'
                               '    elif issubclass(ugen_class, iou.AbstractIn):\n'
                               '        add_iodesc(self.inputs, len(ugen._channels))\n'
                               '    elif issubclass(ugen_class, iou.AbstractOut):\n'
                               '        add_iodesc(self.outputs, ugen._num_audio_channels())',
 'SynthDesc.def_name_from_bytes': 'def def_name_from_bytes(cls, data: bytearray):\n'
                                  '    # // parse the def name out of the bytes array sent with /d_recv\n'
                                  '    stream = io.BytesIO(data)\n'
                                  '    stream.read(4)  # getInt32 // SCgf\n'
                                  '    version = frw.read_i32(stream)  # Not used.\n'
                                  '    num_defs = frw.read_i16(stream)  # Not used.\n'
                                  '    return frw.read_pascal_str(stream)',
 'SynthDesc.new_from': 'def new_from(cls, synthdef, keep_def=True):\n'
                       '    stream = io.BytesIO(synthdef.as_bytes())\n'
                       '    stream.read(4)  # SCgf\n'
                       '    version = frw.read_i32(stream)\n'
                       '    num_defs = frw.read_i16(stream)  # Always 1 here. Not used.\n'
                       '    desc = cls()  # desc = SynthDesc()\n'
                       '    if version >= 2:\n'
                       '        desc._read_synthdef2(stream, keep_def)\n'
                       '    else:\n'
                       '        desc._read_synthdef(stream, keep_def)\n'
                       '    desc.metadata = synthdef.metadata\n'
                       '    if keep_def:\n'
                       '        desc.sdef = synthdef\n'
                       '    return desc',
 'SynthObject._rate_number': 'def _rate_number(self):\n'
                             "    if self.rate == 'audio': return 2\n"
                             "    if self.rate == 'control': return 1\n"
                             "    if self.rate == 'demand': return 3\n"
                             '    return 0',
 'fmtrw.read_f32_list': 'def read_f32_list(stream, n):  # read FloatArray\n'
                        '    data = stream.read(n * 4)\n'
                        "    return list(struct.unpack('>' + 'f' * n, data))",
 'fmtrw.read_i16': "def read_i16(stream):  # getInt16\n    return struct.unpack('>h', stream.read(2))[0]",
 'fmtrw.read_i32': "def read_i32(stream):  # getInt32\n    return struct.unpack('>i', stream.read(4))[0]",
 'fmtrw.read_i32_list': 'def read_i32_list(stream, n):  # read Int32Array\n'
                        '    data = stream.read(n * 4)\n'
                        "    return list(struct.unpack('>' + 'i' * n, data))",
 'fmtrw.read_i8': "def read_i8(stream):  # getInt8\n    return struct.unpack('b', stream.read(1))[0]",
 'fmtrw.read_i8_list': 'def read_i8_list(stream, n):  # read Int8Array\n'
                       '    data = stream.read(n)\n'
                       "    return list(struct.unpack('b' * n, data))",
 'fmtrw.read_pascal_str': 'def read_pascal_str(stream):  # getPascalString\n'
                          "    str_len = struct.unpack('B', stream.read(1))[0]\n"
                          "    return str(stream.read(str_len), 'ascii')",
 'fmtrw.write_f32': "def write_f32(stream, value):  # putFloat\n    stream.write(struct.pack('>f', value))",
 'fmtrw.write_i16': "def write_i16(stream, value):  # putInt16\n    stream.write(struct.pack('>h', value))",
 'fmtrw.write_i32': "def write_i32(stream, value):  # putInt32\n    stream.write(struct.pack('>i', value))",
 'fmtrw.write_i8': "def write_i8(stream, value):  # putInt8\n    stream.write(struct.pack('b', value))",
 'fmtrw.write_pascal_str': 'def write_pascal_str(stream, string):  # putPascalString\n'
                           "    stream.write(struct.pack('B', len(string)))  # unsigned int8 -> bytes\n"
                           "    stream.write(bytes(string, 'ascii'))"}


def _norm(fd):
    """dump of a function without decorators and docstring."""
    body = fd.body
    if body and isinstance(body[0], ast.Expr) and isinstance(body[0].value, ast.Constant) and isinstance(body[0].value.value, str):
        body = body[1:]
    fd = ast.FunctionDef(name=fd.name, args=fd.args, body=body, decorator_list=[], returns=None)
    return ast.dump(fd, annotate_fields=True, include_attributes=False)


def _expect(key):
    return _norm(ast.parse(EXPECTED[key]).body[0])


def _funcs(tree, cls=None):
    body = tree.body
    if cls is not None:
        found = [n for n in tree.body if isinstance(n, ast.ClassDef) and n.name == cls]
        if len(found) != 1:
            raise Refused('class %s not found' % cls)
        body = found[0].body
    return {n.name: n for n in body if isinstance(n, ast.FunctionDef)}, body


def _coq_str(s):
    if not (isinstance(s, str) and all(32 <= ord(c) < 127 for c in s)):
        raise Refused('not a printable ASCII string: %r' % (s,))
    return '"' + s.replace('"', '""') + '"'


def _check(funcs, prefix, names):
    for n in names:
        if n not in funcs:
            raise Refused('%s%s not found' % (prefix, n))
        if _norm(funcs[n]) != _expect(prefix + n):
            raise Refused('%s%s is not the function the model transcribes' % (prefix, n))


def _base_name(b):
    if isinstance(b, ast.Name):
        return b.id
    if isinstance(b, ast.Attribute):
        return b.attr
    return None


def _classes(repo):
    """class name -> (base simple names, literal returned by _num_fixed_args or None) over ugens/*.py"""
    out = {}
    for path in sorted(glob.glob(os.path.join(repo, 'sc3/synth/ugens/*.py'))):
        tree = ast.parse(open(path).read())
        for n in ast.walk(tree):
            if isinstance(n, ast.ClassDef):
                fixed = None
                for m in n.body:
                    if isinstance(m, ast.FunctionDef) and m.name == '_num_fixed_args':
                        st = [x for x in m.body if not (isinstance(x, ast.Expr) and isinstance(x.value, ast.Constant))]
                        if len(st) == 1 and isinstance(st[0], ast.Return) and isinstance(st[0].value, ast.Constant) \
                                and type(st[0].value.value) is int:
                            fixed = st[0].value.value
                        elif len(st) == 1 and isinstance(st[0], ast.Raise):
                            fixed = 'abstract'
                        else:
                            raise Refused('%s._num_fixed_args does not return an int literal' % n.name)
                bases = [_base_name(b) for b in n.bases]
                if n.name in out and out[n.name] != (bases, fixed):
                    raise Refused('class %s defined twice with different bases' % n.name)
                out[n.name] = (bases, fixed)
    return out


def _subclasses(classes, root):
    """root and every class deriving from it (definition order kept stable by sorting)."""
    if root not in classes:
        raise Refused('class %s not found in sc3/synth/ugens' % root)
    got = {root}
    changed = True
    while changed:
        changed = False
        for name, (bases, _) in classes.items():
            if name not in got and any(b in got for b in bases):
                got.add(name)
                changed = True
    return sorted(got)


def _fixed_args(classes, name):
    seen = set()
    while name in classes and name not in seen:
        seen.add(name)
        bases, fixed = classes[name]
        if fixed is not None:
            return fixed
        name = bases[0] if bases else None
    return None


def gen_scgftables(repo, gendir):
    errors = []
    out = [HEADER % 'sc3/synth/_fmtrw.py, sc3/synth/ugen.py, sc3/synth/synthdesc.py, sc3/synth/ugens/*.py',
           'From Coq Require Import ZArith List String.\nImport ListNotations.\nLocal Open Scope string_scope.\n']
    try:
        # ---- primitives and reader methods: must be the transcribed ones
        fr, _ = _funcs(ast.parse(open(os.path.join(repo, 'sc3/synth/_fmtrw.py')).read()))
        _check(fr, 'fmtrw.', [k.split('.', 1)[1] for k in EXPECTED if k.startswith('fmtrw.')])
        extra = sorted(set(fr) - set(k.split('.', 1)[1] for k in EXPECTED if k.startswith('fmtrw.')))
        if extra:
            raise Refused('_fmtrw.py has primitives the model does not know: %s' % extra)
        sd_tree = ast.parse(open(os.path.join(repo, 'sc3/synth/synthdesc.py')).read())
        sd, sd_body = _funcs(sd_tree, 'SynthDesc')
        _check(sd, 'SynthDesc.', [k.split('.', 1)[1] for k in EXPECTED if k.startswith('SynthDesc.')])
        ug, _ = _funcs(ast.parse(open(os.path.join(repo, 'sc3/synth/ugen.py')).read()), 'SynthObject')
        _check(ug, 'SynthObject.', ['_rate_number'])
        # ---- rate tables
        # _rate_number: if self.rate == NAME: return N ... return DEFAULT
        rn = []
        default = None
        for st in ug['_rate_number'].body:
            if isinstance(st, ast.If):
                rn.append((st.test.comparators[0].value, st.body[0].value.value))
            elif isinstance(st, ast.Return):
                default = st.value.value
        if default is None or not rn:
            raise Refused('_rate_number: unexpected shape')
        names = None
        for n in sd_body:
            if isinstance(n, ast.Assign) and len(n.targets) == 1 and isinstance(n.targets[0], ast.Name) \
                    and n.targets[0].id == '_RATE_NAME':
                if not (isinstance(n.value, ast.Tuple) and all(isinstance(e, ast.Constant) and isinstance(e.value, str) for e in n.value.elts)):
                    raise Refused('_RATE_NAME is not a tuple of string literals')
                names = [e.value for e in n.value.elts]
        if names is None:
            raise Refused('SynthDesc._RATE_NAME not found')
        out.append('(* UGen._rate_number: rate name -> number; any other rate (scalar, None) -> the default *)')
        out.append('Definition gen_rate_number : list (string * Z) := [%s].' % '; '.join(
            '(%s, %d%%Z)' % (_coq_str(a), b) for a, b in rn))
        out.append('Definition gen_rate_default : Z := %d%%Z.' % default)
        out.append('(* SynthDesc._RATE_NAME, used by index *)')
        out.append('Definition gen_rate_names : list string := [%s].\n' % '; '.join(_coq_str(x) for x in names))
        # ---- class tables
        classes = _classes(repo)
        ctl = _subclasses(classes, 'AbstractControl')
        ctlname = _subclasses(classes, 'Control')
        ins = _subclasses(classes, 'AbstractIn')
        outs = []
        for name in _subclasses(classes, 'AbstractOut'):
            fx = _fixed_args(classes, name)
            if fx == 'abstract':
                continue               # the abstract root raises NotImplementedError
            if fx is None:
                raise Refused('no _num_fixed_args for output class %s' % name)
            outs.append((name, fx))
        out.append('(* issubclass(ugen_class, iou.AbstractControl) *)')
        out.append('Definition gen_control_classes : list string := [%s].' % '; '.join(_coq_str(x) for x in ctl))
        out.append('(* isinstance(b.source_ugen, iou.Control) in add_iodesc *)')
        out.append('Definition gen_controlname_classes : list string := [%s].' % '; '.join(_coq_str(x) for x in ctlname))
        out.append('(* issubclass(ugen_class, iou.AbstractIn) *)')
        out.append('Definition gen_in_classes : list string := [%s].' % '; '.join(_coq_str(x) for x in ins))
        out.append('(* issubclass(ugen_class, iou.AbstractOut), with type(self)._num_fixed_args() *)')
        out.append('Definition gen_out_classes : list (string * Z) := [%s].\n' % '; '.join(
            '(%s, %d%%Z)' % (_coq_str(a), b) for a, b in outs))
    except (Refused, SyntaxError, OSError, AttributeError, IndexError, KeyError) as e:
        errors.append({'target': 'Gen_scgftables', 'error': '%s' % (e,)})
        out = out[:2] + ['(* REFUSED: %s *)\n' % str(e).replace('*)', '* )')]
    _write(os.path.join(gendir, 'Gen_scgftables.v'), '\n'.join(out))
    return errors


GENERATORS = {'Gen_scgftables': gen_scgftables}
