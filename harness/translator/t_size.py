"""Translator target: sc3/base/netaddr.py NetAddr._strpad4  ->  coq/gen/Gen_size.v  (property C06).

Regenerated on every run from the working tree, fail-closed.  The other size functions
(_calc_msg_dgram_size, _calc_bndl_dgram_size, _clump_bundle) loop over lists and are hand-modelled in
coq/model/OscSize.v; proofs/C06_gen.v shows that the hand-written [strpad4] used there is this
regenerated definition on ints."""
import ast
import os

from .py2coq import FuncTranslator, Refused
from . import targets as T


def gen_size(repo, gendir):
    rel = 'sc3/base/netaddr.py'
    tree = ast.parse(open(os.path.join(repo, rel)).read())
    errors = []
    out = [T.HEADER % rel,
           'From Coq Require Import ZArith QArith Bool.\nRequire Import SC3.lib.PyNum.\nOpen Scope Z_scope.\n']
    try:
        cls = [n for n in tree.body if isinstance(n, ast.ClassDef) and n.name == 'NetAddr']
        if not cls:
            raise Refused('class NetAddr not found')
        fds = [n for n in cls[0].body if isinstance(n, ast.FunctionDef) and n.name == '_strpad4']
        if not fds:
            raise Refused('NetAddr._strpad4 not found')
        fd = fds[0]
        if T._decorator(fd) != ['staticmethod']:
            raise Refused('unexpected decorator on _strpad4: %s' % T._decorator(fd))
        tr = FuncTranslator('num', {})
        tr.locals = {}
        out.append(tr.function(fd, 'py__strpad4'))
    except Refused as e:
        errors.append({'target': 'Gen_size', 'error': '_strpad4: %s' % e})
    T._write(os.path.join(gendir, 'Gen_size.v'), '\n'.join(out))
    return errors


GENERATORS = {'Gen_size': gen_size}
