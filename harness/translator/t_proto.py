"""Translator target for C17: sc3/synth/node.py -> coq/gen/Gen_proto.v

Regenerated on every run from the working tree (fail-closed):
  * add_actions_s : list (string * Z)   = the string keys of Node.add_actions, in source order
  * add_actions_i : list (Z * Z)        = the int keys of Node.add_actions
  * group_creation_cmd, pargroup_creation_cmd : string = the literal returned by
    Group.creation_cmd / ParGroup.creation_cmd
Anything that does not have exactly the expected syntactic form is refused; the definition is
left out and the model that mentions it stops compiling.
"""
import ast
import os

from .py2coq import Refused
from . import targets as T

SRC = 'sc3/synth/node.py'


def _z(n):
    return '(%d)%%Z' % n if n < 0 else '%d%%Z' % n


def _int_lit(node, what):
    if isinstance(node, ast.UnaryOp) and isinstance(node.op, ast.USub):
        return -_int_lit(node.operand, what)
    if isinstance(node, ast.Constant) and type(node.value) is int:
        return node.value
    raise Refused('%s: int literal expected at line %s' % (what, getattr(node, 'lineno', '?')))


def add_actions(cls):
    for n in cls.body:
        if isinstance(n, ast.Assign) and len(n.targets) == 1 and isinstance(n.targets[0], ast.Name) \
                and n.targets[0].id == 'add_actions':
            d = n.value
            if not isinstance(d, ast.Dict):
                raise Refused('add_actions is not a dict literal')
            srows, irows = [], []
            for k, v in zip(d.keys, d.values):
                val = _int_lit(v, 'add_actions value')
                if isinstance(k, ast.Constant) and type(k.value) is str:
                    if not all(32 <= ord(c) < 127 and c != '"' for c in k.value):
                        raise Refused('add_actions key outside printable ASCII')
                    if k.value in [r[0] for r in srows]:
                        raise Refused('duplicate key %r' % k.value)
                    srows.append((k.value, val))
                else:
                    kk = _int_lit(k, 'add_actions key')
                    if kk in [r[0] for r in irows]:
                        raise Refused('duplicate key %r' % kk)
                    irows.append((kk, val))
            return srows, irows
    raise Refused('Node.add_actions not found')


def creation_cmd(cls, name):
    if cls is None:
        raise Refused('class %s not found' % name)
    for n in cls.body:
        if isinstance(n, ast.FunctionDef) and n.name == 'creation_cmd':
            body = [b for b in n.body if not (isinstance(b, ast.Expr) and isinstance(b.value, ast.Constant))]
            if len(body) == 1 and isinstance(body[0], ast.Return) and isinstance(body[0].value, ast.Constant) \
                    and type(body[0].value.value) is str:
                sv = body[0].value.value
                if not all(32 <= ord(c) < 127 and c != '"' for c in sv):
                    raise Refused('creation_cmd outside printable ASCII')
                return sv
            raise Refused('%s.creation_cmd is not a single return of a string literal' % name)
    raise Refused('%s.creation_cmd not found' % name)


def gen_proto(repo, gendir):
    errors = []
    tree = ast.parse(open(os.path.join(repo, SRC)).read())
    classes = T._classes(tree)
    out = [T.HEADER % SRC,
           'From Coq Require Import ZArith String List.\nImport ListNotations.\nOpen Scope string_scope.\n']

    def attempt(name, fn):
        try:
            out.append(fn())
        except Refused as e:
            errors.append({'target': 'Gen_proto', 'error': '%s: %s' % (name, e)})

    def tables():
        if 'Node' not in classes:
            raise Refused('class Node not found')
        srows, irows = add_actions(classes['Node'])
        return ('Definition add_actions_s : list (string * Z) :=\n [%s].\n' % ';\n  '.join('("%s", %s)' % (k, _z(v)) for k, v in srows)
                + 'Definition add_actions_i : list (Z * Z) :=\n [%s].\n' % '; '.join('(%s, %s)' % (_z(k), _z(v)) for k, v in irows))
    attempt('add_actions', tables)
    attempt('group_creation_cmd', lambda: 'Definition group_creation_cmd : string := "%s".\n' % creation_cmd(classes.get('Group'), 'Group'))
    attempt('pargroup_creation_cmd', lambda: 'Definition pargroup_creation_cmd : string := "%s".\n' % creation_cmd(classes.get('ParGroup'), 'ParGroup'))
    T._write(os.path.join(gendir, 'Gen_proto.v'), '\n'.join(out))
    return errors


GENERATORS = {'Gen_proto': gen_proto}
