"""Translator target Gen_opcodes (C01, C20).

Regenerates from /repo's working tree
  * the operator tables `_unops_list` / `_binops_list` of sc3/synth/_specialindex.py
    (literal lists of tuples of strings) as Coq `list (list string)`; the lookup code
    (`_build_op_dict`, `sc_spindex_opname`, `sc_opname`) must have exactly the shape the
    model's `sc_spindex_opname` transcribes (compared as ast dumps), otherwise refused;
  * `dce_strict`: whether UGen._perform_dead_code_elimination removes `self` from an
    input's descendant set with `set.remove` (raises KeyError when absent) or with
    `set.discard`; every other token of that method must be as transcribed in
    coq/model/Graph.v (`opt_unit`), otherwise refused.
Fail-closed: anything else raises Refused and the generated file is not (re)written
with the definition, so the proofs and the correspondence stop compiling.
"""
import ast
import os

from .py2coq import Refused
from .targets import _write, HEADER

EXPECT_BUILD = ("FunctionDef(name='_build_op_dict', args=arguments(posonlyargs=[], args=[arg(arg='oplist')], kwonlyargs=[], "
                "kw_defaults=[], defaults=[]), body=[Assign(targets=[Name(id='ret', ctx=Store())], value=Call(func=Name(id='dict', "
                "ctx=Load()), args=[], keywords=[])), For(target=Tuple(elts=[Name(id='i', ctx=Store()), Name(id='item', ctx=Store())], "
                "ctx=Store()), iter=Call(func=Name(id='enumerate', ctx=Load()), args=[Name(id='oplist', ctx=Load())], keywords=[]), "
                "body=[For(target=Name(id='name', ctx=Store()), iter=Name(id='item', ctx=Load()), body=[Assign(targets=[Subscript("
                "value=Name(id='ret', ctx=Load()), slice=Name(id='name', ctx=Load()), ctx=Store())], value=List(elts=[Name(id='i', "
                "ctx=Load()), Subscript(value=Name(id='item', ctx=Load()), slice=Constant(value=0), ctx=Load())], ctx=Load()))], "
                "orelse=[])], orelse=[]), Return(value=Name(id='ret', ctx=Load()))], decorator_list=[])")


def _strip_doc(fd):
    body = fd.body
    if body and isinstance(body[0], ast.Expr) and isinstance(body[0].value, ast.Constant) and isinstance(body[0].value.value, str):
        fd = ast.FunctionDef(name=fd.name, args=fd.args, body=body[1:], decorator_list=fd.decorator_list)
    return fd


def _dump(node):
    return ast.dump(node, annotate_fields=True, include_attributes=False)


def _coq_str(s):
    if not all(32 <= ord(c) < 127 for c in s):
        raise Refused('non-ASCII operator name %r' % s)
    return '"' + s.replace('"', '""') + '"'


def _table(tree, name):
    for n in tree.body:
        if isinstance(n, ast.Assign) and len(n.targets) == 1 and isinstance(n.targets[0], ast.Name) and n.targets[0].id == name:
            if not isinstance(n.value, ast.List):
                raise Refused('%s is not a list literal' % name)
            rows = []
            for e in n.value.elts:
                if not (isinstance(e, ast.Tuple) and e.elts and all(isinstance(x, ast.Constant) and isinstance(x.value, str) for x in e.elts)):
                    raise Refused('%s: row is not a tuple of string literals (line %d)' % (name, e.lineno))
                rows.append([x.value for x in e.elts])
            return rows
    raise Refused('%s not found' % name)


# --- expected shape of the lookup functions (hash of a normalised dump computed at build time)
def _lookup_shape(tree):
    out = {}
    for n in tree.body:
        if isinstance(n, ast.FunctionDef) and n.name in ('_build_op_dict', 'sc_spindex_opname', 'special_index', 'sc_opname'):
            out[n.name] = _dump(_strip_doc(n))
        if isinstance(n, ast.Assign) and len(n.targets) == 1 and isinstance(n.targets[0], ast.Name) and n.targets[0].id in ('_unops', '_binops'):
            out[n.targets[0].id] = _dump(n.value)
    return out


EXPECT_LOOKUP = {
    '_unops': "Call(func=Name(id='_build_op_dict', ctx=Load()), args=[Name(id='_unops_list', ctx=Load())], keywords=[])",
    '_binops': "Call(func=Name(id='_build_op_dict', ctx=Load()), args=[Name(id='_binops_list', ctx=Load())], keywords=[])",
    'sc_spindex_opname': None,   # filled below from the transcription
}
# sc_spindex_opname: try _unops[operator]; except KeyError: pass; try _binops[operator]; except KeyError: pass; return (-1, None)
_SRC_SPINDEX = '''
def sc_spindex_opname(operator):
    try: return _unops[operator]
    except KeyError: pass
    try: return _binops[operator]
    except KeyError: pass
    return (-1, None)
'''
_SRC_OPNAME = '''
def sc_opname(operator):
    ret = sc_spindex_opname(operator)
    return ret[1]
'''
_SRC_BUILD = '''
def _build_op_dict(oplist):
    ret = dict()
    for i, item in enumerate(oplist):
        for name in item:
            ret[name] = [i, item[0]]
    return ret
'''
_SRC_DCE = '''
def _perform_dead_code_elimination(self):
    if not self._descendants:
        for input in self.inputs:
            if isinstance(input, UGen) and input._descendants:
                input._descendants.REMOVE(self)
                input._optimize_graph()
        self._synthdef._remove_ugen(self)
        return True
    return False
'''
# the same method with the liveness guard (only an input that is still part of the graph is optimised)
_SRC_DCE_GUARD = '''
def _perform_dead_code_elimination(self):
    if not self._descendants:
        for input in self.inputs:
            if isinstance(input, UGen) and input._descendants:
                input._descendants.REMOVE(self)
                if self._synthdef._children[input._synth_index] is input:
                    input._optimize_graph()
        self._synthdef._remove_ugen(self)
        return True
    return False
'''


_SRC_SUB = '''
def _optimize_sub(self):
    a, b = self.inputs
    if isinstance(b, UnaryOpUGen) and b.operator == 'neg' and len(b._descendants) == 1:
        self._synthdef._remove_ugen(b)
        replacement = BinaryOpUGen.new('+', a, b.inputs[0])
        replacement._descendants = self._descendants
        self._optimize_update_descendants(replacement, b)
        self._synthdef._replace_ugen(self, replacement)
        replacement._optimize_graph()
'''
_SRC_SUB_GUARD = '''
def _optimize_sub(self):
    a, b = self.inputs
    if a is b:
        return None
    if isinstance(b, UnaryOpUGen) and b.operator == 'neg' and len(b._descendants) == 1:
        self._synthdef._remove_ugen(b)
        replacement = BinaryOpUGen.new('+', a, b.inputs[0])
        replacement._descendants = self._descendants
        self._optimize_update_descendants(replacement, b)
        self._synthdef._replace_ugen(self, replacement)
        replacement._optimize_graph()
'''


def _fn(src):
    return _dump(ast.parse(src).body[0])


_CTX_TARGET = ("Attribute(value=Attribute(value=Name(id='_libsc3', ctx=Load()), attr='main', ctx=Load()), "
               "attr='_current_synthdef', ctx=Store())")
_LOCK = ("Attribute(value=Attribute(value=Name(id='_libsc3', ctx=Load()), attr='main', ctx=Load()), "
         "attr='_def_build_lock', ctx=Load())")


def _is_ctx_reset(stmt):
    """`_libsc3.main._current_synthdef = None` (or `= <saved previous value>`)."""
    return (isinstance(stmt, ast.Assign) and len(stmt.targets) == 1 and _dump(stmt.targets[0]) == _CTX_TARGET
            and ((isinstance(stmt.value, ast.Constant) and stmt.value.value is None) or isinstance(stmt.value, ast.Name)))


def _locked_try(body, what):
    """body = [`with main._def_build_lock:` [simple assignments...] `try: ...`] -> the Try node."""
    if not (len(body) == 1 and isinstance(body[0], ast.With) and len(body[0].items) == 1
            and _dump(body[0].items[0].context_expr) == _LOCK and body[0].body
            and isinstance(body[0].body[-1], ast.Try)
            and all(isinstance(x, ast.Assign) for x in body[0].body[:-1])):
        raise Refused('%s is not `with main._def_build_lock: try: ...`' % what)
    return body[0].body[-1]


# ---- methods the model transcribes by hand (coq/model/Graph.v): pinned by AST (comments / docstrings ignored)
_PINNED = [
    ('sc3/synth/synthdef.py', 'SynthDef', '_add_ugen', '''def _add_ugen(self, ugen):
    if not self._rewrite_in_progress:
        ugen._synth_index = len(self._children)
        ugen._width_first_antecedents = self._width_first_ugens[:]
        self._children.append(ugen)'''),
    ('sc3/synth/synthdef.py', 'SynthDef', '_remove_ugen', '''def _remove_ugen(self, ugen):
    self._children[ugen._synth_index] = None'''),
    ('sc3/synth/synthdef.py', 'SynthDef', '_replace_ugen', '''def _replace_ugen(self, a, b):
    if not isinstance(b, ugn.SynthObject):
        raise Exception('_replace_ugen assumes a SynthObject')
    b._width_first_antecedents = a._width_first_antecedents
    b._descendants = a._descendants
    b._synth_index = a._synth_index
    self._children[a._synth_index] = b
    for item in self._children:
        if item is not None:
            for i, input in enumerate(item.inputs):
                if input is a:
                    aux = list(item.inputs)
                    aux[i] = b
                    item._inputs = tuple(aux)'''),
    ('sc3/synth/synthdef.py', 'SynthDef', '_index_ugens', '''def _index_ugens(self):
    for i, ugen in enumerate(self._children):
        ugen._synth_index = i'''),
    ('sc3/synth/synthdef.py', 'SynthDef', '_topological_sort', '''def _topological_sort(self):
    self._init_topo_sort()
    ugen = None
    out_stack = []
    while len(self._available) > 0:
        ugen = self._available.pop()
        ugen._arrange(out_stack)
    self._children = out_stack
    self._cleanup_topo_sort()'''),
    ('sc3/synth/synthdef.py', 'SynthDef', '_cleanup_topo_sort', '''def _cleanup_topo_sort(self):
    for ugen in self._children:
        ugen._antecedents = set()
        ugen._descendants = set()
        ugen._width_first_antecedents = []'''),
    ('sc3/synth/synthdef.py', 'SynthDef', '_add_constant', '''def _add_constant(self, value):
    if value not in self._constant_set:
        self._constant_set.add(value)
        self._constants[value] = len(self._constants)'''),
    ('sc3/synth/ugen.py', 'SynthObject', '_make_available', '''def _make_available(self):
    if not self._antecedents:
        self._synthdef._available.append(self)'''),
    ('sc3/synth/ugen.py', 'SynthObject', '_remove_antecedent', '''def _remove_antecedent(self, ugen):
    self._antecedents.remove(ugen)
    self._make_available()'''),
    ('sc3/synth/ugen.py', 'SynthObject', '_arrange', '''def _arrange(self, out_stack):
    descendants = list(self._descendants)
    descendants.sort(key=lambda x: x._synth_index)
    for ugen in reversed(descendants):
        ugen._remove_antecedent(self)
    out_stack.append(self)'''),
    ('sc3/synth/ugen.py', 'SynthObject', '_init_topo_sort', '''def _init_topo_sort(self):
    for input in self.inputs:
        if isinstance(input, UGen):
            if isinstance(input, OutputProxy):
                ugen = input.source_ugen
            else:
                ugen = input
            if ugen._synthdef is not self._synthdef:
                raise ValueError(f'{type(self).__name__} input {type(ugen).__name__} was not created by this SynthDef graph function')
            self._antecedents.add(ugen)
            ugen._descendants.add(self)
    for ugen in self._width_first_antecedents:
        self._antecedents.add(ugen)
        ugen._descendants.add(self)'''),
]


def _check_pinned(repo):
    """Every hand-transcribed method of the graph compiler still has the transcribed shape."""
    changed = []
    cache = {}
    for path, cls, name, src in _PINNED:
        if path not in cache:
            cache[path] = ast.parse(open(os.path.join(repo, path)).read())
        fd = None
        for n in cache[path].body:
            if isinstance(n, ast.ClassDef) and n.name == cls:
                for m in n.body:
                    if isinstance(m, ast.FunctionDef) and m.name == name:
                        fd = m
        if fd is None or _dump(_strip_doc(fd)) != _dump(_strip_doc(ast.parse(src).body[0])):
            changed.append('%s.%s' % (cls, name))
    if changed:
        raise Refused('the model transcribes %s by hand and the method%s changed'
                      % (', '.join(changed), '' if len(changed) == 1 else 's'))


def gen_opcodes(repo, gendir):
    errors = []
    out = [HEADER % 'sc3/synth/_specialindex.py, sc3/synth/ugen.py',
           'From Coq Require Import List String.\nImport ListNotations.\nOpen Scope string_scope.\n']
    # ---- operator tables
    try:
        tree = ast.parse(open(os.path.join(repo, 'sc3/synth/_specialindex.py')).read())
        shape = _lookup_shape(tree)
        for name, src in (('sc_spindex_opname', _SRC_SPINDEX), ('sc_opname', _SRC_OPNAME), ('_build_op_dict', _SRC_BUILD)):
            if shape.get(name) != _fn(src):
                raise Refused('%s is not the function the model transcribes' % name)
        for name in ('_unops', '_binops'):
            if shape.get(name) != EXPECT_LOOKUP[name]:
                raise Refused('%s is not built by _build_op_dict from its list' % name)
        for cname, pyname in (('unops_list', '_unops_list'), ('binops_list', '_binops_list')):
            rows = _table(tree, pyname)
            out.append('Definition %s : list (list string) := [\n  %s\n].\n' % (
                cname, ';\n  '.join('[' + '; '.join(_coq_str(x) for x in r) + ']' for r in rows)))
    except (Refused, SyntaxError, OSError) as e:
        errors.append({'target': 'Gen_opcodes', 'error': 'operator tables: %s' % e})
    # ---- DCE removal mode
    try:
        tree = ast.parse(open(os.path.join(repo, 'sc3/synth/ugen.py')).read())
        fd = None
        for n in tree.body:
            if isinstance(n, ast.ClassDef) and n.name == 'SynthObject':
                for m in n.body:
                    if isinstance(m, ast.FunctionDef) and m.name == '_perform_dead_code_elimination':
                        fd = m
        if fd is None:
            raise Refused('SynthObject._perform_dead_code_elimination not found')
        fd = _strip_doc(fd)
        modes = []

        class V(ast.NodeTransformer):
            def visit_Attribute(self, node):
                self.generic_visit(node)
                if (node.attr in ('remove', 'discard') and isinstance(node.value, ast.Attribute)
                        and node.value.attr == '_descendants'):
                    modes.append(node.attr)
                    return ast.Attribute(value=node.value, attr='REMOVE', ctx=node.ctx)
                return node
        norm = V().visit(fd)
        shape = _dump(norm)
        if len(modes) != 1 or shape not in (_fn(_SRC_DCE), _fn(_SRC_DCE_GUARD)):
            raise Refused('_perform_dead_code_elimination is not the method the model transcribes')
        out.append('(* input._descendants.%s(self) *)\nDefinition dce_strict : bool := %s.\n' % (
            modes[0], 'true' if modes[0] == 'remove' else 'false'))
        out.append('(* `if self._synthdef._children[input._synth_index] is input:` guards input._optimize_graph() *)\n'
                   'Definition dce_guard : bool := %s.\n' % ('true' if shape == _fn(_SRC_DCE_GUARD) else 'false'))
        fd = None
        for n in tree.body:
            if isinstance(n, ast.ClassDef) and n.name == 'BinaryOpUGen':
                for m in n.body:
                    if isinstance(m, ast.FunctionDef) and m.name == '_optimize_sub':
                        fd = m
        if fd is None:
            raise Refused('BinaryOpUGen._optimize_sub not found')
        shape = _dump(_strip_doc(fd))
        if shape not in (_fn(_SRC_SUB), _fn(_SRC_SUB_GUARD)):
            raise Refused('_optimize_sub is not the method the model transcribes')
        out.append('(* `if a is b: return None` at the start of _optimize_sub *)\n'
                   'Definition sub_guard : bool := %s.\n' % ('true' if shape == _fn(_SRC_SUB_GUARD) else 'false'))
    except (Refused, SyntaxError, OSError) as e:
        errors.append({'target': 'Gen_opcodes', 'error': 'dead code elimination: %s' % e})
    try:
        _check_pinned(repo)
    except (Refused, SyntaxError, OSError) as e:
        errors.append({'target': 'Gen_opcodes', 'error': 'graph compiler: %s' % e})
    # ---- SynthDesc._read_synthdef2: is the build context reset in a `finally:` clause?
    try:
        tree = ast.parse(open(os.path.join(repo, 'sc3/synth/synthdesc.py')).read())
        fd = None
        for n in tree.body:
            if isinstance(n, ast.ClassDef) and n.name == 'SynthDesc':
                for m in n.body:
                    if isinstance(m, ast.FunctionDef) and m.name == '_read_synthdef2':
                        fd = m
        if fd is None:
            raise Refused('SynthDesc._read_synthdef2 not found')
        body = _strip_doc(fd).body
        tr = _locked_try(body, '_read_synthdef2')
        fin = (not tr.handlers and not tr.orelse and len(tr.finalbody) == 1 and _is_ctx_reset(tr.finalbody[0]))
        out.append('(* SynthDesc._read_synthdef2 resets main._current_synthdef in a `finally:` clause *)\n'
                   'Definition desc_read_finally : bool := %s.\n' % ('true' if fin else 'false'))
    except (Refused, SyntaxError, OSError) as e:
        errors.append({'target': 'Gen_opcodes', 'error': 'description reader: %s' % e})
    # ---- SynthDef._build: is the build context reset whatever is raised (finally / except BaseException)?
    try:
        tree = ast.parse(open(os.path.join(repo, 'sc3/synth/synthdef.py')).read())
        fd = None
        for n in tree.body:
            if isinstance(n, ast.ClassDef) and n.name == 'SynthDef':
                for m in n.body:
                    if isinstance(m, ast.FunctionDef) and m.name == '_build':
                        fd = m
        if fd is None:
            raise Refused('SynthDef._build not found')
        tr = _locked_try(_strip_doc(fd).body, '_build')
        in_finally = any(_is_ctx_reset(x) for x in tr.finalbody)

        def catches_all(h):
            return h.type is None or (isinstance(h.type, ast.Name) and h.type.id == 'BaseException')
        in_base = any(catches_all(h) and any(_is_ctx_reset(x) for x in h.body) for h in tr.handlers)
        in_exc = any(isinstance(h.type, ast.Name) and h.type.id == 'Exception' and any(_is_ctx_reset(x) for x in h.body)
                     for h in tr.handlers)
        if not (in_finally or in_base or in_exc):
            raise Refused('SynthDef._build does not reset main._current_synthdef on failure in a way the model knows')
        out.append('(* SynthDef._build resets main._current_synthdef whatever the graph function raises '
                   '(`finally:` / `except BaseException:`), not only for Exception subclasses *)\n'
                   'Definition build_finally : bool := %s.\n' % ('true' if (in_finally or in_base) else 'false'))
    except (Refused, SyntaxError, OSError) as e:
        errors.append({'target': 'Gen_opcodes', 'error': 'SynthDef._build: %s' % e})
    _write(os.path.join(gendir, 'Gen_opcodes.v'), '\n'.join(out))
    return errors


GENERATORS = {'Gen_opcodes': gen_opcodes}
