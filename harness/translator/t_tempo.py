"""Translator target: sc3/base/clock.py class TempoClock  ->  coq/gen/Gen_tempo.v  (property C12).

Regenerated on every run from the working tree, fail-closed.  The numeric state of the clock is the
record `clockstate` of coq/lib/TempoState.v (hand-written: record + functional setters); everything in
Gen_tempo.v is produced here from the method bodies.

What the environment of a method becomes:

  _libsc3.main.current_tt._seconds   the calling thread's logical seconds  -> explicit parameter now_0
  _libsc3.main.elapsed_time()        physical/elapsed seconds              -> explicit parameter elapsed_0
  self.beats, self.tempo ... (properties)                                  -> the translated getter
  self.m(args)                                                             -> the translated method
  bi.f(args)                          -> SC3.gen.Gen_builtins.py_f (only if Gen_builtins translated it)
  self._f  /  self._f = e             -> projection / set_f self e

Statements outside numeric state that are accepted *by exact shape* and dropped (anything else is Refused):

  mdl.NotificationCenter.notify(self, '<literal>')       dependants notification, no numeric effect
  if self.mode == _libsc3.main.NRT_MODE: [_libsc3.main._clock_scheduler.retime(self);] return
  else:
      with self._sched_cond: self._sched_cond.notify()   wakes the RT scheduler thread; must be last
  self._beats = 0.0 / self.permanent = False             (constructor only) not part of the model

Static assumptions (stated in harness/props/C12.py ASSUMES):
  self.running()  is True                               (NRT clocks always run; a stopped RT clock raises)
  _libsc3.main.current_tt._clock is not self  is False  (meter changes come from routines on the clock)

Setters/etempo become functions  clockstate -> ... -> option clockstate  (None = the method raised).
For each of them `<name>_retimes : bool` records whether its NRT branch calls
`_libsc3.main._clock_scheduler.retime(self)` (pending tasks follow the new map; read by model/Tempo.v).
`play`/`play_next_bar` are reduced to the beat they hand to `self.sched_abs` (the scheduler itself is
not arithmetic; it is modelled in coq/model/Tempo.v).  `Quant.as_quant` is hand-modelled there too; the
defaults of the Quant named tuple are regenerated here.
"""
import ast
import json
import os

from .py2coq import FuncTranslator, Refused, refuse
from . import targets as T

FIELDS = {'_tempo': 'tempo', '_beat_dur': 'beat_dur', '_base_seconds': 'base_seconds',
          '_base_beats': 'base_beats', '_beats_per_bar': 'beats_per_bar',
          '_bars_per_beat': 'bars_per_beat', '_base_bar': 'base_bar', '_base_bar_beat': 'base_bar_beat'}
INIT_IGNORED_ATTRS = {'_beats', 'permanent'}

NOW_SRC = '_libsc3.main.current_tt._seconds'
ELAPSED_SRC = '_libsc3.main.elapsed_time()'
RUNNING_SRC = 'self.running()'
NOT_ON_CLOCK_SRC = '_libsc3.main.current_tt._clock is not self'
AS_QUANT_SRC = 'quant = Quant.as_quant(quant)'
NRT_RETURN_SRC = '''
if self.mode == _libsc3.main.NRT_MODE:
    return
else:
    with self._sched_cond:
        self._sched_cond.notify()
'''
# since the sc3 fix "pending non-real-time tasks of a TempoClock follow its tempo changes" the NRT branch
# first re-times the clock's pending tasks in the NRT scheduler (no effect on the clock's own numeric state)
NRT_RETIME_RETURN_SRC = '''
if self.mode == _libsc3.main.NRT_MODE:
    _libsc3.main._clock_scheduler.retime(self)
    return
else:
    with self._sched_cond:
        self._sched_cond.notify()
'''
INIT_STOP_SRC = 'type(self)._all.add(self)'

# (coq name, python name, kind, mode, none-bound parameters)
#   kind: method | getter | setter | init      mode: expr | proc | sched
# Order = definition order in the generated file: a callee must come before its callers
# (a call to something not yet generated is Refused).
SPEC = [
    ('py_beats2secs', 'beats2secs', 'method', 'expr', ()),
    ('py_secs2beats', 'secs2beats', 'method', 'expr', ()),
    ('py_tempo', 'tempo', 'getter', 'expr', ()),
    ('py_beat_dur', 'beat_dur', 'getter', 'expr', ()),
    ('py_beats', 'beats', 'getter', 'expr', ()),
    ('py_seconds', 'seconds', 'getter', 'expr', ()),
    ('py_elapsed_beats', 'elapsed_beats', 'method', 'expr', ()),
    ('py_beats_per_bar', 'beats_per_bar', 'getter', 'expr', ()),
    ('py_base_bar', 'base_bar', 'getter', 'expr', ()),
    ('py_base_bar_beat', 'base_bar_beat', 'getter', 'expr', ()),
    ('py_init', '__init__', 'init', 'proc', ()),                 # TempoClock(tempo, beats, seconds): seconds given
    ('py_init_now', '__init__', 'init', 'proc', ('seconds',)),   # TempoClock(tempo, beats): seconds is None
    ('py_tempo_set', 'tempo', 'setter', 'proc', ()),
    ('py_etempo', 'etempo', 'method', 'proc', ()),
    ('py_beats_set', 'beats', 'setter', 'proc', ()),
    ('py_beats_per_bar_set', 'beats_per_bar', 'setter', 'proc', ()),
    ('py_calc_sched_beats', '_calc_sched_beats', 'method', 'expr', ()),
    ('py_next_time_on_grid', 'next_time_on_grid', 'method', 'expr', ('refbeat',)),
    ('py_next_time_on_grid_ref', 'next_time_on_grid', 'method', 'expr', ()),
    ('py_time_to_next_beat', 'time_to_next_beat', 'method', 'expr', ()),
    ('py_beats2bars', 'beats2bars', 'method', 'expr', ()),
    ('py_bars2beats', 'bars2beats', 'method', 'expr', ()),
    ('py_bar', 'bar', 'method', 'expr', ()),
    ('py_next_bar', 'next_bar', 'method', 'expr', ('beat',)),
    ('py_next_bar_at', 'next_bar', 'method', 'expr', ()),
    ('py_beat_in_bar', 'beat_in_bar', 'method', 'expr', ()),
    ('py_play', 'play', 'method', 'sched', ()),
    ('py_play_next_bar', 'play_next_bar', 'method', 'sched', ()),
]


def _same(node, src):
    """Structural equality of an AST node with the parse of `src` (positions ignored)."""
    ref = ast.parse(src.strip()).body[0]
    if isinstance(ref, ast.Expr) and not isinstance(node, ast.stmt):
        ref = ref.value
    return ast.dump(node) == ast.dump(ref)


class TempoTranslator(FuncTranslator):
    """FuncTranslator + the TempoClock environment described in the module docstring."""

    def __init__(self, env, mode, quant_param=False, none_params=(), is_init=False):
        super().__init__('num', env, self_fields=FIELDS, none_params=none_params)
        self.self_type = 'clockstate'
        self.mode = mode
        self.quant_param = quant_param   # the parameter `quant` is a Quant: two numbers
        self.is_init = is_init
        self.used_now = False
        self.used_elapsed = False
        self.retimes = False

    # ---- expressions
    def now(self):
        self.used_now = True
        return 'now_0'

    def elapsed(self):
        self.used_elapsed = True
        return 'elapsed_0'

    def _extra(self, ent):
        out = ['self']
        if ent['now']:
            out.append(self.now())
        if ent['elapsed']:
            out.append(self.elapsed())
        return out

    def expr(self, e):
        if isinstance(e, ast.Attribute):
            if _same(e, NOW_SRC):
                return self.now()
            if isinstance(e.value, ast.Name) and e.value.id == 'self' and e.attr not in FIELDS:
                ent = self.env.get('prop:' + e.attr)
                if ent is None:
                    refuse(e, 'read of self.%s (not a translated property)' % e.attr)
                return '(%s)' % ' '.join([ent['coq']] + self._extra(ent))
            if self.quant_param and isinstance(e.value, ast.Name) and e.value.id == 'quant' \
                    and e.attr in ('quant', 'phase') and self.quant_cast:
                return self.locals['quant.' + e.attr]
        if isinstance(e, ast.BoolOp) and isinstance(e.op, ast.Or) and len(e.values) == 2 and self.is_init:
            # `a or b` in numeric position (constructor defaults); None is falsy
            if isinstance(e.values[0], ast.Name) and e.values[0].id in self.none_params:
                return self.expr(e.values[1])
            return '(por %s %s)' % (self.expr(e.values[0]), self.expr(e.values[1]))
        if isinstance(e, ast.IfExp):
            # `x if p is None else y`: decided at translation time when p is None-bound / a number
            t = self.test(e.test)
            if t == 'true':
                return self.expr(e.body)
            if t == 'false':
                return self.expr(e.orelse)
        return super().expr(e)

    def call(self, e):
        if _same(e, ELAPSED_SRC):
            return self.elapsed()
        f = e.func
        if isinstance(f, ast.Attribute) and isinstance(f.value, ast.Name) and f.value.id == 'self':
            if e.keywords:
                refuse(e, 'keyword arguments')
            variants = self.env.get('meth:' + f.attr)
            if variants is None:
                refuse(e, 'call to self.%s (not a translated method, or defined later)' % f.attr)
            ent = variants.get(len(e.args))
            if ent is None:
                refuse(e, 'no translated variant of self.%s with %d arguments' % (f.attr, len(e.args)))
            args = [self.expr(a) for a in e.args]
            return '(%s)' % ' '.join([ent['coq']] + self._extra(ent) + args)
        return super().call(e)

    # ---- tests
    def test(self, e):
        if isinstance(e, ast.Call) and _same(e, RUNNING_SRC):
            return 'true'
        if isinstance(e, ast.Compare) and _same(e, NOT_ON_CLOCK_SRC):
            return 'false'
        if isinstance(e, ast.UnaryOp) and isinstance(e.op, ast.Not):
            t = self.test(e.operand)
            if t == 'true':
                return 'false'
            if t == 'false':
                return 'true'
            return '(negb %s)' % t
        return super().test(e)

    # ---- statements
    def err(self):
        return 'None' if self.mode == 'proc' else 'NErr'

    def block(self, stmts, fall):
        if stmts:
            s, rest = stmts[0], stmts[1:]
            # dependants notification
            if (isinstance(s, ast.Expr) and isinstance(s.value, ast.Call) and not s.value.keywords
                    and ast.unparse(s.value.func) == 'mdl.NotificationCenter.notify'
                    and len(s.value.args) == 2 and ast.unparse(s.value.args[0]) == 'self'
                    and isinstance(s.value.args[1], ast.Constant) and isinstance(s.value.args[1].value, str)):
                if self.mode != 'proc':
                    refuse(s, 'notification outside a state-changing method')
                return self.block(rest, fall)
            # wake the RT scheduler thread (or return at once in NRT): same numeric state either way
            if isinstance(s, ast.If) and (_same(s, NRT_RETURN_SRC) or _same(s, NRT_RETIME_RETURN_SRC)):
                if self.mode != 'proc' or rest:
                    refuse(s, 'scheduler wake-up pattern not in final position of a state-changing method')
                # whether the NRT branch re-times the clock's pending tasks is regenerated too
                # (Definition <name>_retimes : bool), the hand-written scheduler model reads it
                self.retimes = _same(s, NRT_RETIME_RETURN_SRC)
                return '(Some self)'
            if isinstance(s, ast.Return) and s.value is None and self.mode == 'proc':
                return '(Some self)'
            if isinstance(s, ast.Assign) and _same(s, AS_QUANT_SRC) and self.quant_param and not self.quant_cast:
                self.quant_cast = True
                return self.block(rest, fall)
            if (self.is_init and isinstance(s, ast.Assign) and len(s.targets) == 1
                    and isinstance(s.targets[0], ast.Attribute) and ast.unparse(s.targets[0].value) == 'self'
                    and s.targets[0].attr in INIT_IGNORED_ATTRS and isinstance(s.value, ast.Constant)):
                return self.block(rest, fall)
            if self.mode == 'sched' and isinstance(s, ast.Expr) and isinstance(s.value, ast.Call) \
                    and ast.unparse(s.value.func) == 'self.sched_abs':
                c = s.value
                if rest or c.keywords or len(c.args) != 2 or ast.unparse(c.args[1]) != 'task':
                    refuse(s, 'unexpected shape of the final self.sched_abs(beat, task)')
                return self.expr(c.args[0])
        return super().block(stmts, fall)

    # ---- one method
    def method(self, fd, coqname, stop_at=None):
        if fd.args.vararg or fd.args.kwarg or fd.args.kwonlyargs:
            refuse(fd, 'star/keyword-only parameters')
        params = [a.arg for a in fd.args.args]
        if not params or params[0] != 'self':
            refuse(fd, 'first parameter is not self')
        params = params[1:]
        self.locals = {}
        self.counter = 0
        self.quant_cast = False
        binders = []
        for p in params:
            if p in self.none_params:
                continue
            if self.mode == 'sched' and p == 'task':
                continue            # the scheduled object: never used as a number (any use is Refused)
            if self.quant_param and p == 'quant':
                self.locals['quant.quant'] = 'quant_q_0'
                self.locals['quant.phase'] = 'quant_phase_0'
                binders += ['(quant_q_0 : num)', '(quant_phase_0 : num)']
                continue
            self.locals[p] = p + '_0'
            binders.append('(%s_0 : num)' % p)
        body = list(fd.body)
        if stop_at is not None:
            idx = [i for i, s in enumerate(body) if isinstance(s, ast.Expr) and _same(s, stop_at)]
            if len(idx) != 1:
                refuse(fd, 'constructor: marker statement %r not found exactly once' % stop_at)
            tail = body[idx[0] + 1:]
            body = body[:idx[0]]
            for n in tail:
                for sub in ast.walk(n):
                    if isinstance(sub, ast.Attribute) and isinstance(sub.ctx, (ast.Store, ast.Del)) \
                            and sub.attr in FIELDS:
                        refuse(sub, 'constructor assigns numeric field self.%s after the translated part' % sub.attr)
        if self.quant_param and 'quant' in params:
            # `quant` itself is not a number until it has been cast
            pass
        fall = '(Some self)' if self.mode == 'proc' else None
        term = self.block(body, fall)
        if self.quant_param and not self.quant_cast:
            refuse(fd, 'expected `%s`' % AS_QUANT_SRC)
        pre = ['(self : clockstate)']
        if self.used_now or self.is_init:
            pre.append('(now_0 : num)')
        if self.used_elapsed:
            pre.append('(elapsed_0 : num)')
        rt = 'option clockstate' if self.mode == 'proc' else 'num'
        return 'Definition %s %s : %s :=\n %s.\n' % (coqname, ' '.join(pre + binders), rt, term), \
               [b.split()[0][1:] for b in binders]


def _find(cls, pyname, kind):
    out = []
    for n in cls.body:
        if isinstance(n, ast.FunctionDef) and n.name == pyname:
            decos = T._decorator(n)
            if kind == 'getter' and decos == ['property']:
                out.append(n)
            elif kind == 'setter' and decos == [pyname + '.setter']:
                out.append(n)
            elif kind in ('method', 'init') and decos == []:
                out.append(n)
    if len(out) != 1:
        raise Refused('TempoClock.%s (%s): found %d definitions' % (pyname, kind, len(out)))
    return out[0]


def gen_tempo(repo, gendir):
    src = os.path.join(repo, 'sc3/base/clock.py')
    tree = ast.parse(open(src).read())
    classes = T._classes(tree)
    errors = []
    out = [T.HEADER % 'sc3/base/clock.py (class TempoClock, class Quant)',
           'From Coq Require Import ZArith QArith Bool.\n'
           'Require Import SC3.lib.PyNum SC3.lib.TempoState SC3.gen.Gen_builtins.\nOpen Scope Z_scope.\n']
    done = {}

    def fail(name, e):
        errors.append({'target': 'Gen_tempo', 'error': '%s: %s' % (name, e)})

    # calls into builtins: only what Gen_builtins really translated in this run
    env = dict(T.NUM_BUILTINS)
    try:
        arities = json.load(open(os.path.join(gendir, 'Gen_builtins.json')))
    except (OSError, ValueError) as e:
        arities = {}
        fail('Gen_builtins.json', e)
    for name, n in arities.items():
        env['bi.' + name] = ('func', 'py_' + name, n, [])

    # ---- Quant defaults
    try:
        q = classes.get('Quant')
        if q is None:
            raise Refused('class Quant not found')
        if [ast.unparse(b) for b in q.bases] != ['typing.NamedTuple']:
            raise Refused('Quant is no longer a typing.NamedTuple')
        fields = [n for n in q.body if isinstance(n, ast.AnnAssign)]
        if [ast.unparse(n.target) for n in fields] != ['quant', 'phase']:
            raise Refused('Quant fields are not (quant, phase)')
        tr = TempoTranslator(env, 'expr')
        tr.locals = {}
        for n in fields:
            if n.value is None:
                raise Refused('Quant.%s has no default' % n.target.id)
            out.append('Definition py_Quant_default_%s : num := %s.\n' % (n.target.id, tr.expr(n.value)))
        done['py_Quant_default_quant'] = {'params': []}
        done['py_Quant_default_phase'] = {'params': []}
    except Refused as e:
        fail('Quant', e)

    # ---- TempoClock
    cls = classes.get('TempoClock')
    if cls is None:
        fail('TempoClock', 'class not found')
        cls = ast.ClassDef(name='TempoClock', body=[])
    for coqname, pyname, kind, mode, none_params in SPEC:
        try:
            fd = _find(cls, pyname, kind)
            tr = TempoTranslator(env, mode, quant_param=(pyname in ('play', 'time_to_next_beat')),
                                 none_params=none_params, is_init=(kind == 'init'))
            code, params = tr.method(fd, coqname, stop_at=INIT_STOP_SRC if kind == 'init' else None)
            ent = {'coq': coqname, 'now': tr.used_now or kind == 'init', 'elapsed': tr.used_elapsed, 'params': params,
                   'mode': mode, 'line': fd.lineno}
            if kind == 'getter':
                env['prop:' + pyname] = ent
            elif kind == 'method' and mode == 'expr':
                nargs = len(fd.args.args) - 1 - len(none_params)
                env.setdefault('meth:' + pyname, {})[nargs] = ent
            out.append(code)
            if mode == 'proc' and kind != 'init':
                out.append('Definition %s_retimes : bool := %s.\n' % (coqname, 'true' if tr.retimes else 'false'))
                ent['retimes'] = tr.retimes
            done[coqname] = ent
        except Refused as e:
            fail(coqname, e)
    out.append('(* translated: %s *)\n' % ' '.join(done))
    T._write(os.path.join(gendir, 'Gen_tempo.v'), '\n'.join(out))
    T._write(os.path.join(gendir, 'Gen_tempo.json'), json.dumps(done, indent=0, sort_keys=True))
    return errors


GENERATORS = {'Gen_tempo': gen_tempo}
