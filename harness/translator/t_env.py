"""Translator target for C19: sc3/synth/envelope.py -> coq/gen/Gen_envtables.v

Regenerated on every run from the working tree (fail-closed):
  * env_shape_names   : list (string * Z)   = Env._SHAPE_NAMES, in source order
  * env_numeric_shape : Z                   = the constant appended by Env._shape_number for a numeric curve
  * env_absent_node   : Z                   = the constant that replaces a missing release / loop node
  * env_cub_exponent  : Q                   = the exponent of both bi.pow calls of the 'cubed' branch of Env._env_at
  * env_curve_eps     : Q                   = the |curve| threshold under which a numeric curve is linear
Anything that does not have exactly the expected syntactic form is refused, the definition
is left out and every proof / model that mentions it stops compiling.
"""
import ast
import os
from fractions import Fraction

from .py2coq import Refused
from . import targets as T

SRC = 'sc3/synth/envelope.py'


def _q(x):
    fr = Fraction(x)
    n = '(%d)' % fr.numerator if fr.numerator < 0 else '%d' % fr.numerator
    return '(%s # %d)%%Q' % (n, fr.denominator)


def _z(n):
    return '(%d)%%Z' % n if n < 0 else '%d%%Z' % n


def _const_num(node, what):
    if isinstance(node, ast.UnaryOp) and isinstance(node.op, ast.USub):
        return -_const_num(node.operand, what)
    if isinstance(node, ast.Constant) and type(node.value) in (int, float):
        return node.value
    raise Refused('%s: numeric literal expected at line %s' % (what, getattr(node, 'lineno', '?')))


def shape_table(cls):
    for n in cls.body:
        if isinstance(n, ast.Assign) and len(n.targets) == 1 and isinstance(n.targets[0], ast.Name) \
                and n.targets[0].id == '_SHAPE_NAMES':
            d = n.value
            if not isinstance(d, ast.Dict):
                raise Refused('_SHAPE_NAMES is not a dict literal')
            rows = []
            for k, v in zip(d.keys, d.values):
                if not (isinstance(k, ast.Constant) and type(k.value) is str):
                    raise Refused('_SHAPE_NAMES key is not a string literal (line %s)' % getattr(k, 'lineno', '?'))
                if not all(32 <= ord(c) < 127 and c != '"' for c in k.value):
                    raise Refused('_SHAPE_NAMES key outside printable ASCII')
                val = _const_num(v, '_SHAPE_NAMES value')
                if type(val) is not int:
                    raise Refused('_SHAPE_NAMES value is not an int literal')
                if k.value in [r[0] for r in rows]:
                    raise Refused('duplicate key %r in _SHAPE_NAMES' % k.value)
                rows.append((k.value, val))
            return rows
    raise Refused('Env._SHAPE_NAMES not found')


def _method(cls, name):
    for n in cls.body:
        if isinstance(n, ast.FunctionDef) and n.name == name:
            return n
    raise Refused('Env.%s not found' % name)


def numeric_shape(cls):
    """the literal k of every `ret.append(k)` with a numeric literal in _shape_number"""
    found = set()
    for n in ast.walk(_method(cls, '_shape_number')):
        if isinstance(n, ast.Call) and isinstance(n.func, ast.Attribute) and n.func.attr == 'append' \
                and len(n.args) == 1 and isinstance(n.args[0], ast.Constant) and type(n.args[0].value) is int:
            found.add(n.args[0].value)
    if len(found) != 1:
        raise Refused('_shape_number: expected exactly one literal shape number for numeric curves, got %s' % sorted(found))
    return found.pop()


def absent_node(cls):
    """the constant assigned to aux_input under `if aux_input is None:` in _envgen_format (twice, same)"""
    found = []
    for n in ast.walk(_method(cls, '_envgen_format')):
        if isinstance(n, ast.If) and isinstance(n.test, ast.Compare) and len(n.test.ops) == 1 \
                and isinstance(n.test.ops[0], ast.Is) and isinstance(n.test.comparators[0], ast.Constant) \
                and n.test.comparators[0].value is None and len(n.body) == 1 and isinstance(n.body[0], ast.Assign):
            found.append(_const_num(n.body[0].value, '_envgen_format default'))
    if len(found) != 2 or found[0] != found[1] or type(found[0]) is not int:
        raise Refused('_envgen_format: expected the same int default for release and loop node, got %s' % found)
    return found[0]


def at_constants(cls):
    fd = _method(cls, '_env_at')
    exps, eps = [], []
    for n in ast.walk(fd):
        if isinstance(n, ast.Call) and isinstance(n.func, ast.Attribute) and n.func.attr == 'pow' \
                and isinstance(n.func.value, ast.Name) and n.func.value.id == 'bi' and len(n.args) == 2 \
                and isinstance(n.args[0], ast.Name) and n.args[0].id in ('start_level', 'target_level'):
            exps.append(_const_num(n.args[1], 'cubed exponent'))
        if isinstance(n, ast.Compare) and isinstance(n.left, ast.Call) and isinstance(n.left.func, ast.Attribute) \
                and n.left.func.attr == 'fabs' and len(n.ops) == 1 and isinstance(n.ops[0], ast.Lt):
            eps.append(_const_num(n.comparators[0], 'curve threshold'))
    if len(exps) != 2 or exps[0] != exps[1]:
        raise Refused('_env_at: expected two bi.pow(level, c) calls with the same literal exponent, got %s' % exps)
    if len(eps) != 1:
        raise Refused('_env_at: expected one `math.fabs(curve) < c` test, got %s' % eps)
    return exps[0], eps[0]


def gen_envtables(repo, gendir):
    errors = []
    path = os.path.join(repo, SRC)
    tree = ast.parse(open(path).read())
    cls = T._classes(tree).get('Env')
    out = [T.HEADER % SRC,
           'From Coq Require Import ZArith QArith String List.\nImport ListNotations.\nOpen Scope string_scope.\n']
    if cls is None:
        errors.append({'target': 'Gen_envtables', 'error': 'class Env not found'})
        cls = ast.ClassDef(name='Env', body=[], bases=[], keywords=[], decorator_list=[])

    def attempt(name, fn):
        try:
            out.append(fn())
        except Refused as e:
            errors.append({'target': 'Gen_envtables', 'error': '%s: %s' % (name, e)})

    attempt('env_shape_names', lambda: 'Definition env_shape_names : list (string * Z) :=\n [%s].\n' % ';\n  '.join(
        '("%s", %s)' % (k, _z(v)) for k, v in shape_table(cls)))
    attempt('env_numeric_shape', lambda: 'Definition env_numeric_shape : Z := %s.\n' % _z(numeric_shape(cls)))
    attempt('env_absent_node', lambda: 'Definition env_absent_node : Z := %s.\n' % _z(absent_node(cls)))
    attempt('env_cub_exponent', lambda: 'Definition env_cub_exponent : Q := %s.\n' % _q(at_constants(cls)[0]))
    attempt('env_curve_eps', lambda: 'Definition env_curve_eps : Q := %s.\n' % _q(at_constants(cls)[1]))
    T._write(os.path.join(gendir, 'Gen_envtables.v'), '\n'.join(out))
    return errors


def _r(x):
    fr = Fraction(x)
    return '(IZR %s / IZR %d)' % ('(%d)' % fr.numerator if fr.numerator < 0 else '%d' % fr.numerator, fr.denominator)


def gen_envR(repo, gendir):
    """Gen_envR.v: the real-number reading of what the transcendental shapes call --
    bi.sqrt (translated, math.sqrt -> sqrt) and the two float literals of Env._env_at as reals."""
    errors = []
    out = [T.HEADER % 'sc3/base/builtins.py (sqrt), sc3/synth/envelope.py (constants)',
           'From Coq Require Import Reals R_sqrt.\nRequire Import SC3.lib.PyReal.\nOpen Scope R_scope.\n']
    try:
        tree = ast.parse(open(os.path.join(repo, 'sc3/base/builtins.py')).read())
        fd = T._funcs(tree).get('sqrt')
        if fd is None:
            raise Refused('builtins.sqrt not found')
        if not set(T._decorator(fd)) <= T.SC_DECOS:
            raise Refused('unexpected decorator on sqrt')
        tr = T.InfAware('R', {'math.sqrt': ('builtin', 'sqrt', 1)})
        out.append(tr.function(fd, 'pyR_sqrt'))
    except Refused as e:
        errors.append({'target': 'Gen_envR', 'error': 'sqrt: %s' % e})
    try:
        cls = T._classes(ast.parse(open(os.path.join(repo, SRC)).read())).get('Env')
        if cls is None:
            raise Refused('class Env not found')
        ex, eps = at_constants(cls)
        out.append('Definition env_cub_exponentR : R := %s.\n' % _r(ex))
        out.append('Definition env_curve_epsR : R := %s.\n' % _r(eps))
    except Refused as e:
        errors.append({'target': 'Gen_envR', 'error': 'constants: %s' % e})
    T._write(os.path.join(gendir, 'Gen_envR.v'), '\n'.join(out))
    return errors


GENERATORS = {'Gen_envtables': gen_envtables, 'Gen_envR': gen_envR}
