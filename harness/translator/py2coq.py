"""Fail-closed translator from a loop-free numeric subset of Python to Gallina.

Two targets:
  'num' : values are SC3.lib.PyNum.num (I z | F q | NErr) with Python's promotion rules;
  'R'   : values are Coq reals (transcendental kernels; not executable).

Anything outside the whitelisted grammar raises Refused (with the source location):
the caller reports it, nothing is silently skipped.
"""
import ast
from fractions import Fraction


class Refused(Exception):
    pass


def refuse(node, msg):
    raise Refused('%s (line %s)' % (msg, getattr(node, 'lineno', '?')))


def qlit(x):
    fr = Fraction(x)
    n = '(%d)' % fr.numerator if fr.numerator < 0 else '%d' % fr.numerator
    return '(%s # %d)' % (n, fr.denominator)


def rlit(x):
    fr = Fraction(x)
    n = '(%d)' % fr.numerator if fr.numerator < 0 else '%d' % fr.numerator
    if fr.denominator == 1:
        return '(IZR %s)' % n
    return '(IZR %s / IZR %d)' % (n, fr.denominator)


NUM_BINOPS = {ast.Add: 'nadd', ast.Sub: 'nsub', ast.Mult: 'nmul', ast.Div: 'ntruediv',
              ast.FloorDiv: 'nfloordiv', ast.Mod: 'nmod', ast.BitOr: 'nbitor', ast.BitAnd: 'nbitand',
              ast.LShift: 'nshl', ast.RShift: 'nshr'}
NUM_CMP = {ast.Lt: 'nlt', ast.LtE: 'nle', ast.Gt: 'ngt', ast.GtE: 'nge', ast.Eq: 'neqb', ast.NotEq: 'nneqb'}
R_BINOPS = {ast.Add: 'Rplus', ast.Sub: 'Rminus', ast.Mult: 'Rmult', ast.Div: 'Rdiv'}
R_CMP = {ast.Lt: ('Rlt_dec', False, False), ast.LtE: ('Rle_dec', False, False),
         ast.Gt: ('Rlt_dec', True, False), ast.GtE: ('Rle_dec', True, False)}


class FuncTranslator:
    """Translates one FunctionDef.

    env:  name -> ('func', coqname, nparams, defaults) for translated callees,
                  ('const', coqterm) for module constants,
                  ('builtin', coqname, arity) for whitelisted library calls.
    """

    def __init__(self, target, env, self_fields=None, none_params=()):
        self.target = target
        self.env = env
        self.self_fields = self_fields      # None, or dict python attr -> coq projection
        self.none_params = set(none_params)  # parameters statically bound to None
        self.type_alias = {}                # T = type(x)  ->  x

    # ---- expressions ------------------------------------------------
    def expr(self, e):
        t = self.target
        if isinstance(e, ast.Constant):
            v = e.value
            if isinstance(v, bool):
                refuse(e, 'bool constant in numeric position')
            if isinstance(v, int):
                return '(I %s)' % (('(%d)' % v) if v < 0 else v) if t == 'num' else rlit(v)
            if isinstance(v, float):
                if v != v or v in (float('inf'), float('-inf')):
                    refuse(e, 'non-finite float literal')
                # R target: a decimal literal denotes the decimal number written (ideal reading);
                # num target: the exact binary64 value (the grid correspondence is bit-exact)
                return '(F %s)' % qlit(v) if t == 'num' else rlit(Fraction(repr(v)))
            refuse(e, 'constant of type %s' % type(v).__name__)
        if isinstance(e, ast.Name):
            if e.id in self.none_params:
                refuse(e, 'use of None-bound parameter %s as a value' % e.id)
            if e.id in self.locals:
                return self.locals[e.id]
            ent = self.env.get(e.id)
            if ent and ent[0] == 'const':
                return ent[1]
            refuse(e, 'unknown name %s' % e.id)
        if isinstance(e, ast.Attribute):
            if isinstance(e.value, ast.Name) and e.value.id == 'self' and self.self_fields is not None:
                if e.attr in self.self_fields:
                    return '(%s self)' % self.self_fields[e.attr]
                refuse(e, 'unknown attribute self.%s' % e.attr)
            refuse(e, 'attribute access')
        if isinstance(e, ast.UnaryOp):
            if isinstance(e.op, ast.USub):
                if isinstance(e.operand, ast.Constant) and isinstance(e.operand.value, (int, float)) \
                        and not isinstance(e.operand.value, bool):
                    return self.expr(ast.copy_location(ast.Constant(-e.operand.value), e))
                return '(%s %s)' % ('nneg' if t == 'num' else 'Ropp', self.expr(e.operand))
            if isinstance(e.op, ast.UAdd):
                return self.expr(e.operand)
            refuse(e, 'unary operator %s' % type(e.op).__name__)
        if isinstance(e, ast.BinOp):
            table = NUM_BINOPS if t == 'num' else R_BINOPS
            op = table.get(type(e.op))
            if op is None:
                refuse(e, 'binary operator %s' % type(e.op).__name__)
            return '(%s %s %s)' % (op, self.expr(e.left), self.expr(e.right))
        if isinstance(e, ast.IfExp):
            return '(if %s then %s else %s)' % (self.test(e.test), self.expr(e.body), self.expr(e.orelse))
        if isinstance(e, ast.Call):
            return self.call(e)
        refuse(e, 'expression %s' % type(e).__name__)

    def call(self, e):
        if e.keywords:
            refuse(e, 'keyword arguments')
        f = e.func
        if isinstance(f, ast.Name):
            name = f.id
            if name in self.type_alias:       # T(e) with T = type(x)
                if len(e.args) != 1:
                    refuse(e, 'cast arity')
                if self.target != 'num':
                    refuse(e, 'cast in R target')
                return '(cast_like %s %s)' % (self.type_alias[name], self.expr(e.args[0]))
        elif isinstance(f, ast.Attribute) and isinstance(f.value, ast.Name):
            name = f.value.id + '.' + f.attr
        else:
            refuse(e, 'call target')
        ent = self.env.get(name)
        if ent is None:
            refuse(e, 'call to non-whitelisted %s' % name)
        if ent[0] == 'builtin':
            _, coqname, arity = ent
            if len(e.args) != arity:
                refuse(e, 'arity of %s' % name)
            return '(%s %s)' % (coqname, ' '.join(self.expr(a) for a in e.args))
        if ent[0] == 'func':
            _, coqname, nparams, defaults = ent
            args = [self.expr(a) for a in e.args]
            if len(args) > nparams:
                refuse(e, 'too many arguments to %s' % name)
            missing = nparams - len(args)
            if missing > len(defaults):
                refuse(e, 'missing arguments to %s' % name)
            if missing:
                args += defaults[len(defaults) - missing:]
            return '(%s %s)' % (coqname, ' '.join(args))
        refuse(e, 'call to %s' % name)

    # ---- tests (bool) -----------------------------------------------
    def test(self, e):
        t = self.target
        if isinstance(e, ast.BoolOp):
            op = 'andb' if isinstance(e.op, ast.And) else 'orb'
            parts = [self.test(v) for v in e.values]
            out = parts[-1]
            for p in reversed(parts[:-1]):
                out = '(%s %s %s)' % (op, p, out)
            return out
        if isinstance(e, ast.UnaryOp) and isinstance(e.op, ast.Not):
            return '(negb %s)' % self.test(e.operand)
        if isinstance(e, ast.Compare):
            if len(e.ops) != 1:
                refuse(e, 'chained comparison')
            op, l, r = e.ops[0], e.left, e.comparators[0]
            # type(x) is int / float
            if isinstance(op, (ast.Is, ast.IsNot)):
                if isinstance(r, ast.Constant) and r.value is None and isinstance(l, ast.Name):
                    if l.id in self.none_params:
                        return 'true' if isinstance(op, ast.Is) else 'false'
                    if l.id in self.locals:    # a parameter that is a number is never None
                        return 'false' if isinstance(op, ast.Is) else 'true'
                if (isinstance(l, ast.Call) and isinstance(l.func, ast.Name) and l.func.id == 'type'
                        and len(l.args) == 1 and isinstance(r, ast.Name) and r.id in ('int', 'float')
                        and t == 'num'):
                    s = '(%s %s)' % ('is_int' if r.id == 'int' else 'is_float', self.expr(l.args[0]))
                    return s if isinstance(op, ast.Is) else '(negb %s)' % s
                refuse(e, 'identity test')
            if t == 'num':
                c = NUM_CMP.get(type(op))
                if c is None:
                    refuse(e, 'comparison %s' % type(op).__name__)
                return '(%s %s %s)' % (c, self.expr(l), self.expr(r))
            c = R_CMP.get(type(op))
            if c is None:
                refuse(e, 'comparison %s in R target' % type(op).__name__)
            dec, swap, _ = c
            a, b = self.expr(l), self.expr(r)
            if swap:
                a, b = b, a
            return '(if %s %s %s then true else false)' % (dec, a, b)
        if isinstance(e, ast.Call) and isinstance(e.func, ast.Name) and e.func.id == 'isinstance' and t == 'num':
            if len(e.args) == 2 and isinstance(e.args[1], ast.Tuple) and \
                    sorted(getattr(x, 'id', None) for x in e.args[1].elts) == ['float', 'int']:
                return '(is_ok %s)' % self.expr(e.args[0])
            refuse(e, 'isinstance form')
        if isinstance(e, ast.Constant) and isinstance(e.value, bool):
            return 'true' if e.value else 'false'
        if t == 'num':
            return '(truth %s)' % self.expr(e)
        refuse(e, 'truthiness test in R target')

    # ---- statements (continuation style) ------------------------------
    def block(self, stmts, fall):
        """Translate statements; `fall` is the Gallina term for falling off the end (or None: refuse)."""
        if not stmts:
            if fall is None:
                raise Refused('control reaches the end of the function without return')
            return fall
        s, rest = stmts[0], stmts[1:]
        if isinstance(s, ast.Expr) and isinstance(s.value, ast.Constant) and isinstance(s.value.value, str):
            return self.block(rest, fall)        # docstring
        if isinstance(s, ast.Pass):
            return self.block(rest, fall)
        if isinstance(s, ast.Return):
            if s.value is None:
                refuse(s, 'bare return')
            return self.expr(s.value)
        if isinstance(s, ast.Raise):
            return self.err()
        if isinstance(s, (ast.Assign, ast.AugAssign)):
            if isinstance(s, ast.Assign):
                if len(s.targets) != 1:
                    refuse(s, 'multiple assignment')
                tgt, val = s.targets[0], s.value
                # T = type(x)
                if (isinstance(tgt, ast.Name) and isinstance(val, ast.Call) and isinstance(val.func, ast.Name)
                        and val.func.id == 'type' and len(val.args) == 1 and isinstance(val.args[0], ast.Name)):
                    self.type_alias[tgt.id] = self.expr(val.args[0])
                    return self.block(rest, fall)
                rhs = self.expr(val)
            else:
                tgt = s.target
                table = NUM_BINOPS if self.target == 'num' else R_BINOPS
                op = table.get(type(s.op))
                if op is None:
                    refuse(s, 'augmented operator')
                rhs = '(%s %s %s)' % (op, self.expr(tgt), self.expr(s.value))
            if isinstance(tgt, ast.Name):
                if tgt.id in self.none_params:
                    # first assignment to a None-bound parameter makes it an ordinary local
                    self.none_params = self.none_params - {tgt.id}
                    saved_np = True
                else:
                    saved_np = False
                old = self.locals.get(tgt.id)
                fresh = self.fresh(tgt.id)
                self.locals[tgt.id] = fresh
                body = self.block(rest, fall)
                if old is None:
                    del self.locals[tgt.id]
                else:
                    self.locals[tgt.id] = old
                if saved_np:
                    self.none_params = self.none_params | {tgt.id}
                return '(let %s := %s in\n %s)' % (fresh, rhs, body)
            if (isinstance(tgt, ast.Attribute) and isinstance(tgt.value, ast.Name) and tgt.value.id == 'self'
                    and self.self_fields is not None and tgt.attr in self.self_fields):
                setter = 'set_' + self.self_fields[tgt.attr]
                body = self.block(rest, fall)
                return '(let self := %s self %s in\n %s)' % (setter, rhs, body)
            refuse(s, 'assignment target')
        if isinstance(s, ast.If):
            # static None tests are decided at translation time
            tst = self.test(s.test)
            if tst == 'true':
                return self.block(list(s.body) + rest, fall)
            if tst == 'false':
                return self.block(list(s.orelse) + rest, fall)
            saved = (dict(self.locals), set(self.none_params), dict(self.type_alias))
            a = self.block(list(s.body) + rest, fall)
            self.locals, self.none_params, self.type_alias = dict(saved[0]), set(saved[1]), dict(saved[2])
            b = self.block(list(s.orelse) + rest, fall)
            self.locals, self.none_params, self.type_alias = saved
            return '(if %s\n then %s\n else %s)' % (tst, a, b)
        refuse(s, 'statement %s' % type(s).__name__)

    def err(self):
        if self.target == 'num':
            return 'NErr'
        raise Refused('raise in R target')

    def fresh(self, base):
        self.counter += 1
        return '%s_%d' % (base, self.counter)

    def function(self, fd, coqname, skip_self=False, fall=None, ret_type=None):
        if fd.args.vararg or fd.args.kwarg or fd.args.kwonlyargs:
            refuse(fd, 'star/keyword-only parameters')
        params = [a.arg for a in fd.args.args]
        if skip_self:
            assert params and params[0] == 'self'
            params = params[1:]
        self.locals = {}
        self.counter = 0
        binders = []
        ty = 'num' if self.target == 'num' else 'R'
        if skip_self:
            binders.append('(self : %s)' % self.self_type)
        for p in params:
            if p in self.none_params:
                continue
            self.locals[p] = p + '_0'
            binders.append('(%s_0 : %s)' % (p, ty))
        body = self.block(list(fd.body), fall)
        rt = ret_type or ty
        return 'Definition %s %s : %s :=\n %s.\n' % (coqname, ' '.join(binders), rt, body)
