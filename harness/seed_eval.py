#!/usr/bin/env python3
"""seed_eval.py Cxx k [--src DIR] [--tier quick|thorough] [--also C.. C..]

Confirms a seeded property-breaking change (written by an independent sub-agent that never saw /verif)
and runs the check(s) against it in a scratch worktree:
  1. demo passes on the unchanged tree, 2. patch applies, 3. demo fails with it,
  4. the 60 baseline tests still pass, 5. `SC3_REPO=<worktree> ./check Cxx` must report a VIOLATION.
Keeps the change as /verif/seeded/Cxx-k/ (patch.diff, demo.py, meta.json) only if 1-4 hold.
"""
import argparse, json, os, shutil, subprocess, sys, time
import xml.etree.ElementTree as ET

VERIF = os.path.dirname(os.path.dirname(os.path.abspath(__file__)))
WT = os.environ.get('SEED_WT', '/tmp/seedeval_wt')
PY = '/venv/bin/python'


def sh(cmd, cwd=None, env=None, timeout=1800):
    e = dict(os.environ)
    if env:
        e.update(env)
    p = subprocess.run(cmd, cwd=cwd, env=e, shell=isinstance(cmd, str), stdout=subprocess.PIPE,
                       stderr=subprocess.STDOUT, text=True, timeout=timeout)
    return p.returncode, p.stdout


def clean():
    sh(['git', '-C', WT, 'checkout', '--', '.'])
    sh(['git', '-C', WT, 'clean', '-fdq', '--', 'sc3', 'tests'])


def suite():
    junit = '/tmp/seedeval_junit_%s.xml' % os.path.basename(WT)
    if os.path.exists(junit):
        os.remove(junit)
    # own network namespace: the RT tests bind fixed UDP ports, other jobs on this machine may hold them
    cmd = "ip link set lo up; exec %s -m pytest -q -p no:cacheprovider --timeout=900 --continue-on-collection-errors --junitxml=%s" % (PY, junit)
    rc, o = sh(['unshare', '-rn', 'sh', '-c', cmd], cwd=WT, env={'PYTHONPATH': WT}, timeout=1800)
    if not os.path.exists(junit):
        sh([PY, '-m', 'pytest', '-q', '-p', 'no:cacheprovider', '--timeout=900', '--continue-on-collection-errors',
            '--junitxml=' + junit], cwd=WT, env={'PYTHONPATH': WT}, timeout=1800)
    base = json.load(open('/root/.vp/BASELINE.json'))['stable_pass']
    res = {}
    for tc in ET.parse(junit).iter('testcase'):
        name = tc.get('classname') + '::' + tc.get('name')
        res[name] = 'fail' if any(c.tag in ('failure', 'error') for c in tc) else \
            ('skip' if any(c.tag == 'skipped' for c in tc) else 'pass')
    return [n for n in base if res.get(n) != 'pass']


def main():
    import fcntl
    # one evaluation per scratch worktree at a time: a second one would revert this one's patch
    lk = open('/tmp/seedeval_lock_%s' % os.path.basename(WT), 'w')
    fcntl.flock(lk, fcntl.LOCK_EX)
    ap = argparse.ArgumentParser()
    ap.add_argument('pid'); ap.add_argument('k')
    ap.add_argument('--src'); ap.add_argument('--tier', default='quick'); ap.add_argument('--also', nargs='*', default=[])
    ap.add_argument('--skip-suite', action='store_true')
    a = ap.parse_args()
    src = a.src or '/tmp/seed_out_%s/%s' % (a.pid, a.k)
    dst = os.path.join(VERIF, 'seeded', '%s-%s' % (a.pid, a.k))
    if not os.path.exists(os.path.join(src, 'patch.diff')):
        src = dst                       # re-evaluate a kept one
    patch, demo = os.path.join(src, 'patch.diff'), os.path.join(src, 'demo.py')
    meta = json.load(open(os.path.join(src, 'meta.json'))) if os.path.exists(os.path.join(src, 'meta.json')) else {}
    head = sh(['git', '-C', '/repo', 'rev-parse', 'HEAD'])[1].strip()
    clean()        # a killed earlier evaluation may have left its patch applied: checkout would refuse
    sh(['git', '-C', WT, 'checkout', '-q', '--detach', head])
    clean()
    out = {'property': a.pid, 'k': a.k, 'repo_head': head, 'author_meta': meta}
    rc0, o0 = sh([PY, demo], cwd=WT, env={'PYTHONPATH': WT, 'PYTHONHASHSEED': '0'}, timeout=300)
    out['demo_without'] = rc0
    rca, oa = sh(['git', '-C', WT, 'apply', patch])
    out['applies'] = (rca == 0)
    if rca != 0:
        out['error'] = oa[-500:]
    else:
        rc1, o1 = sh([PY, demo], cwd=WT, env={'PYTHONPATH': WT, 'PYTHONHASHSEED': '0'}, timeout=300)
        out['demo_with'] = rc1
        out['demo_with_tail'] = o1[-400:]
        out['suite_not_passing'] = [] if a.skip_suite else suite()
        checks = {}
        for pid in [a.pid] + a.also:
            t = time.time()
            rc, o = sh(['./check', pid, '--tier', a.tier], cwd=VERIF, env={'SC3_REPO': WT}, timeout=3600)
            lines = [l for l in o.splitlines() if l.startswith(('VIOLATION', 'OK', 'KNOWN'))]
            kinds = []
            import hashlib
            evp = os.path.join(VERIF, 'build', 'evidence_alt',
                               hashlib.sha1(os.path.realpath(WT).encode()).hexdigest()[:12], pid + '.json')
            try:
                ev = json.load(open(evp))
                kinds = sorted(set(f['kind'] for f in ev['coverage'].get('failures', [])))
                first = (ev['coverage'].get('failures') or [{}])[0].get('what', '')[:300]
            except Exception:
                first = ''
            checks[pid] = {'rc': rc, 'lines': lines[:4], 'stages': kinds, 'first': first, 'wall_s': round(time.time() - t, 1)}
        out['checks'] = checks
    clean()
    # restore evidence of the unchanged tree for the checks we disturbed
    valid = out.get('applies') and out['demo_without'] == 0 and out.get('demo_with', 0) != 0 and not out.get('suite_not_passing')
    out['valid'] = bool(valid)
    out['caught'] = bool(valid and out['checks'][a.pid]['rc'] == 1)
    if valid:
        os.makedirs(dst, exist_ok=True)
        if src != dst:
            shutil.copy(patch, dst); shutil.copy(demo, dst)
        first = None
        old = os.path.join(dst, 'meta.json')
        if os.path.exists(old):
            try:
                om = json.load(open(old))
                first = om.get('first_eval') or om.get('checks', {}).get(a.pid)
            except Exception:
                first = None
        m = {'breaks': a.pid, 'summary': meta.get('summary'), 'file': meta.get('file'), 'needs': meta.get('needs'),
             'confirmed': {'demo_without_exit': out['demo_without'], 'demo_with_exit': out['demo_with'],
                           'baseline_60_pass_with_change': True, 'repo_head': head,
                           'ran': 'harness/seed_eval.py %s %s (scratch worktree, SC3_REPO)' % (a.pid, a.k)},
             'checks': out['checks']}
        m['first_eval'] = first or out['checks'].get(a.pid)
        if os.path.exists(old):
            try:
                jo = json.load(open(old)).get('judged_outside')
                if jo:
                    m['judged_outside'] = jo
            except Exception:
                pass
        json.dump(m, open(os.path.join(dst, 'meta.json'), 'w'), indent=1)
    print(json.dumps({k: v for k, v in out.items() if k != 'author_meta'}, indent=1))


if __name__ == '__main__':
    main()
