"""Independent evaluator used only by search() of C01: interprets a source prog and the final
structure of the SynthDef the REAL library built for it under random rational valuations and
random operator tables, and compares what the effectful units read (a Schwartz-Zippel style
probe for "equal up to the ring identities").  Also checks: every effectful source unit appears
exactly once, every input refers to an earlier unit, arithmetic rates.

A unit instance is identified by (class, rate, values of its inputs): two instances that read the
same values are not distinguished (weaker than the Coq semantics, enough to exhibit failures)."""
from fractions import Fraction
import hashlib

# class -> (stored inputs: argument index or default constant, outputs, effectful)
CAT = {
    'SinOsc': ([0, 1], 1, False), 'Impulse': ([0, 1], 1, False), 'Saw': ([0], 1, True), 'WhiteNoise': ([], 1, True),
    'LFNoise0': ([0], 1, True), 'Line': ([0, 1, 2, 3], 1, True), 'LPF': ([0, 1], 1, False), 'K2A': ([0], 1, False),
    'DC': ([0], 1, False), 'In1': ([0], 1, True), 'In2': ([0], 2, True), 'Pan2': ([0, 1, 2], 2, True),
    'SampleRate': ([], 1, True), 'Rand': ([0, 1], 1, True), 'RandSeed': ([0, 1], 0, True),
    'FFT': ([0, 1, Fraction(1, 2), Fraction(0), Fraction(1), Fraction(0)], 1, True), 'IFFT': ([0, Fraction(0), Fraction(0)], 1, True),
    'Dseries': ([2, 0, 1], 1, True), 'Duty': ([0, 1, Fraction(0), 2], 1, True), 'Demand1': ([0, 1, 2], 1, True),
}
CLS = {'In1': 'In', 'In2': 'In', 'Demand1': 'Demand'}
EFFECTFUL_CLS = {CLS.get(k, k) for k, v in CAT.items() if v[2]} | {'Out'}
RING = {'add': '+', 'sub': '-', 'mul': '*', 'truediv': '/'}
# opcode numbers of SuperCollider (Opcodes.h) for the python selector names the generator uses
UN_OPC = {'neg': 0, 'abs': 5, 'ceil': 8, 'floor': 9, 'frac': 10, 'sign': 11, 'squared': 12, 'cubed': 13, 'sqrt': 14, 'exp': 15,
          'reciprocal': 16, 'midicps': 17, 'cpsmidi': 18, 'midiratio': 19, 'ratiomidi': 20, 'dbamp': 21, 'ampdb': 22, 'octcps': 23,
          'cpsoct': 24, 'log': 25, 'log2': 26, 'log10': 27, 'sin': 28, 'cos': 29, 'tan': 30, 'asin': 31, 'acos': 32, 'atan': 33,
          'sinh': 34, 'cosh': 35, 'tanh': 36, 'rand': 37, 'rand2': 38, 'linrand': 39, 'bilinrand': 40, 'sum3rand': 41, 'distort': 42,
          'softclip': 43, 'coin': 44, 'rectwindow': 48, 'hanwindow': 49, 'welwindow': 50, 'triwindow': 51, 'ramp': 52, 'scurve': 53}
BIN_OPC = {'add': 0, 'sub': 1, 'mul': 2, 'floordiv': 3, 'truediv': 4, 'mod': 5, 'eq': 6, 'ne': 7, 'lt': 8, 'gt': 9, 'le': 10, 'ge': 11,
           'min': 12, 'max': 13, 'bitand': 14, 'bitor': 15, 'bitxor': 16, 'lcm': 17, 'gcd': 18, 'round': 19, 'roundup': 20, 'trunc': 21,
           'atan2': 22, 'hypot': 23, 'hypotx': 24, 'pow': 25, 'lshift': 26, 'rshift': 27, 'urshift': 28, 'ring1': 30, 'ring2': 31,
           'ring3': 32, 'ring4': 33, 'difsqr': 34, 'sumsqr': 35, 'sqrsum': 36, 'sqrdif': 37, 'absdif': 38, 'thresh': 39, 'amclip': 40,
           'scaleneg': 41, 'clip2': 42, 'excess': 43, 'fold2': 44, 'wrap2': 45, 'rrand': 47, 'exprand': 48}
RATE_NUM = {'scalar': 0, 'control': 1, 'audio': 2, 'demand': 3}


class Interp:
    def __init__(self, seed):
        self.seed = seed

    def h(self, *key):
        d = hashlib.sha1(repr((self.seed,) + key).encode()).digest()
        return Fraction(int.from_bytes(d[:3], 'big') % 1009 + 1, int.from_bytes(d[3:5], 'big') % 13 + 1)

    def unit(self, cls, rate, xs, ch):
        return self.h('u', cls, rate, ch) + sum((self.h('w', cls, k) * x + x * x * (k + 1) for k, x in enumerate(xs)), Fraction(0))

    def un(self, code, x):
        return self.h('un', code) + x * x * self.h('un2', code) - x

    def bin(self, code, x, y):
        return self.h('b', code) + x * self.h('b1', code) - y * self.h('b2', code) + x * y

    def ctl(self, slot):
        return self.h('c', slot)


def eval_source(prog, I):
    """-> (sorted list of observations (cls, rate, values), list of effectful (cls, rate) instances)"""
    nir = len(prog.get('ir', []))
    vals, obs = [], []

    def arg(a):
        if a[0] == 'c':
            return Fraction(a[1])
        if a[0] == 'p':
            return I.ctl(a[2] if a[1] == 'ir' else nir + a[2])
        return vals[a[1]][a[2]]
    for ins in prog['ins']:
        k = ins[0]
        if k == 'U':
            _, name, rate, args = ins
            spec, nout, eff = CAT[name]
            a = [arg(x) for x in args]
            xs = [a[s] if isinstance(s, int) else s for s in spec]
            cls = CLS.get(name, name)
            if cls == 'DC':
                vals.append([xs[0]])
            else:
                vals.append([I.unit(cls, rate, xs, ch) for ch in range(max(nout, 1))])
            if eff:
                obs.append((cls, rate, tuple(xs)))
        elif k == 'un':
            x = arg(ins[2])
            vals.append([-x if ins[1] == 'neg' else I.un(UN_OPC[ins[1]], x)])
        elif k == 'bin':
            x, y = arg(ins[2]), arg(ins[3])
            op = ins[1]
            if op == 'add':
                v = x + y
            elif op == 'sub':
                v = x - y
            elif op == 'mul':
                v = x * y
            elif op == 'truediv':
                v = x / y
            else:
                v = I.bin(BIN_OPC[op], x, y)
            vals.append([v])
        elif k == 'madd':
            vals.append([arg(ins[1]) * arg(ins[2]) + arg(ins[3])])
        elif k == 'sum':
            vals.append([sum((arg(x) for x in ins[1]), Fraction(0))])
        elif k in ('sum3', 'sum4'):
            vals.append([sum((arg(x) for x in ins[1:]), Fraction(0))])
        elif k == 'out':
            obs.append(('Out', ins[1], tuple([arg(ins[2])] + [arg(x) for x in ins[3]])))
            vals.append([])
        elif k == 'raise':
            raise RuntimeError('raise')
    return sorted(obs, key=repr)


def eval_graph(desc, I):
    """desc = c01_lib.describe(...) of the real SynthDef.  -> (sorted observations, structural problems)"""
    tab, obs, problems = [], [], []
    for idx, (cls, rate, ins, nouts, special) in enumerate(desc['units']):
        xs, in_rates = [], []
        for i in ins:
            if i[0] == 'c':
                xs.append(Fraction(i[1]))
                in_rates.append(0)
            else:
                if not (0 <= i[1] < idx):
                    problems.append('unit %d (%s) reads unit %d which is not earlier' % (idx, cls, i[1]))
                    xs.append(Fraction(0))
                    in_rates.append(0)
                    continue
                src = tab[i[1]]
                if i[2] >= len(src):
                    problems.append('unit %d (%s) reads output %d of unit %d' % (idx, cls, i[2], i[1]))
                    xs.append(Fraction(0))
                else:
                    xs.append(src[i[2]])
                in_rates.append(RATE_NUM[desc['units'][i[1]][1]])
        if cls == 'BinaryOpUGen':
            x, y = xs
            v = {0: lambda: x + y, 1: lambda: x - y, 2: lambda: x * y, 4: lambda: x / y}.get(special, lambda: I.bin(special, x, y))()
            row = [v]
        elif cls == 'UnaryOpUGen':
            row = [-xs[0] if special == 0 else I.un(special, xs[0])]
        elif cls == 'MulAdd':
            row = [xs[0] * xs[1] + xs[2]]
        elif cls in ('Sum3', 'Sum4'):
            row = [sum(xs, Fraction(0))]
        elif cls == 'Control':
            row = [I.ctl(special + j) for j in range(nouts)]
        elif cls == 'DC':
            row = [xs[0]]
        else:
            row = [I.unit(cls, rate, xs, ch) for ch in range(max(nouts, 1))]
            if cls in EFFECTFUL_CLS:
                obs.append((cls, rate, tuple(xs)))
        if cls in ('BinaryOpUGen', 'UnaryOpUGen', 'MulAdd', 'Sum3', 'Sum4') and 3 not in in_rates and rate != 'demand':
            if RATE_NUM[rate] != max(in_rates or [0]):
                problems.append('arithmetic unit %d (%s) runs at %s but its fastest input is rate %d' % (idx, cls, rate, max(in_rates or [0])))
        tab.append(row)
    return sorted(obs, key=repr), problems


def compare(prog, desc, seeds=(1, 2, 3)):
    """-> None when the emitted graph denotes the source, else a text describing the difference."""
    for s in seeds:
        I = Interp(s)
        try:
            a = eval_source(prog, I)
            b, problems = eval_graph(desc, I)
        except ZeroDivisionError:
            continue
        if problems:
            return problems[0]
        if a != b:
            only_a = [o for o in a if o not in b]
            only_b = [o for o in b if o not in a]
            return ('effectful units differ under valuation %d: source has %s, emitted graph has %s'
                    % (s, [(o[0], o[1], [str(x) for x in o[2]]) for o in only_a[:2]],
                       [(o[0], o[1], [str(x) for x in o[2]]) for o in only_b[:2]]))
    return None
