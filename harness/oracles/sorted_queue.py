"""Independent reference for C09: a stable priority queue kept as a plain sorted list.

Shares no code with sc3 nor with the Coq model.  Used only to LOOK FOR failing
inputs on the implementation (search) and to compute expectations of the indirect
users.  Encodings are those of harness/impl/c09_taskq.py:

  ops : ['add', ['I'|'F', 'num/den'], tid] ['remove', tid] ['pop'] ['peek', bool]
        ['empty'] ['clear'] ['iter']
  outs: ['N'] | ['T', 'num/den', tid] | ['K'] | ['B', bool] | ['L', [['num/den', tid], ...]]
"""
from fractions import Fraction

CLAUSES = ('order', 'fifo-on-ties', 'at-most-once', 're-add', 'remove-frame', 'empty',
           'peek-small', 'peek-large', 'iter', 'prio-identity', 'bookkeeping', 'error-path', 'other')


class SortedListQueue:
    """List of (prio, seq, task) always sorted by (prio, seq); seq grows globally."""

    def __init__(self):
        self.items = []
        self.seq = 0

    def add(self, prio, task):
        self.remove(task)                      # re-add: the old entry goes away ...
        self.items.append((prio, self.seq, task))   # ... the new one is the latest
        self.seq += 1
        self.items.sort(key=lambda x: (x[0], x[1]))

    def remove(self, task):
        self.items = [x for x in self.items if x[2] != task]

    def pop(self):
        if not self.items:
            raise KeyError('empty')
        p, _, t = self.items.pop(0)
        return (p, t)

    def peek(self, smallest=True):
        if not self.items:
            raise KeyError('empty')
        p, _, t = self.items[0 if smallest else -1]
        return (p, t)

    def empty(self):
        return not self.items

    def clear(self):
        self.items = []

    def __iter__(self):
        return iter([(p, t) for p, _, t in self.items])

    def __contains__(self, task):
        return any(x[2] == task for x in self.items)


def prio_of(enc):
    """Exact value of an encoded priority (ints and floats compare by value)."""
    return Fraction(enc[1])


def tag_of(enc):
    """type-and-sign tag of the priority object an encoded priority denotes (see impl tag())."""
    k, v = enc[0], Fraction(enc[1])
    if k == 'I': return 'int:%d' % int(v)
    if k == 'B': return 'bool:%r' % bool(int(v))
    if k == 'Q': return 'Fraction:%s' % v
    if k == 'Z': return 'float:-0.0'
    return 'float:%r' % float(v)


def strip(o):
    """output without the priority tags"""
    if o and o[0] == 'T': return o[:3]
    if o and o[0] == 'L' and isinstance(o[1], list): return ['L', [x[:2] for x in o[1]]]
    return o


def ref_step(q, op):
    k = op[0]
    tags = q.__dict__.setdefault('tags', {})
    if k == 'add':
        q.add(prio_of(op[1]), op[2]); tags[op[2]] = tag_of(op[1]); return ['N']
    if k == 'remove':
        q.remove(op[1]); return ['N']
    if k == 'clear':
        q.clear(); return ['N']
    if k == 'empty':
        return ['B', q.empty()]
    if k == 'iter':
        return ['L', [[str(p), t, tags.get(t)] for p, t in q]]
    try:
        p, t = q.pop() if k == 'pop' else q.peek(bool(op[1]))
        return ['T', str(p), t, tags.get(t)]
    except KeyError:
        return ['K']


def run_reference(ops):
    """reference outputs for the model-alphabet part of a history (python-only ops are flattened away)"""
    q = SortedListQueue()
    return [ref_step(q, op) for op in flatten(ops, [])[0]]


def _items_clause(exp, got, q, readded, gone):
    """Name the clause broken when a sequence of (prio, task) items departs from the expected one.
    exp/got: lists of [fracstr, tid]; q: reference queue BEFORE the op."""
    gt = [t for _, t in got]
    if len(set(gt)) != len(gt):
        return 'at-most-once'
    for p, t in got:
        if t not in q:
            return 'remove-frame' if gone.get(t) == 'removed' else 'at-most-once'
        if [x for x in q.items if x[2] == t][0][0] != Fraction(p):
            return 're-add'                      # a live task shown at a time that is not its latest
    if len(got) < len(exp):
        missing = [t for _, t in exp if t not in gt]
        if missing and len(exp) - len(got) == len(missing):
            return 'remove-frame' if any(g == 'removed' for g in gone.values()) else 'order'
    gp = [Fraction(p) for p, _ in got]
    if any(a > b for a, b in zip(gp, gp[1:])) or (exp and got and Fraction(got[0][0]) != Fraction(exp[0][0])):
        return 'order'
    involved = {t for a, b in zip(exp, got) if a != b for t in (a[1], b[1])}
    return 're-add' if involved & readded else 'fifo-on-ties'


def first_violation(ops, outs):
    """(index, clause, text) of the first op whose implementation output departs from the
    reference, or None."""
    q = SortedListQueue()
    readded, gone = set(), {}                   # tasks whose live entry comes from a re-add; how a task left
    for i, op in enumerate(ops):
        got = outs[i] if i < len(outs) else ['X', 'missing']
        k = op[0]
        before = SortedListQueue(); before.items = list(q.items); before.seq = q.seq
        if k == 'add':
            (readded.add if op[2] in q else readded.discard)(op[2]); gone.pop(op[2], None)
        elif k == 'remove' and op[1] in q:
            gone[op[1]] = 'removed'; readded.discard(op[1])
        elif k == 'clear':
            readded.clear(); gone = {t: 'removed' for _, _, t in q.items}
        exp = ref_step(q, op)
        if k == 'pop' and exp[0] == 'T':
            gone[exp[2]] = 'popped'; readded_before = set(readded); readded.discard(exp[2])
        else:
            readded_before = readded
        tagged = (got[:1] == ['T'] and len(got) > 3) or (got[:1] == ['L'] and any(len(x) > 2 for x in got[1]))
        if strip(got) == strip(exp):
            if tagged and got != exp:
                return (i, 'prio-identity', 'op %d %s: implementation %s, reference %s: the priority handed back is not the '
                        'object that was added (type or sign changed): clause prio-identity' % (i, op, got, exp))
            continue
        got, exp = strip(got), strip(exp)
        if got[0] == 'X' or got[0] != exp[0] and not ({got[0], exp[0]} <= {'T', 'K'}):
            clause = 'other'
        elif k == 'empty':
            clause = 'empty'
        elif k == 'peek':
            clause = 'peek-small' if op[1] else 'peek-large'
        elif k == 'iter':
            c = _items_clause(exp[1], got[1], before, readded_before, gone)
            clause = c if c in ('at-most-once', 'remove-frame', 're-add') else 'iter'
        elif k == 'pop':
            e = [[exp[1], exp[2]]] if exp[0] == 'T' else []
            g = [[got[1], got[2]]] if got[0] == 'T' else []
            if not g:
                clause = 'empty' if not e else ('remove-frame' if any(v == 'removed' for v in gone.values()) else 'order')
            else:
                clause = _items_clause(e, g, before, readded_before, gone)
        else:
            clause = 'other'
        return (i, clause, 'op %d %s: implementation %s, reference %s: clause %s' % (i, op, got, exp, clause))
    return None


PYONLY = ('tasks', 'addbad', 'removebad', 'iterk')


def flatten(ops, outs, probes=None):
    """Histories may contain python-only ops.  Returns (flat ops, flat outs, flat probes, extras):
    the flat history is over the model alphabet (inner ops of an interleaved iteration included);
    extras = [('bad', i, out, probe before, probe after) | ('iterk', i, flat index before, flat index after, out)]."""
    fo, fr, fp, extras = [], [], [], []
    prev = None
    for i, op in enumerate(ops):
        o = outs[i] if i < len(outs) else ['X', 'missing']
        pr = probes[i] if probes and i < len(probes) else None
        k = op[0]
        if k == 'tasks':
            pass
        elif k in ('addbad', 'removebad'):
            extras.append(('bad', i, o, prev, pr))
        elif k == 'iterk':
            a = len(fo)
            ok = o[0] == 'I' and len(o) >= 5
            for n, inner in enumerate(op[2]):
                io = o[3][n] if ok and n < len(o[3]) else ['X', 'missing']
                ip = o[4][n] if ok and n < len(o[4]) else None
                if inner[0] in ('addbad', 'removebad'):
                    extras.append(('bad', i, io, prev, ip))
                elif inner[0] not in PYONLY:
                    fo.append(inner); fr.append(io); fp.append(ip)
                prev = ip if ip is not None else prev
            extras.append(('iterk', i, a, len(fo), o))
        else:
            fo.append(op); fr.append(o); fp.append(pr)
        prev = pr if pr is not None else prev
    return fo, fr, fp, extras


def monitor(ops, res):
    """First departure of a full implementation result {'outs', 'probes'} from the property:
    outputs against the reference queue, bookkeeping after EVERY op, unhashable tasks, interleaved iteration.
    Returns None or (index, clause, text)."""
    fo, fr, fp, extras = flatten(ops, res['outs'], res.get('probes'))
    v = first_violation(fo, fr)
    if v:
        return v
    q = SortedListQueue()
    contents = [[]]                                   # reference contents before flat op i / after the last
    for i, op in enumerate(fo):
        ref_step(q, op)
        contents.append([[str(p), t] for p, t in q])
        pr = fp[i]
        if pr is None:
            continue
        n = len(contents[-1])
        if pr[0] == 'X' or not (pr[1] == pr[2] and pr[0] - pr[2] == pr[3] == pr[5] == n and pr[4] == (n == 0)):
            return (i, 'bookkeeping', 'after op %d %s: [len(_queue), _removed_counter, tombstones, len(_entry_finder), empty(), '
                    'len(list(q))] = %s but the queue holds %d items: clause bookkeeping' % (i, op, pr, n))
    for e in extras:
        if e[0] == 'bad':
            _, i, o, before, after = e
            # remove() of an unhashable task may also "do nothing" (CPython's dict.pop on an EMPTY dict does not hash)
            quiet = ops[i][0] == 'removebad' or any(x[0] == 'removebad' for x in (ops[i][2] if ops[i][0] == 'iterk' else []))
            if not (o == ['X', 'TypeError'] or (quiet and o == ['N'])) or (before is not None and after != before):
                return (i, 'error-path', 'op %d %s with an unhashable task: outcome %s, bookkeeping %s -> %s (expected TypeError '
                        'and no change): clause error-path' % (i, ops[i], o, before, after))
        else:
            _, i, a, b, o = e
            if o[0] != 'I':
                return (i, 'iter', 'op %d %s: interleaved iteration failed with %s: clause iter' % (i, ops[i], o))
            seq = [x[:2] for x in o[1] + o[2]]
            ts, ids = [Fraction(x[0]) for x in seq], [x[1] for x in seq]
            member = contents[a] + contents[b]
            why = ('times decrease' if any(x > y for x, y in zip(ts, ts[1:])) else
                   'a task is yielded twice' if len(set(ids)) != len(ids) else
                   'an item that was never queued is yielded' if any(x not in member for x in seq) else
                   'the items before the modification are not the head of the queue' if o[1] and
                   [x[:2] for x in o[1]] != contents[a][:len(o[1])] else None)
            if why:
                return (i, 'iter', 'op %d %s: iterating while the queue is modified yields %s + %s (%s); queue before %s, '
                        'after %s: clause iter' % (i, ops[i], o[1], o[2], why, contents[a], contents[b]))
    return None


def check_property(ops, outs):
    fo, fr, _, _ = flatten(ops, outs)
    v = first_violation(fo, fr)
    return None if v is None else v[2]
