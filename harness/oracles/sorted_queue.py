"""Independent reference for C09: a stable priority queue kept as a plain sorted list.

Shares no code with sc3 nor with the Coq model.  Used only to LOOK FOR failing
inputs on the implementation (search) and to compute expectations of the indirect
users.  Encodings are those of harness/impl/c09_taskq.py:

  ops : ['add', ['I'|'F', 'num/den'], tid] ['remove', tid] ['pop'] ['peek', bool]
        ['empty'] ['clear'] ['iter']
  outs: ['N'] | ['T', 'num/den', tid] | ['K'] | ['B', bool] | ['L', [['num/den', tid], ...]]
"""
from fractions import Fraction

CLAUSES = ('order', 'fifo-on-ties', 'at-most-once', 're-add', 'remove-frame', 'empty',
           'peek-small', 'peek-large', 'iter', 'other')


class SortedListQueue:
    """List of (prio, seq, task) always sorted by (prio, seq); seq grows globally."""

    def __init__(self):
        self.items = []
        self.seq = 0

    def add(self, prio, task):
        self.remove(task)                      # re-add: the old entry goes away ...
        self.items.append((prio, self.seq, task))   # ... the new one is the latest
        self.seq += 1
        self.items.sort(key=lambda x: (x[0], x[1]))

    def remove(self, task):
        self.items = [x for x in self.items if x[2] != task]

    def pop(self):
        if not self.items:
            raise KeyError('empty')
        p, _, t = self.items.pop(0)
        return (p, t)

    def peek(self, smallest=True):
        if not self.items:
            raise KeyError('empty')
        p, _, t = self.items[0 if smallest else -1]
        return (p, t)

    def empty(self):
        return not self.items

    def clear(self):
        self.items = []

    def __iter__(self):
        return iter([(p, t) for p, _, t in self.items])

    def __contains__(self, task):
        return any(x[2] == task for x in self.items)


def prio_of(enc):
    """Exact value of an encoded priority (ints and floats compare by value)."""
    return Fraction(enc[1])


def ref_step(q, op):
    k = op[0]
    if k == 'add':
        q.add(prio_of(op[1]), op[2]); return ['N']
    if k == 'remove':
        q.remove(op[1]); return ['N']
    if k == 'clear':
        q.clear(); return ['N']
    if k == 'empty':
        return ['B', q.empty()]
    if k == 'iter':
        return ['L', [[str(p), t] for p, t in q]]
    try:
        p, t = q.pop() if k == 'pop' else q.peek(bool(op[1]))
        return ['T', str(p), t]
    except KeyError:
        return ['K']


def run_reference(ops):
    q = SortedListQueue()
    return [ref_step(q, op) for op in ops]


def _items_clause(exp, got, q, readded, gone):
    """Name the clause broken when a sequence of (prio, task) items departs from the expected one.
    exp/got: lists of [fracstr, tid]; q: reference queue BEFORE the op."""
    gt = [t for _, t in got]
    if len(set(gt)) != len(gt):
        return 'at-most-once'
    for p, t in got:
        if t not in q:
            return 'remove-frame' if gone.get(t) == 'removed' else 'at-most-once'
        if [x for x in q.items if x[2] == t][0][0] != Fraction(p):
            return 're-add'                      # a live task shown at a time that is not its latest
    if len(got) < len(exp):
        missing = [t for _, t in exp if t not in gt]
        if missing and len(exp) - len(got) == len(missing):
            return 'remove-frame' if any(g == 'removed' for g in gone.values()) else 'order'
    gp = [Fraction(p) for p, _ in got]
    if any(a > b for a, b in zip(gp, gp[1:])) or (exp and got and Fraction(got[0][0]) != Fraction(exp[0][0])):
        return 'order'
    involved = {t for a, b in zip(exp, got) if a != b for t in (a[1], b[1])}
    return 're-add' if involved & readded else 'fifo-on-ties'


def first_violation(ops, outs):
    """(index, clause, text) of the first op whose implementation output departs from the
    reference, or None."""
    q = SortedListQueue()
    readded, gone = set(), {}                   # tasks whose live entry comes from a re-add; how a task left
    for i, op in enumerate(ops):
        got = outs[i] if i < len(outs) else ['X', 'missing']
        k = op[0]
        before = SortedListQueue(); before.items = list(q.items); before.seq = q.seq
        if k == 'add':
            (readded.add if op[2] in q else readded.discard)(op[2]); gone.pop(op[2], None)
        elif k == 'remove' and op[1] in q:
            gone[op[1]] = 'removed'; readded.discard(op[1])
        elif k == 'clear':
            readded.clear(); gone = {t: 'removed' for _, _, t in q.items}
        exp = ref_step(q, op)
        if k == 'pop' and exp[0] == 'T':
            gone[exp[2]] = 'popped'; readded_before = set(readded); readded.discard(exp[2])
        else:
            readded_before = readded
        if got == exp:
            continue
        if got[0] == 'X' or got[0] != exp[0] and not ({got[0], exp[0]} <= {'T', 'K'}):
            clause = 'other'
        elif k == 'empty':
            clause = 'empty'
        elif k == 'peek':
            clause = 'peek-small' if op[1] else 'peek-large'
        elif k == 'iter':
            c = _items_clause(exp[1], got[1], before, readded_before, gone)
            clause = c if c in ('at-most-once', 'remove-frame', 're-add') else 'iter'
        elif k == 'pop':
            e = [[exp[1], exp[2]]] if exp[0] == 'T' else []
            g = [[got[1], got[2]]] if got[0] == 'T' else []
            if not g:
                clause = 'empty' if not e else ('remove-frame' if any(v == 'removed' for v in gone.values()) else 'order')
            else:
                clause = _items_clause(e, g, before, readded_before, gone)
        else:
            clause = 'other'
        return (i, clause, 'op %d %s: implementation %s, reference %s: clause %s' % (i, op, got, exp, clause))
    return None


def check_property(ops, outs):
    v = first_violation(ops, outs)
    return None if v is None else v[2]
