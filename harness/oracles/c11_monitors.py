"""C11: monitors of the documented routine state machine, evaluated directly on what the REAL
library did (harness/impl/c11_run.py 'struct' + 'log').  They share no code with the Coq
model; they are used only to look for a concrete failing history (fw stage 5).

States: 0 Init, 1 Running, 2 Suspended, 3 Paused, 4 Done.
Outcome encodings: [0, *val] returned, [1, code] raised (1 StopStream, 2 PausedStream,
3 RoutineException, ...)."""

STOP = [1, 1]
PAUSED = [1, 2]
REFUSED = [1, 3]


def table(state, op):
    """documented transition of a top-level (outside) call on a routine that is not running"""
    if op == 'stop': return 4
    if op == 'reset': return 0
    if op == 'pause': return 3 if state in (0, 2) else state
    if op == 'resume': return 2 if state == 3 else state
    if op == 'play': return 2 if state in (0, 3) else state
    return None


def check(case, res):
    """-> list of (monitor, theorem, op_index, text)"""
    bad = []
    st = res.get('struct') or []
    nr = len(case['defs'])
    prev = {'cur': 0, 'main_secs': 0, 'states': [0] * nr, 'queue': [],
            'cells': [{'flow': k == 'flow', 'test': False, 'value': None, 'waiting': []} for k in case['cells']]}
    last_next_stop = {}     # routine -> op index of a next() that raised StopStream, not yet invalidated
    for i, (op, s) in enumerate(zip(case['ops'], st)):
        # M1: the thread stack is the caller's after every top-level operation
        if s['cur'] != 0:
            who = 'None' if s['cur'] == -1 else 'routine %d' % (s['cur'] - 1)
            bad.append(('current_tt', 'thread_stack_restored', i,
                        'after op %d %s main.current_tt is %s, not main.main_tt' % (i, op, who)))
        if op[0] != 'tick' and s['main_secs'] != prev['main_secs']:
            bad.append(('main_secs', 'thread_stack_restored', i,
                        'op %d %s changed the logical time of the main thread' % (i, op)))
        rq = [e[1] for e in s['queue']]
        if len(rq) != len(set(rq)):
            bad.append(('one_pending', 'one_pending_wakeup_per_routine', i,
                        'after op %d %s a routine has two pending wake-ups: %s' % (i, op, s['queue'])))
        if any(p != -1 for p in s.get('parents', [])):
            bad.append(('parent_left', 'thread_stack_restored', i,
                        'after op %d %s a routine still has a parent: %s' % (i, op, s['parents'])))
        if any(x == 1 for x in s['states']):
            bad.append(('running_outside', 'thread_stack_restored', i,
                        'after op %d %s a routine is still Running' % (i, op)))
        if op[0] == 'call' and prev['cur'] == 0:
            c = op[1]
            k = c[0]
            if k in ('stop', 'reset', 'pause', 'resume', 'play'):
                r = c[1]
                want = table(prev['states'][r], k)
                if prev['states'][r] != 1 and (s['states'][r] != want or s['out'][0] != 0):
                    bad.append(('table', 'routine_transitions', i,
                                'op %d %s: state %d -> %d, documented %d (outcome %s)' % (
                                    i, op, prev['states'][r], s['states'][r], want, s['out'])))
                if k == 'reset':
                    last_next_stop.pop(r, None)
                if k == 'stop' and prev['states'][r] != 1 and s.get('lastv', [[0]] * nr)[r] != [0]:
                    bad.append(('stop_clears', 'routine_transitions', i,
                                'op %d %s left _last_value = %s (documented: None)' % (i, op, s['lastv'][r])))
                if k in ('reset', 'stop') and prev['states'][r] != 1 and not s.get('fresh', [True] * nr)[r]:
                    bad.append(('not_initial', 'routine_transitions', i,
                                'op %d %s left the old generator in place: the routine is not back in its initial state' % (i, op)))
            if k == 'next':
                r = c[1]
                b = prev['states'][r]
                if b in (0, 1, 2):
                    # a body ran: it may have reset / re-run any routine, forget what was expected
                    last_next_stop.clear()
                if b == 3 and (s['out'] != PAUSED or s['states'][r] != 3):
                    bad.append(('paused', 'paused_until_resume', i,
                                'op %d next() on a Paused routine: outcome %s state %d' % (i, s['out'], s['states'][r])))
                tv = (prev.get('terms') or [None] * nr)[r]
                if b == 4 and tv is not None and s['out'] != [0] + tv:
                    bad.append(('terminal_returned', 'done_is_absorbing_until_reset', i,
                                'op %d next() on a Done routine whose recorded terminal value is %s gave %s' % (i, tv, s['out'])))
                if b == 4 and s['states'][r] != 4:
                    bad.append(('done', 'done_is_absorbing_until_reset', i,
                                'op %d next() on a Done routine left it in state %d' % (i, s['states'][r])))
                if r in last_next_stop and s['out'] != STOP:
                    bad.append(('stale_terminal', 'done_is_absorbing_until_reset', i,
                                'next() of routine %d raised at op %d but at op %d (no reset in between) '
                                'it gave %s instead of StopStream' % (r, last_next_stop[r], i, s['out'])))
                if s['out'][0] == 1 and s['out'] != PAUSED and s['cur'] == 0:
                    # raised (exhaustion, failure, already Done): from now on StopStream until reset
                    last_next_stop[r] = i
                if s['out'][0] == 1 and s['out'][1] not in (2,) and s['states'][r] not in (4,) and b in (0, 2):
                    bad.append(('failure_not_done', 'routine_transitions', i,
                                'op %d next() raised %s but the routine is in state %d, not Done' % (i, s['out'], s['states'][r])))
            if k in ('signal', 'unhang'):
                cc = c[1]
                pw = prev['cells'][cc]['waiting']
                tcode = prev['cells'][cc]['test']          # False/True, or 0/1, or 2/3 = the test callable raises
                raises = tcode in (2, 3) and tcode is not True
                fire = k == 'unhang' or (bool(tcode) and not raises)
                if raises and k == 'signal':
                    if s['out'][0] != 1 or s['cells'][cc]['waiting'] != pw or s['queue'] != prev['queue']:
                        bad.append(('signal_test_raises', 'cond_never_before', i,
                                    'op %d %s: the test callable raises; outcome %s, waiting %s -> %s' % (
                                        i, op, s['out'], pw, s['cells'][cc]['waiting'])))
                elif fire:
                    # one pending wake-up per routine: every routine that was waiting has exactly one
                    # entry afterwards (also if it already had one), the others keep what they had
                    def pend(q, r): return sum(1 for e in q if e[1] == r)
                    others = set(e[1] for e in prev['queue']) | set(e[1] for e in s['queue'])
                    wrong = [r for r in set(pw) if pend(s['queue'], r) != 1] + \
                            [r for r in others - set(pw) if pend(s['queue'], r) != pend(prev['queue'], r)]
                    # FIFO: the woken routines are queued in the order in which they waited (last wait counts)
                    order = []
                    for r in pw:
                        if r in order:
                            order.remove(r)
                        order.append(r)
                    queued = [e[1] for e in s['queue'] if e[1] in set(pw) and e[0] == s['main_secs']]
                    if not wrong and queued != order:
                        bad.append(('signal_order', 'cond_resume_exactly_once_after_signal', i,
                                    'op %d %s: routines waited in order %s but are queued in order %s' % (i, op, order, queued)))
                    if s['cells'][cc]['waiting'] or wrong:
                        bad.append(('signal_once', 'cond_resume_exactly_once_after_signal', i,
                                    'op %d %s with waiting %s: queue %s -> %s, still waiting %s' % (
                                        i, op, pw, prev['queue'], s['queue'], s['cells'][cc]['waiting'])))
                elif s['cells'][cc]['waiting'] != pw or s['queue'] != prev['queue']:
                    bad.append(('signal_before', 'cond_never_before', i,
                                'op %d %s while the test is false changed the waiting list or queued a wake-up' % (i, op)))
            if k == 'flowset':
                cc = c[1]
                if prev['cells'][cc]['flow'] and prev['cells'][cc]['test']:
                    if s['out'] != [1, 9] or s['cells'][cc]['value'] != prev['cells'][cc]['value']:
                        bad.append(('rebind', 'flowvar_single_assignment', i,
                                    'op %d %s on a bound FlowVar: outcome %s value %s' % (i, op, s['out'], s['cells'][cc]['value'])))
        # which routine do waits register?  Everything executed during this op runs below ONE routine: the one the
        # scheduler woke (tick) or the one next() was called on from outside; Condition.wait()/FlowVar.value must
        # register THAT routine (current_tt.thread_player = the routine playing on the clock), however deep the wait is
        root = None
        if op[0] == 'tick' and prev['queue']:
            root = prev['queue'][0][1]
        elif op[0] == 'call' and op[1][0] == 'next':
            root = op[1][1]
        for cc, x in enumerate(s['cells']):
            before, after = prev['cells'][cc]['waiting'], x['waiting']
            new = after[len(before):] if after[:len(before)] == before else after
            if root is None:
                if new and after[:len(before)] == before:
                    bad.append(('wait_registers', 'wait_registers_thread_player', i,
                                'op %d %s ran no routine but added %s to a waiting list' % (i, op, new)))
            elif any(r != root for r in new):
                bad.append(('wait_registers', 'wait_registers_thread_player', i,
                            'op %d %s ran routine %d (and routines nested below it); a wait registered %s instead of the '
                            'routine playing on the clock (%d)' % (i, op, root, [r for r in new if r != root], root)))
        # the clock re-schedules the woken routine iff it returned a number (int/float, not bool), at time + delta.
        # Only judged when the bodies made no calls during this op (they could have scheduled things themselves).
        # a wait that hung registers the routine: the op returned 'hang' (only Condition.wait yields it) and the bodies made no
        # calls (no signal/unhang could have emptied a list): the routine this op entered appears once more in the waiting lists
        if root is not None and s['out'] == [0, 3] and s['cur'] == 0:
            made_calls = any(e[1] == 3 for e in (res.get('log') or [])[prev.get('loglen', 0):s['loglen']])
            cnt = lambda st_: sum(x['waiting'].count(root) for x in st_['cells'])
            if not made_calls and cnt(s) != cnt(prev) + 1:
                bad.append(('wait_enqueues', 'wait_registers_thread_player', i,
                            'op %d %s: routine %d hung on a wait (returned \'hang\') but the waiting lists went from %s to %s: '
                            'it was not registered' % (i, op, root, [x['waiting'] for x in prev['cells']], [x['waiting'] for x in s['cells']])))
        # the routine this op entered is Running for as long as any body code of this op executes: every stop / pause /
        # reset / next aimed at it from ANY routine nested below it must have been refused
        if root is not None:
            for e in (res.get('log') or [])[prev.get('loglen', 0):s['loglen']]:
                if e[1] == 3 and e[2] in (0, 1, 2, 4) and e[3] == root and e[-2:] not in ([1, 3], [1, 8]):
                    bad.append(('ancestor_op', 'self_stop_pause_reset_refused', i,
                                'op %d %s: routine %d, nested below the running routine %d, called its %s() and was not refused '
                                '(outcome %s)' % (i, op, e[0], root, {0: 'next', 1: 'stop', 2: 'pause', 4: 'reset'}[e[2]], e[-2:])))
        # side effects a Routine SUBCLASS adds to reset()/stop() (EventStreamPlayer: rewinds its source stream, runs its
        # cleanup) happen exactly when the operation was accepted - a refused or failed one has NO effect
        subs = s.get('sub') or []
        if any(x is not None for x in subs):
            slice_ = (res.get('log') or [])[prev.get('loglen', 0):s['loglen']]
            for r, now in enumerate(subs):
                if now is None:
                    continue
                before = (prev.get('sub') or [None] * nr)[r] or [0, 0]
                ok = {1: 0, 4: 0}
                if op[0] == 'call' and op[1][0] in ('stop', 'reset') and op[1][1] == r and s['out'][0] == 0:
                    ok[{'stop': 1, 'reset': 4}[op[1][0]]] += 1
                for e in slice_:
                    if e[1] == 3 and e[2] in (1, 4) and e[3] == r and e[-2:] == [0, 0]:
                        ok[e[2]] += 1
                uncaught_possible = any(e[1] == 3 for e in slice_) or op[0] == 'tick' or (op[0] == 'call' and op[1][0] == 'next')
                d_resets, d_runs = now[0] - before[0], now[1] - before[1]
                # accepted calls are always logged (caught or not); an uncaught REFUSED call is not logged and must not count
                if d_resets != ok[4] or d_runs != ok[1] + ok[4]:
                    bad.append(('subclass_effect', 'self_stop_pause_reset_refused', i,
                                'op %d %s: routine %d (a Routine subclass) had %d accepted reset() and %d accepted stop() but its source '
                                'stream was rewound %d times and its cleanup ran %d times: a refused/failed operation had an effect' % (
                                    i, op, r, ok[4], ok[1], d_resets, d_runs)))
        if op[0] == 'tick' and prev['queue']:
            t0, r0 = prev['queue'][0]
            made_calls = any(e[1] == 3 for e in (res.get('log') or [])[prev.get('loglen', 0):s['loglen']])
            mine = [e for e in s['queue'] if e[1] == r0]
            if not made_calls and s['out'][0] == 0:
                number = s['out'][1] in (1, 7)
                want = [[t0 + s['out'][2], r0]] if number else []
                if mine != want:
                    bad.append(('reschedule', 'routine_transitions', i,
                                'op %d tick: routine %d woken at %s returned %s; its wake-ups afterwards: %s, expected %s' % (
                                    i, r0, t0, s['out'][1:], mine, want)))
        if op[0] == 'tick':
            last_next_stop.clear()
        for cc, x in enumerate(s['cells']):
            if prev['cells'][cc]['flow'] and prev['cells'][cc]['test'] and x['value'] != prev['cells'][cc]['value']:
                bad.append(('rebound', 'flowvar_single_assignment', i, 'op %d %s changed the value of a bound FlowVar' % (i, op)))
        prev = s
    for t in res.get('chain_bad') or []:
        bad.append(('parent_chain', 'thread_stack_restored', -1, t))
    # M4: what the bodies themselves saw (log entries [rid, tag, ...])
    for e in res.get('log') or []:
        rid, tag = e[0], e[1]
        if tag == 2:       # [rid, 2, *val, cur_is_self, state, secs]
            cur_is_self, state = e[-3], e[-2]
            if not cur_is_self or state != 1:
                bad.append(('inside_view', 'self_stop_pause_reset_refused', -1,
                            'body of routine %d ran with current_tt is self = %s and state %d (Running = 1)' % (rid, bool(cur_is_self), state)))
        if tag == 3:       # [rid, 3, callkind, target, ..., *outcome]
            kind, target = e[2], e[3]
            if kind in (1, 2, 4) and target == rid and e[-2:] != REFUSED:
                bad.append(('self_op', 'self_stop_pause_reset_refused', -1,
                            'routine %d called its own %s() from inside and it was not refused (outcome %s)' % (
                                rid, {1: 'stop', 2: 'pause', 4: 'reset'}[kind], e[-2:])))
    return bad
