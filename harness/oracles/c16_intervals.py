"""C16 search oracle: an interval-set reference for index allocation.

Shares no code with the Coq model or with sc3.  It only answers
  * does the range handed out overlap a live range / leave the partition?
  * when the implementation said "no space": is there a free run of n indices?
  * is a freed range available again?
A history is a list of ['a', n, r] (alloc n; r = tie-break number) and ['f', addr]."""


class Monitor:
    def __init__(self, size, pos, off):
        self.lo = off + pos           # first allocatable index of the partition
        self.hi = off + size          # one past the last
        self.live = {}                # start -> length

    def max_free_run(self):
        best, cur = 0, self.lo
        for s in sorted(self.live):
            best = max(best, s - cur)
            cur = max(cur, s + self.live[s])
        return max(best, self.hi - cur)

    def on_alloc(self, n, ret):
        """Return None if fine, else a text describing the violation."""
        if n == 0:                    # alloc(0): None or an index of the partition; nothing becomes live
            if ret is not None and not self.lo <= ret <= self.hi:
                return 'alloc(0) returned %r outside the partition [%d,%d)' % (ret, self.lo, self.hi)
            return None
        if ret is None:
            run = self.max_free_run()
            if n >= 1 and run >= n:
                return 'alloc(%d) reported no space although a free run of %d indices exists (live=%s, partition=[%d,%d))' % (
                    n, run, sorted(self.live.items()), self.lo, self.hi)
            return None
        if not isinstance(ret, int) or isinstance(ret, bool):
            return 'alloc(%d) returned %r' % (n, ret)
        if ret < self.lo or ret + n > self.hi:
            return 'alloc(%d) returned [%d,%d) outside the partition [%d,%d)' % (n, ret, ret + n, self.lo, self.hi)
        for s, l in self.live.items():
            if ret < s + l and s < ret + n:
                return 'alloc(%d) returned [%d,%d) overlapping the live range [%d,%d)' % (n, ret, ret + n, s, s + l)
        self.live[ret] = n
        return None

    def on_free(self, addr):
        self.live.pop(addr, None)


def check_structure(a, monitor):
    """Independent (model-free) consistency of the three sites _array / _freed / top on the implementation object,
    and of the used blocks against the monitor's live set.  Returns a text or None."""
    off, size = a.addr_offset, a.size
    if len(a._array) != size:
        return '_array has length %d, size is %d' % (len(a._array), size)
    cur, blocks = monitor.lo, []
    for i, b in enumerate(a._array):
        if b is None:
            continue
        if b.start != off + i:
            return 'block %r stored at index %d (address %d)' % (b, i, off + i)
        if b.start != cur:
            return 'gap or overlap in _array: block %r starts at %d, previous block ended at %d' % (b, b.start, cur)
        if b.size < 1:
            return 'block %r has size %d' % (b, b.size)
        cur = b.start + b.size
        blocks.append(b)
    if cur != monitor.hi:
        return 'blocks end at %d, the partition at %d' % (cur, monitor.hi)
    if blocks and a.top != blocks[-1].start:
        return 'top is %d but the last block starts at %d' % (a.top, blocks[-1].start)
    for x, y in zip(blocks, blocks[1:]):
        if not x.used and not y.used:
            return 'adjacent free blocks %r %r (not coalesced)' % (x, y)
    infreed = {}
    for k, s in a._freed.items():
        for b in s:
            if b.used or b.size != k or not (0 <= b.start - off < size) or a._array[b.start - off] is not b:
                return '_freed[%r] holds %r which is not a free block of _array of that size' % (k, b)
            infreed[b.start] = True
    for b in blocks:
        if not b.used and b.start < a.top and b.start not in infreed:
            return 'free block %r below top is missing from _freed' % (b,)
    used = sorted((b.start, b.size) for b in blocks if b.used)
    if used != sorted(monitor.live.items()):
        return 'used blocks %s differ from the ranges handed out and not freed %s' % (used, sorted(monitor.live.items()))
    return None


def check_history(make_alloc, size, pos, off, ops, set_r=None):
    """Run ops on a fresh implementation allocator; return (index of failing op, text) or None."""
    a = make_alloc(size, pos, off)
    m = Monitor(size, pos, off)
    for k, op in enumerate(ops):
        try:
            if op[0] == 'a' and op[1] < 0:
                return None          # outside the property's alphabet: the history ends here
            if op[0] == 'a':
                if set_r:
                    set_r(op[2])
                ret = a.alloc(op[1])
                bad = m.on_alloc(op[1], ret)
                if bad:
                    return k, bad
            else:
                a.free(op[1])
                m.on_free(op[1])
        except Exception as e:   # no request of the alphabet may raise
            return k, '%s raised %s: %s' % (op, type(e).__name__, e)
        try:
            bad = check_structure(a, m)
        except Exception as e:
            bad = 'structure check raised %s: %s' % (type(e).__name__, e)
        if bad:
            return k, 'after %s: %s' % (op, bad)
    return None


def shrink(fails, ops):
    """Greedy deletion of ops, then decrease of alloc sizes, while fails(ops) stays true."""
    ops = [list(o) for o in ops]
    changed = True
    while changed:
        changed = False
        i = 0
        while i < len(ops):
            cand = ops[:i] + ops[i + 1:]
            if fails(cand):
                ops = cand
                changed = True
            else:
                i += 1
    for o in ops:
        if o[0] == 'a':
            o[2] = 0 if fails([x if x is not o else [o[0], o[1], 0] for x in ops]) else o[2]
    return ops
