"""Independent Python reading of the SuperCollider Server Command Reference (used only by
C17's search()/monitors, never by the model).  Written in a different style from
coq/model/ProtoGrammar.v on purpose: every message is turned into a string of one-letter
tags and matched against a regular expression; counted groups (/n_setn ...) are checked by a
small hand parser.

wire message = [addr, [arg, ...]]  with arg = ['i', n] | ['f', 'p/q'] | ['s', str] |
               ['b', msg] | ['b', ['#', len]] | ['['] | [']'] | [other-tag, ...]
"""
import re

MAPSYM = re.compile(r'^[ac][0-9]+$')


def _collapse_arrays(tags):
    """replace every well-bracketed array of numbers / strings (nesting allowed) by 'A';
    an ill-formed one by 'X'."""
    out, i, n = [], 0, len(tags)
    while i < n:
        t = tags[i]
        if t == '[':
            depth, j, ok = 1, i + 1, True
            while j < n and depth:
                if tags[j] == '[':
                    depth += 1
                elif tags[j] == ']':
                    depth -= 1
                elif tags[j] not in '01ainfsc':
                    ok = False
                j += 1
            out.append('A' if (ok and depth == 0) else 'X')
            i = j
        elif t == ']':
            out.append('X'); i += 1
        else:
            out.append(t); i += 1
    return ''.join(out)


def tag_of(a):
    k = a[0]
    if k == 'i':
        v = a[1]
        if v == 0:
            return '0'
        if v == 1:
            return '1'
        if 2 <= v <= 4:
            return 'a'
        return 'i' if v > 0 else 'n'
    if k == 'f':
        return 'f'
    if k == 's':
        return 'c' if MAPSYM.match(a[1]) else 's'
    if k == 'b':
        return 'B' if a[1][0] == '#' else 'b'
    if k in '[]':
        return k
    return '?'


INT = '[01ain]'
FLAG = '[01]'
ACT = '[01a]'
NUM = '[01ainf]'
STR = '[sc]'
CTL = '[01ainsc]'
VAL = '[01ainfcA]'
NS = '[01ainfsc]'
COMPL = '[bB0]?'

RX = {
    '/s_new': STR + INT + ACT + INT + '(' + CTL + VAL + ')*',
    '/g_new': '(' + INT + ACT + INT + ')+',
    '/p_new': '(' + INT + ACT + INT + ')+',
    '/n_free': INT + '+', '/n_trace': INT + '+', '/n_query': INT + '+',
    '/g_freeAll': INT + '+', '/g_deepFree': INT + '+', '/s_noid': INT + '+',
    '/n_run': '(' + INT + FLAG + ')+', '/g_dumpTree': '(' + INT + FLAG + ')+', '/g_queryTree': '(' + INT + FLAG + ')+',
    '/n_set': INT + '(' + CTL + VAL + ')+',
    '/n_fill': INT + '(' + CTL + INT + NUM + ')+',
    '/n_map': INT + '(' + CTL + INT + ')+', '/n_mapa': INT + '(' + CTL + INT + ')+',
    '/n_mapn': INT + '(' + CTL + INT + INT + ')+', '/n_mapan': INT + '(' + CTL + INT + INT + ')+',
    '/n_before': '(' + INT + INT + ')+', '/n_after': '(' + INT + INT + ')+',
    '/g_head': '(' + INT + INT + ')+', '/g_tail': '(' + INT + INT + ')+',
    '/n_order': ACT + INT + INT + '+',
    '/s_get': INT + CTL + '+', '/s_getn': INT + '(' + CTL + INT + ')+',
    '/b_alloc': INT + INT + INT + COMPL,
    '/b_allocRead': INT + STR + INT + INT + COMPL,
    '/b_allocReadChannel': INT + STR + INT + INT + INT + '*' + COMPL,
    '/b_read': INT + STR + INT + INT + INT + FLAG + COMPL,
    '/b_readChannel': INT + STR + INT + INT + INT + FLAG + INT + '*' + COMPL,
    '/b_write': INT + STR + STR + STR + INT + INT + FLAG + COMPL,
    '/b_free': INT + COMPL, '/b_zero': INT + COMPL, '/b_close': INT + COMPL,
    '/b_set': INT + '(' + INT + NUM + ')+',
    '/b_fill': INT + '(' + INT + INT + NUM + ')+',
    '/b_gen': INT + STR + NS + '*',
    '/b_query': INT + '+', '/b_get': INT + INT + '+', '/b_getn': INT + '(' + INT + INT + ')+',
    '/c_set': '(' + INT + NUM + ')+', '/c_fill': '(' + INT + INT + NUM + ')+',
    '/c_get': INT + '+', '/c_getn': '(' + INT + INT + ')+',
    '/d_recv': 'B' + COMPL, '/d_load': STR + COMPL, '/d_loadDir': STR + COMPL, '/d_free': STR + '+',
    '/sync': INT, '/status': '', '/quit': '', '/clearSched': '', '/version': '', '/rtMemoryStatus': '',
    '/nrt_end': '', '/notify': FLAG + INT + '*', '/dumpOSC': INT, '/error': INT,
    '/u_cmd': INT + INT + STR + NS + '*', '/cmd': STR + NS + '*',
}
RX = {k: re.compile('^' + v + '$') for k, v in RX.items()}

COUNTED = {'/n_setn': (1, 'ctl'), '/b_setn': (1, 'int'), '/c_setn': (0, 'int')}


def _counted(args, skip, keykind):
    if len(args) < skip or any(a[0] != 'i' for a in args[:skip]):
        return 'fixed part'
    rest = args[skip:]
    if not rest:
        return 'no group'
    i = 0
    while i < len(rest):
        k = rest[i]
        if not (k[0] == 'i' or (keykind == 'ctl' and k[0] == 's')):
            return 'group key at %d' % i
        if i + 1 >= len(rest) or rest[i + 1][0] != 'i' or rest[i + 1][1] < 0:
            return 'count at %d' % (i + 1)
        n = rest[i + 1][1]
        vs = rest[i + 2:i + 2 + n]
        if len(vs) != n or any(v[0] not in 'if' for v in vs):
            return 'values of group at %d (count %d)' % (i, n)
        i += 2 + n
    return None


def conforms(msg):
    """-> None when the message conforms, else a short reason."""
    addr, args = msg
    for a in args:
        if a[0] == 'b' and a[1][0] != '#':
            r = conforms(a[1])
            if r:
                return 'completion message %s: %s' % (a[1][0], r)
    if addr in COUNTED:
        return _counted(args, *COUNTED[addr])
    if addr not in RX:
        return 'unknown command ' + addr
    tags = _collapse_arrays([tag_of(a) for a in args])
    if not RX[addr].match(tags):
        return 'arguments %r do not match %s' % (tags, RX[addr].pattern)
    return None


def ids(msg):
    """server-side ids at the id positions of a conforming message: list of (kind, id)."""
    addr, args = msg
    out = []
    iv = lambda k: args[k][1]
    n = len(args)
    if addr == '/s_new':
        if iv(1) != -1:
            out.append(('node', iv(1)))
        out.append(('node', iv(3)))
    elif addr in ('/g_new', '/p_new'):
        for k in range(0, n, 3):
            out += [('node', iv(k)), ('node', iv(k + 2))]
    elif addr in ('/n_free', '/n_trace', '/n_query', '/g_freeAll', '/g_deepFree'):
        out += [('node', iv(k)) for k in range(n)]
    elif addr in ('/n_run', '/g_dumpTree', '/g_queryTree'):
        out += [('node', iv(k)) for k in range(0, n, 2)]
    elif addr in ('/n_before', '/n_after', '/g_head', '/g_tail'):
        out += [('node', iv(k)) for k in range(n)]
    elif addr == '/n_order':
        out += [('node', iv(k)) for k in range(1, n)]
    elif addr in ('/n_set', '/n_setn', '/n_fill', '/s_get', '/s_getn'):
        out.append(('node', iv(0)))
    elif addr in ('/n_map', '/n_mapa'):
        out.append(('node', iv(0)))
        out += [('bus', iv(k)) for k in range(2, n, 2) if iv(k) != -1]
    elif addr in ('/n_mapn', '/n_mapan'):
        out.append(('node', iv(0)))
        out += [('bus', iv(k)) for k in range(2, n, 3) if iv(k) != -1]
    elif addr == '/b_query':
        out += [('buf', iv(k)) for k in range(n)]
    elif addr.startswith('/b_'):
        out.append(('buf', iv(0)))
    elif addr in ('/c_set',):
        out += [('bus', iv(k)) for k in range(0, n, 2)]
    elif addr == '/c_fill':
        out += [('bus', iv(k)) for k in range(0, n, 3)]
    elif addr == '/c_get':
        out += [('bus', iv(k)) for k in range(n)]
    elif addr == '/c_getn':
        out += [('bus', iv(k)) for k in range(0, n, 2)]
    elif addr == '/c_setn':
        k = 0
        while k < n:
            out.append(('bus', iv(k)))
            k += 2 + iv(k + 1)
    for a in args:
        if a[0] == 'b' and a[1][0] != '#':
            out += ids(a[1])
    return out


# add actions of the command reference (/s_new, /g_new): 0 head, 1 tail, 2 before, 3 after, 4 replace;
# keys = the names accepted by the client library
REF_ACTIONS = {'addToHead': 0, 'addToTail': 1, 'addBefore': 2, 'addAfter': 3, 'addReplace': 4,
               'head': 0, 'tail': 1, 'before': 2, 'after': 3, 'replace': 4,
               'h': 0, 't': 1, 'b': 2, 'a': 3, 'r': 4, 0: 0, 1: 1, 2: 2, 3: 3, 4: 4}


# ---------------------------------------------------------------------------------------
# Argument ORDER where the reference distinguishes positions of same-typed fields.  For an
# op of the client API with named parameters, the fixed-position prefix of the command the
# reference prescribes (written from the parameter names of the reference, independently of the
# Coq model and of the library).  `ids` gives the numbers of the client objects involved.

def flag(b):
    return 1 if b else 0


def expected_prefix(op, ids):
    """-> (address, [values...]) the command must start with, or None when the op is not covered.
    ids: dict with 'buf' (bufnum of op['b']), 'dst', 'frames' (frames of the buffer object), 'node', 'target',
    'group', 'bus', 'bus_channels', 'nodes' as far as they apply."""
    o = op['op']
    b = ids.get('buf')
    if o == 'b_copy_data':       # /b_gen dst "copy" dstStartFrame srcBuf srcStartFrame numFrames
        return '/b_gen', [ids['dst'], 'copy', op['dst_start'], b, op['start'], op['n']]
    if o == 'b_read':            # /b_read buf path fileStartFrame numFrames bufStartFrame leaveOpen
        return '/b_read', [b, op['path'], op['fstart'], op['frames'], op['bstart'], flag(op['leave_open'])]
    if o == 'b_read_channel':
        return '/b_readChannel', [b, op['path'], op['fstart'], op['frames'], op['bstart'], flag(op['leave_open'])] + list(op['chans'])
    if o == 'b_cue':             # cue = read numFrames(buffer) from startFrame into frame 0, leave open
        return '/b_read', [b, op['path'], op['start'], ids['frames'], 0, 1]
    if o == 'b_write':           # /b_write buf path header sample numFrames startFrame leaveOpen
        return '/b_write', [b, op['path'], op['header'], op['sample'], op['frames'], op['start'], flag(op['leave_open'])]
    if o == 'b_alloc_read':      # /b_allocRead buf path startFrame numFrames
        return '/b_allocRead', [b, op['path'], op['start'], op['frames']]
    if o == 'b_alloc_read_channel':
        return '/b_allocReadChannel', [b, op['path'], op['start'], op['frames']] + list(op['chans'])
    if o == 'b_new_read':
        return '/b_allocRead', [b, op['path'], op['start'], op['frames']]
    if o == 'b_new_read_channel':
        return '/b_allocReadChannel', [b, op['path'], op['start'], op['frames']] + list(op['chans'])
    if o == 'b_new':
        if not op.get('alloc', True):
            return None
        return '/b_alloc', [b, op['frames'], op['channels']]
    if o == 'b_new_cue':
        return '/b_alloc', [b, op['size'], op['channels']]
    if o == 'b_get':
        return '/b_get', [b, op['index']]
    if o == 'b_getn':
        return '/b_getn', [b, op['index'], op['count']]
    if o == 'bus_fill':          # /c_fill index numBuses value
        return '/c_fill', [ids['bus'], op['channels']]
    if o == 'bus_clear':
        return '/c_fill', [ids['bus'], ids['bus_channels'], 0]
    if o == 'bus_getn':
        return '/c_getn', [ids['bus'], op['count'] if op['count'] is not None else ids['bus_channels']]
    if o == 'n_move_before':     # /n_before: node to move, node to move it before
        return '/n_before', [ids['node'], ids['target']]
    if o == 'n_move_after':
        return '/n_after', [ids['node'], ids['target']]
    if o == 'n_move_to_head':    # /g_head: group, node
        return '/g_head', [ids['group'], ids['node']]
    if o == 'n_move_to_tail':
        return '/g_tail', [ids['group'], ids['node']]
    if o == 's_reorder':         # /n_order addAction target nodes...
        return '/n_order', [REF_ACTIONS[op['action']], ids['target']] + list(ids['nodes'])
    return None


def plain_values(msg, n):
    """first n wire arguments as Python values (None for anything that is not int / float-int / str)"""
    out = []
    for a in msg[1][:n]:
        if a[0] == 'i':
            out.append(a[1])
        elif a[0] == 's':
            out.append(a[1])
        elif a[0] == 'f':
            from fractions import Fraction
            fr = Fraction(a[1])
            out.append(int(fr) if fr.denominator == 1 else float(fr))
        else:
            out.append(None)
    return out
