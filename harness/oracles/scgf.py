"""Independent SCgf version-2 reader and well-formedness / topological-order checker.

Written from the SuperCollider "Synth Definition File Format" description; shares no code with
coq/model/Scgf.v nor with sc3's own reader.  Used only to exhibit a concrete failing input (search()).

    int32 'SCgf', int32 version (2), int16 number of defs
    per def: pstring name
             int32 K, K x float32 constants
             int32 P, P x float32 initial parameter values
             int32 N, N x (pstring name, int32 index)
             int32 U, U x ugen-spec
             int16 V, V x (pstring name, P x float32)
    ugen-spec: pstring class, int8 rate, int32 I, int32 O, int16 special index,
               I x (int32 ugen index | -1, int32 output index | constant index), O x int8 rate
"""
import struct


class FormatError(Exception):
    pass


class Cursor:
    def __init__(self, data):
        self.d = bytes(data)
        self.i = 0

    def take(self, n, what):
        if n < 0 or self.i + n > len(self.d):
            raise FormatError('truncated while reading %s at offset %d (need %d, have %d)' % (
                what, self.i, n, len(self.d) - self.i))
        b = self.d[self.i:self.i + n]
        self.i += n
        return b

    def num(self, fmt, what):
        return struct.unpack(fmt, self.take(struct.calcsize(fmt), what))[0]

    def pstr(self, what):
        n = self.num('B', what + ' length')
        return self.take(n, what)


def parse(data):
    """Return a dict describing the single definition in data, or raise FormatError."""
    c = Cursor(data)
    if c.take(4, 'magic') != b'SCgf':
        raise FormatError('bad magic')
    ver = c.num('>i', 'version')
    if ver != 2:
        raise FormatError('version %d' % ver)
    ndefs = c.num('>h', 'def count')
    if ndefs != 1:
        raise FormatError('%d definitions' % ndefs)
    d = {'name': c.pstr('def name')}

    def count(fmt, what):
        n = c.num(fmt, what)
        if n < 0:
            raise FormatError('negative %s: %d' % (what, n))
        if n > len(c.d) - c.i:
            raise FormatError('truncated: %s = %d exceeds the remaining %d bytes' % (what, n, len(c.d) - c.i))
        return n
    d['consts'] = [c.num('>I', 'constant') for _ in range(count('>i', 'constant count'))]
    d['ctl'] = [c.num('>I', 'control value') for _ in range(count('>i', 'control count'))]
    d['names'] = []
    for _ in range(count('>i', 'name count')):
        nm = c.pstr('control name')
        d['names'].append((nm, c.num('>i', 'control name index')))
    d['units'] = []
    for _ in range(count('>i', 'ugen count')):
        cls = c.pstr('ugen class')
        rate = c.num('b', 'ugen rate')
        ni = c.num('>i', 'input count')
        no = c.num('>i', 'output count')
        sp = c.num('>h', 'special index')
        if ni < 0 or no < 0:
            raise FormatError('negative input/output count in unit %d' % len(d['units']))
        ins = []
        for _ in range(ni):
            a = c.num('>i', 'input spec')
            b = c.num('>i', 'input spec')
            if a < -1:
                raise FormatError('input spec ugen index %d' % a)
            ins.append((a, b))
        outs = [c.num('b', 'output rate') for _ in range(no)]
        d['units'].append({'cls': cls, 'rate': rate, 'ins': ins, 'outs': outs, 'special': sp})
    d['variants'] = []
    for _ in range(count('>h', 'variant count')):
        nm = c.pstr('variant name')
        d['variants'].append((nm, [c.num('>I', 'variant value') for _ in range(len(d['ctl']))]))
    if c.i != len(c.d):
        raise FormatError('%d trailing bytes' % (len(c.d) - c.i))
    return d


CONTROL_CLASSES = (b'Control', b'TrigControl', b'LagControl', b'AudioControl')


def problems(d, order=None):
    """List of well-formedness violations of a parsed definition (empty = fine)."""
    out = []
    nk, nc = len(d['consts']), len(d['ctl'])
    for nm, idx in d['names']:
        if not nm:
            out.append('empty control name')
        if not 0 <= idx < nc:
            out.append('control name %r index %d outside the %d control slots' % (nm, idx, nc))
    for pos, u in enumerate(d['units']):
        if not u['cls']:
            out.append('unit %d has an empty class name' % pos)
        if u['rate'] not in (0, 1, 2, 3):
            out.append('unit %d rate %d' % (pos, u['rate']))
        for r in u['outs']:
            if r not in (0, 1, 2, 3):
                out.append('unit %d output rate %d' % (pos, r))
        for a, b in u['ins']:
            if a == -1:
                if not 0 <= b < nk:
                    out.append('unit %d reads constant %d of %d' % (pos, b, nk))
            elif a >= pos:
                out.append('unit %d (%s) reads unit %d which is not placed strictly earlier' % (
                    pos, u['cls'].decode('latin1'), a))
            elif not 0 <= b < len(d['units'][a]['outs']):
                out.append('unit %d reads output %d of unit %d which has %d outputs' % (
                    pos, b, a, len(d['units'][a]['outs'])))
        if u['cls'] in CONTROL_CLASSES:
            if u['special'] < 0 or u['special'] + len(u['outs']) > nc:
                out.append('control unit %d covers slots %d..%d of %d' % (
                    pos, u['special'], u['special'] + len(u['outs']) - 1, nc))
    if any(len(nm) > 255 for nm, _ in d['variants']):
        out.append('variant name too long')
    if order is not None:
        if len(order) != len(d['units']):
            out.append('creation order list has %d entries for %d units' % (len(order), len(d['units'])))
        for p, (birth, wf) in enumerate(order):
            if wf:
                for q in range(p):
                    if order[q][0] > birth:
                        out.append('width-first unit at position %d (created #%d) comes after position %d (created #%d)' % (
                            p, birth, q, order[q][0]))
                        break
    return out


def check_bytes(data, order=None):
    """None if data is one complete well-formed definition, else a text saying why not."""
    try:
        d = parse(data)
    except FormatError as e:
        return 'does not parse as SCgf-2: %s' % e
    p = problems(d, order)
    return '; '.join(p[:3]) if p else None
