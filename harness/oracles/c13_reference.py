"""C13 reference: what each pattern class is DOCUMENTED to produce (SuperCollider class
library semantics cited by the sc3 sources: ListPatterns.sc, FilterPatterns.sc, Patterns.sc),
written as plain iterator algebra (itertools / comprehensions).  Independent of the sc3
code and of the Coq model; used only by search() to decide whether the implementation
(not the model) is wrong on a concrete expression.

ref(expr, mode) -> iterator;  evaluate(expr, n) -> [[values], 'stop'|'more'|'err']
Values are ints, Fractions (floats), bools, lists, tuples.
"""
import itertools as it
import math
from fractions import Fraction

INF = 'inf'


class Unsupported(Exception):
    """argument combination whose documented meaning this reference does not pin down"""


def dv(v):
    t = v[0]
    if t == 'i':
        return int(v[1])
    if t == 'f':
        return Fraction(v[1])
    if t == 'b':
        return bool(v[1])
    if t == 'l':
        return [dv(x) for x in v[1]]
    if t == 't':
        return tuple(dv(x) for x in v[1])
    if t == 'n':
        return None
    raise ValueError(v)


def ev(r):
    if r is None:
        return ['n']
    if isinstance(r, bool):
        return ['b', int(r)]
    if isinstance(r, int):
        return ['i', str(r)]
    if isinstance(r, Fraction):
        return ['f', '%d/%d' % (r.numerator, r.denominator)]
    if isinstance(r, list):
        return ['l', [ev(x) for x in r]]
    if isinstance(r, tuple):
        return ['t', [ev(x) for x in r]]
    raise TypeError(r)


def counter(r):
    return it.count() if r == INF else range(max(int(r), 0))


def isnum(x):
    return isinstance(x, (int, Fraction)) and not isinstance(x, bool) or isinstance(x, bool)


def need_num(*xs):
    for x in xs:
        if not isinstance(x, (int, Fraction)):
            raise TypeError('number expected')


def isfloat(x):
    return isinstance(x, Fraction)


def same_kind(*xs):
    if any(isinstance(x, bool) for x in xs) or len({isfloat(x) for x in xs}) > 1:
        raise Unsupported('mixed int/float/bool bounds')
    if xs[1] >= xs[2]:
        raise Unsupported('lo >= hi')


def fdiv(a, b):
    need_num(a, b)
    if b == 0:
        raise ZeroDivisionError
    return Fraction(a) / Fraction(b)


def ffloordiv(a, b):
    need_num(a, b)
    if b == 0:
        raise ZeroDivisionError
    q = math.floor(Fraction(a) / Fraction(b))
    return Fraction(q) if (isfloat(a) or isfloat(b)) else q


def fmod(a, b):
    need_num(a, b)
    if b <= 0:
        raise Unsupported('bi.mod with a non-positive modulus follows sclang, not Python (C15)')
    r = Fraction(a) - Fraction(b) * math.floor(Fraction(a) / Fraction(b))
    return r if (isfloat(a) or isfloat(b)) else int(r)


def ints(a, b):
    if isinstance(a, bool) or isinstance(b, bool) or not (isinstance(a, int) and isinstance(b, int)):
        raise TypeError('int operands expected')
    return a


def fpow(a, b):
    need_num(a, b)
    if isinstance(b, bool) or not isinstance(b, int) or isinstance(a, bool):
        raise Unsupported('non-int exponent')
    if b < 0 and a == 0:
        raise ZeroDivisionError
    if isfloat(a) or b < 0:
        return Fraction(a) ** b
    return a ** b


def arith(f):
    def g(a, b):
        need_num(a, b)
        r = f(a, b)
        if isinstance(r, bool):
            return r
        if (isfloat(a) or isfloat(b)) and not isfloat(r):
            r = Fraction(r)
        if not (isfloat(a) or isfloat(b)):
            r = int(r)
        return r
    return g


BIN = {
    'add': arith(lambda a, b: a + b), 'sub': arith(lambda a, b: a - b), 'mul': arith(lambda a, b: a * b),
    'div': fdiv, 'floordiv': ffloordiv, 'mod': fmod,
    'min': lambda a, b: (need_num(a, b), b if b < a else a)[1],
    'max': lambda a, b: (need_num(a, b), b if b > a else a)[1],
    'lt': lambda a, b: (need_num(a, b), a < b)[1], 'le': lambda a, b: (need_num(a, b), a <= b)[1],
    'gt': lambda a, b: (need_num(a, b), a > b)[1], 'ge': lambda a, b: (need_num(a, b), a >= b)[1],
    'eq': lambda a, b: (need_num(a, b), a == b)[1], 'ne': lambda a, b: (need_num(a, b), a != b)[1],
    'pow': lambda a, b: fpow(a, b), 'lshift': lambda a, b: ints(a, b) << b, 'rshift': lambda a, b: ints(a, b) >> b,
    'bitand': lambda a, b: ints(a, b) & b, 'bitor': lambda a, b: ints(a, b) | b, 'bitxor': lambda a, b: ints(a, b) ^ b,
}


class _Named(dict):
    def __missing__(self, k):
        raise Unsupported('named kernel %s: its scalar meaning is C15\'s (see the reflected-form probe)' % k)


BIN = _Named(BIN)


def neg(a):
    need_num(a)
    return -a if not isinstance(a, bool) else -int(a)


def vabs(a):
    need_num(a)
    return abs(a) if not isinstance(a, bool) else int(a)


UN = {'neg': neg, 'abs': vabs}

def _boom(x):
    raise RuntimeError('boom')


def _tofloat(x):
    need_num(x)
    return Fraction(int(x)) if isinstance(x, bool) else Fraction(x)


FUNCS = {
    'float': _tofloat,
    'abs': lambda x: vabs(x),
    'wrap1': lambda x: [x],
    'boom': _boom,
    'inc': lambda x: BIN['add'](x, 1),
    'dbl': lambda x: BIN['mul'](x, 2),
    'neg': neg,
    'pair': lambda x: [x, x],
    'even': lambda x: (need_num(x), Fraction(x) % 2 == 0)[1],
    'lt3': lambda x: BIN['lt'](x, 3),
    'pos': lambda x: BIN['gt'](x, 0),
}


def _allint(*xs):
    return all(isinstance(x, int) and not isinstance(x, bool) for x in xs)


def _nobool(*xs):
    if any(isinstance(x, bool) for x in xs):
        raise Unsupported('bool operand')


def wrap(x, lo, hi):
    """wrap x into [lo, hi] (all ints, inclusive) / [lo, hi) (any float involved).  Written with plain
    int/Fraction arithmetic, so int/float mixes promote exactly as Python numbers do; a value already in
    range is returned as it is."""
    need_num(x, lo, hi)
    _nobool(x, lo, hi)
    if lo >= hi:
        raise Unsupported('lo >= hi')
    if _allint(x, lo, hi):
        return (x - lo) % (hi - lo + 1) + lo
    r = hi - lo
    if x >= hi:
        x = x - r
        if x < hi:
            return x
    elif x < lo:
        x = x + r
        if x >= lo:
            return x
    else:
        return x
    return x - r * math.floor(Fraction(x - lo) / r)


def clip(x, lo, hi):
    """clip x into [lo, hi]; the bounds are cast to the type of x (sc_clip(T x, U lo, V hi))."""
    need_num(x, lo, hi)
    _nobool(x, lo, hi)
    if isfloat(x):
        lo, hi = Fraction(lo), Fraction(hi)
    else:
        lo, hi = math.trunc(lo), math.trunc(hi)
    return max(min(x, hi), lo)


def fold(x, lo, hi):
    need_num(x, lo, hi)
    _nobool(x, lo, hi)
    if lo >= hi:
        raise Unsupported('lo >= hi')
    if _allint(x, lo, hi):
        b = hi - lo
        b2 = b + b
        c = (x - lo) % b2
        if c > b:
            c = b2 - c
        return c + lo
    x2 = x - lo
    if x >= hi:
        x = hi + hi - x
        if x >= lo:
            return x
    elif x < lo:
        x = lo + lo - x
        if x < hi:
            return x
    else:
        return x
    r = hi - lo
    r2 = r + r
    c = x2 - r2 * math.floor(Fraction(x2) / r2)
    if c >= r:
        c = r2 - c
    return c + lo


NAR = {'clip': clip, 'wrap': wrap, 'fold': fold}


def flatten_value(v, levels):
    """Pflatten as implemented by utl.flatten([value], levels) (see notes/C13.md)."""
    def fl(x, lv):
        if lv <= 0:
            return list(x)
        out = []
        for item in x:
            if isinstance(item, list):
                out.extend(fl(item, lv - 1))
            else:
                out.append(item)
        return out
    need_num(levels)
    return fl([v], math.ceil(levels))


def ref(e, mode='str'):
    k = e[0]
    R = ref
    if k == 'val':
        v = dv(e[1])
        return iter([v]) if mode == 'emb' else it.repeat(v)
    if k == 'Pseq':
        items, r, off = e[1], e[2], e[3]
        n = len(items)
        if n == 0:               # a list emptied after construction: nothing to embed
            if r == INF:
                raise Unsupported('spins for ever')
            return iter(())
        rot = [items[(i + off) % n] for i in range(n)]       # wrapAt(i + offset)
        return it.chain.from_iterable(R(x, 'emb') for _ in counter(r) for x in rot)
    if k == 'Pser':
        items, r, off = e[1], e[2], e[3]
        n = len(items)
        if n == 0:               # emptied list: (i + offset) % 0 as soon as it iterates
            if r != INF and r <= 0:
                return iter(())
            raise ZeroDivisionError
        return it.chain.from_iterable(R(items[(i + off) % n], 'emb') for i in counter(r))
    if k == 'Pn':
        return it.chain.from_iterable(R(e[1], 'emb') for _ in counter(e[2]))
    if k == 'Place':
        items, r, off = e[1], e[2], e[3]
        n = len(items)
        if n == 0:
            if r == INF:
                raise Unsupported('spins for ever')
            return iter(())

        def lace():
            for j in counter(r):
                for i in range(n):
                    sub = items[(i + off) % n]
                    if len(sub) == 1 and sub[0][0] == 'val' and sub[0][1][0] in 'lt' and e[4][(i + off) % n]:
                        sub = [['val', x] for x in sub[0][1][1]]     # a list/tuple value is indexed too
                    yield from R(sub[j % len(sub)], 'emb')
        return lace()
    if k == 'Plen':
        return it.islice(R(e[1]), max(e[2], 0))
    if k == 'Pdrop':
        return it.islice(R(e[1]), max(e[2], 0), None)
    if k == 'Pstutter':
        def stut():
            for v, c in zip(R(e[1]), R(e[2])):
                if not isinstance(c, int):
                    raise TypeError
                for _ in range(abs(c)):
                    yield v
        return stut()
    if k == 'Pclump':
        def clump():
            src = R(e[1])
            for c in R(e[2]):
                c = int(c)
                chunk = list(it.islice(src, max(c, 0)))
                if len(chunk) < c:
                    if chunk:
                        yield chunk
                    return
                yield chunk
        return clump()
    if k == 'Pflatten':
        def flat():
            for lv, v in zip(R(e[2]), R(e[1])):
                if isinstance(v, list):
                    yield from flatten_value(v, lv)
                else:
                    yield v
        return flat()
    if k == 'Pdiff':
        def diff():
            src = R(e[1])
            prev = next(src, _END)
            if prev is _END:
                return
            for nx in src:
                yield BIN['sub'](nx, prev)
                prev = nx
        return diff()
    if k == 'Pconst':
        def const():
            total, tol = dv(e[2]), dv(e[3])
            acc = 0
            for v in R(e[1]):
                need_num(v)
                ns = BIN['add'](acc, v)
                # "within tolerance": the running sum rounded up to a multiple of tol reaches total
                q = Fraction(ns) if tol == 0 else math.ceil(Fraction(ns) / Fraction(tol)) * Fraction(tol)
                if q >= total:
                    yield BIN['sub'](total, acc)
                    return
                acc = ns
                yield v
            yield BIN['sub'](total, acc)
        return const()
    if k == 'Pfun':
        kind, f = e[1], FUNCS[e[2]]
        src = R(e[3])
        if kind == 'collect':
            return (f(v) for v in src)
        if kind == 'select':
            return (v for v in src if f(v) is True)
        return (v for v in src if f(v) is False)
    if k == 'Pwrap':
        return (wrap(v, lo, hi) for lo, hi, v in zip(R(e[2]), R(e[3]), R(e[1])))
    if k == 'Punop':
        return (UN[e[1]](a) for a in R(e[2]))
    if k == 'Pbinop':
        f = BIN[e[1]]
        return (f(a, b) for a, b in zip(R(e[2]), R(e[3])))       # ends with the shortest operand
    if k == 'Pnarop':
        f = NAR[e[1]]
        return (f(a, b, c) for a, b, c in zip(R(e[2]), R(e[3]), R(e[4])))
    if k == 'Pif':
        def pif():
            t, f = R(e[2]), R(e[3])
            for c in R(e[1]):
                v = next(t if c else f, _END)
                if v is _END:
                    return
                yield v
        return pif()
    if k in ('Pseries', 'Pgeom'):
        def series():
            cur = dv(e[1])
            for _, st in zip(counter(e[3]), R(e[2])):
                need_num(st)
                yield cur
                cur = BIN['mul'](cur, st) if k == 'Pgeom' else BIN['add'](cur, st)
        return series()
    if k == 'Pswitch':
        def sw():
            items = e[1]
            for i in R(e[2]):
                if not isinstance(i, int):
                    raise TypeError
                yield from R(items[i % len(items)], 'emb')
        return sw()
    if k == 'Pswitch1':
        def sw1():
            streams = [R(x) for x in e[1]]
            for i in R(e[2]):
                if not isinstance(i, int):
                    raise TypeError
                v = next(streams[i % len(streams)], _END)
                if v is _END:
                    return
                yield v
        return sw1()
    if k == 'Ptuple':
        def tup():
            if not e[1]:
                raise ValueError('empty')
            for _ in counter(e[2]):
                streams = [R(x) for x in e[1]]
                while True:
                    vals = []
                    for s in streams:
                        v = next(s, _END)
                        if v is _END:
                            break
                        vals.append(v)
                    else:
                        yield tuple(vals)
                        continue
                    break
        return tup()
    if k == 'Pslide':
        def slide():
            items, start, wrp, r = e[1], e[4], e[5], e[6]
            n = len(items)
            if n == 0:
                raise ValueError('empty')
            pos = start
            lens, steps = R(e[2]), R(e[3])
            for _ in counter(r):
                ln = next(lens, _END)
                if ln is _END:
                    return
                if not isinstance(ln, int):
                    raise TypeError
                for j in range(ln):
                    idx = pos + j
                    if not isinstance(idx, int):
                        raise TypeError
                    if wrp:
                        yield from R(items[idx % n], 'emb')     # indexing wraps around
                    elif 0 <= idx < n:
                        yield from R(items[idx], 'emb')
                    else:
                        return                                   # past the beginning or the end
                st = next(steps, _END)
                if st is _END:
                    return
                need_num(st)
                pos = pos + st
        return slide()
    if k in ('Pseed', 'Prand', 'Pxrand', 'Pwhite'):
        raise Unsupported('random patterns have no draw-free reference')
    raise ValueError('unknown kind %r' % (k,))


_END = object()


def evaluate(e, n):
    vals = []
    try:
        src = ref(e, 'str')
        for _ in range(n):
            v = next(src, _END)
            if v is _END:
                return [vals, 'stop']
            vals.append(ev(v))
        return [vals, 'more']
    except (RecursionError, Unsupported):
        raise
    except Exception:
        return [vals, 'err']
