"""Independent references for C18 used only by search():

* a strict OSC 1.0 reader for the datagrams the harness itself builds (messages with i/s/T/F..
  arguments, bundles, nesting) and a structural check of bundle element sizes;
* a reference dispatcher written directly from the property text: which responders must be
  invoked by a message, per dispatcher, in registration order.
Shares no code with the Coq models or with sc3."""
import struct
from . import oscpattern


class Bad(Exception):
    pass


def _string(d, i):
    j = d.find(b'\0', i)
    if j < 0:
        raise Bad('unterminated string')
    end = (j // 4 + 1) * 4
    if end > len(d) or any(d[j:end]):
        raise Bad('bad padding')
    return d[i:j].decode('utf-8'), end


def read_message(d):
    addr, i = _string(d, 0)
    if i == len(d):
        return addr, []
    tags, i = _string(d, i)
    if tags.startswith(','):
        tags = tags[1:]
    args = []
    for t in tags:
        if t == 'i':
            if i + 4 > len(d):
                raise Bad('short')
            args.append(struct.unpack('>i', d[i:i + 4])[0])
            i += 4
        elif t == 'f':
            if i + 4 > len(d):
                raise Bad('short')
            args.append(struct.unpack('>f', d[i:i + 4])[0])
            i += 4
        elif t == 'd':
            if i + 8 > len(d):
                raise Bad('short')
            args.append(struct.unpack('>d', d[i:i + 8])[0])
            i += 8
        elif t == 'b':
            if i + 4 > len(d):
                raise Bad('short')
            n = struct.unpack('>i', d[i:i + 4])[0]
            if n < 0 or i + 4 + n > len(d):
                raise Bad('blob')
            args.append(d[i + 4:i + 4 + n])
            i += 4 + n + (-n % 4)
        elif t == 's':
            s, i = _string(d, i)
            args.append(s)
        elif t in 'TF':
            args.append(t == 'T')
        else:
            raise Bad('type %r not handled by the reference' % t)
    return addr, args


def read_packet(d):
    """-> list of (timetag|None, addr, args) in delivery order, or raises Bad"""
    if d.startswith(b'#bundle\0'):
        out = []

        def bundle(b):
            if len(b) < 16:
                raise Bad('short bundle')
            tt = struct.unpack('>Q', b[8:16])[0]
            i = 16
            while i < len(b):
                if i + 4 > len(b):
                    raise Bad('short size')
                n = struct.unpack('>i', b[i:i + 4])[0]
                i += 4
                if n < 0 or n % 4 or i + n > len(b):
                    raise Bad('bad element size')
                e = b[i:i + n]
                i += n
                if e.startswith(b'#bundle\0'):
                    bundle(e)
                elif e.startswith(b'/'):
                    out.append((tt,) + read_message(e))
                else:
                    raise Bad('bad element')
        bundle(d)
        return sorted(out, key=lambda x: x[0])          # stable
    if d.startswith(b'/'):
        return [(None,) + read_message(d)]
    raise Bad('not a packet')


def bundle_structure_ok(d):
    """element sizes are non-negative and stay inside their bundle (messages are not inspected)"""
    def bundle(b):
        if len(b) < 16:
            return False
        i = 16
        while i < len(b):
            if i + 4 > len(b):
                return False
            n = struct.unpack('>i', b[i:i + 4])[0]
            i += 4
            if n < 0 or i + n > len(b):
                return False
            e = b[i:i + n]
            i += n
            if e.startswith(b'#bundle\0') and not bundle(e):
                return False
        return True
    return bundle(d) if d.startswith(b'#bundle\0') else True


PREDS = {'pos': lambda x: isinstance(x, int) and not isinstance(x, bool) and x > 0,
         'isstr': lambda x: isinstance(x, str), 'ident': lambda x: x}


def _dec(e):
    k, v = e
    if k == 'i':
        return int(v)
    if k == 's':
        return bytes(v).decode('utf-8')
    if k == 'f':
        return struct.unpack('>d', struct.pack('>Q', int(v)))[0]
    if k == 'B':
        return bool(v)
    raise ValueError(e)


class RefDispatch:
    """What the property says: an incoming message invokes the enabled responders whose path equals
    the address (exact) or is matched over its whole length by the address read as an OSC 1.0
    pattern (matching) and whose filters accept -- each once, in registration order."""

    def __init__(self, ports):
        self.ports = ports
        self.r = []
        self.order = []          # enabled responders, order of their current registration

    def op(self, op):
        """-> None, or the list of expected (rid, tag) per dispatcher {'exact': [...], 'matching': [...]}"""
        k = op[0]
        if k == 'create':
            _, path, matching, src, rif, tmpl, f = op
            if path == '':
                return None                                  # refused (IndexError)
            if isinstance(tmpl, dict):
                tmpl = [tmpl['scalar']]
            self.r.append(dict(path=path if path.startswith('/') else '/' + path, matching=matching, src=src,
                               port=None if rif is None else (0 if rif == 'zero' else self.ports[rif]), tmpl=tmpl, tag=f['tag'],
                               oneshot=False, enabled=True))
            self.order.append(len(self.r) - 1)
        elif k == 'enable':
            if not self.r[op[1]]['enabled']:
                self.r[op[1]]['enabled'] = True
                self.order.append(op[1])
        elif k in ('disable', 'free'):
            self._off(op[1])
        elif k == 'one_shot':
            self.r[op[1]]['oneshot'] = True
        elif k == 'set_func':
            self.r[op[1]]['tag'] = op[2]['tag']
            self.r[op[1]]['oneshot'] = False
        elif k == 'cmd_period':
            for i in list(self.order):
                self._off(i)
        elif k == 'dgram':
            try:
                msgs = read_packet(bytes.fromhex(op[1]))
            except Bad:
                return {'exact': [], 'matching': [], 'set': set()}
            exp = {'exact': [], 'matching': []}
            for tt, addr, args in msgs:
                for i in list(self.order):
                    r = self.r[i]
                    if not r['enabled']:
                        continue
                    if r['matching']:
                        if oscpattern.osc_match(addr, r['path']) is not True:
                            continue
                    elif addr != r['path']:
                        continue
                    if r['src'] is not None and (r['src'][0] != op[2][0] or (r['src'][1] is not None and r['src'][1] != op[2][1])):
                        continue
                    if r['port'] is not None and r['port'] != self.ports[op[3]]:
                        continue
                    if r['tmpl'] is not None and not self._tmpl(r['tmpl'], args):
                        continue
                    exp['matching' if r['matching'] else 'exact'].append((i, r['tag']))
                    exp.setdefault('carry', {})[(i, r['tag'], len([e for e in exp['exact'] + exp['matching'] if e == (i, r['tag'])]))] = \
                        (['now'] if tt in (None, 1) else ['tag', str(int(float(tt)))], op[2][0], op[2][1], self.ports[op[3]])
                    if r['oneshot']:
                        self._off(i)
            return exp
        return None

    def _off(self, i):
        if self.r[i]['enabled']:
            self.r[i]['enabled'] = False
            self.order.remove(i)

    @staticmethod
    def _tmpl(tmpl, args):
        for j, it in enumerate(tmpl):
            if it is None:
                continue
            if j >= len(args):
                return False
            if it[0] == 'pred':
                if not PREDS[it[1]](args[j]):
                    return False
            elif _dec(it[1]) != args[j]:                   # Python ==, as the template says "equal"
                return False
        return True


def check_history(ops, impl, ports):
    """-> None or (op index, text) for the first operation where the implementation's invocations
    are not the ones the property demands.  Exact dispatcher: same sequence.  Matching dispatcher:
    same multiset (its cross-path order is reported separately)."""
    fns = [op[6] for op in ops if op[0] == 'create'] + [op[2] for op in ops if op[0] == 'set_func']
    if any(f.get('share') or f.get('raises') for f in fns) or \
            any(isinstance(op[5], list) and ['pred', 'gt5raw'] in op[5] for op in ops if op[0] == 'create'):
        return None          # shared function objects / raising callbacks: no independent claim here
    ref = RefDispatch(ports)
    for n, (op, rec) in enumerate(zip(ops, impl)):
        log = rec['log'] if isinstance(rec, dict) else rec
        if op[0] == 'create' and op[1] == '' and log == ['OPERROR:IndexError']:
            continue
        exp = ref.op(op)
        marks = [x for x in log if isinstance(x, str)]
        if marks:
            return n, 'operation %s: %s' % (op[0], marks)
        if exp is None:
            continue
        got = [(x[0], x[1]) for x in log]
        kind = lambda rid: ref.r[rid]['matching']
        got_e = [g for g in got if not kind(g[0])]
        got_m = [g for g in got if kind(g[0])]
        if got_e != exp['exact']:
            return n, 'exact dispatcher invoked (responder, function) %s, the property demands %s' % (got_e, exp['exact'])
        # what each callable received beyond the message: the time of ITS bundle, the sender, the port
        seen = {}
        for x in log:
            if isinstance(x, str) or len(x) < 8:
                continue
            key0 = (x[0], x[1])
            seen[key0] = seen.get(key0, 0) + 1
            car = exp.get('carry', {}).get((x[0], x[1], seen[key0]))
            if car is None:
                continue
            import socket as _s, struct as _st
            ip = _st.unpack('>I', _s.inet_aton(car[1]))[0]
            if (x[7] >= 2 and x[3] != car[0]) or (x[7] >= 3 and (x[4], x[5]) != (ip, car[2])) or (x[7] >= 4 and x[6] != car[3]):
                return n, 'responder %d was handed time %s sender (%s, %s) port %s; the message was sent with time %s from (%s, %s) to port %s' % (
                    x[0], x[3], x[4], x[5], x[6], car[0], ip, car[2], car[3])
        if got_m != exp['matching']:
            return n, 'matching dispatcher invoked (responder, function) %s, the property demands %s (registration order)' % (got_m, exp['matching'])
    return None


def check_registry(hist, impl):
    """Reference for the callback registries written from the property text ("run exactly the actions
    currently registered, in registration order"): plain ordered dicts.  -> None or (op index, text)."""
    sa, sv, nc = {}, {}, {}
    removes = {int(k): v for k, v in hist.get('removes', {}).items()}
    key = lambda k: k if isinstance(k, str) else ('srv', k[1])
    for n, (op, got) in enumerate(zip(hist['ops'], impl)):
        k, exp = op[0], []
        if k == 'sa_add':
            sa[op[1]] = op[2]
        elif k == 'sa_remove':
            sa.pop(op[1], None)
        elif k == 'sa_remove_all':
            sa.clear()
        elif k == 'sa_run':
            for a in list(sa):
                if a in sa:
                    exp.append([a, sa[a]])
                    for b in removes.get(a, []):
                        sa.pop(b, None)
        elif k == 'sv_add':
            sv.setdefault(key(op[1]), {})[op[2]] = op[3]
        elif k == 'sv_remove':
            sv.get(key(op[1]), {}).pop(op[2], None)
        elif k == 'sv_remove_server':
            sv.pop(key(op[1]), None)
        elif k == 'sv_run':
            for kk in [('srv', op[1])] + (['default'] if op[1] == 0 else []) + ['all']:
                exp += [[a, x] for a, x in sv.get(kk, {}).items()]
        elif k == 'nc_register':
            nc.setdefault(op[1], {}).setdefault(op[2], {})[op[3]] = op[4]
        elif k == 'nc_unregister':
            try:
                del nc[op[1]][op[2]][op[3]]
            except KeyError:
                exp = [[0, 0]]
        elif k == 'nc_unregister_msg':
            try:
                del nc[op[1]][op[2]]
            except KeyError:
                exp = [[0, 0]]
        elif k == 'nc_unregister_obj':
            try:
                del nc[op[1]]
            except KeyError:
                exp = [[0, 0]]
        elif k == 'nc_notify':
            exp = [[l, a] for l, a in nc.get(op[1], {}).get(op[2], {}).items()]
        if [list(x) for x in got] != exp:
            return n, 'operation %s calls %s, the actions currently registered in registration order are %s' % (op, got, exp)
    return None
