"""Reference semantics for the INDIRECT users of TaskQueue (C09), built on the sorted-list
reference queue only (no sc3 import, no code shared with the Coq model).

What the property says of every time-ordered collection of the library: items come out in
non-decreasing time, first-in-first-out among equal times where a re-inserted item counts as
the most recent entry, each item at most once.

Scenario encodings (shared with harness/impl/c09_users.py; all numbers are Fraction strings):

clock scenario  {'kind': 'clock', 'clocks': [tempo, ...], 'tasks': [{'clock': ci, 'type': 'R'|'F',
                 'steps': [{'acts': [act, ...], 'ret': delta|None}, ...]}, ...],
                 'init': [act, ...], 'abort': bool}
    clock index -1 is SystemClock, 0.. are fresh TempoClocks; task j lives on ONE clock.
    act: ['sched', j, delta]     clock_of(j).sched(delta, task j)        (re-sched while pending = re-add)
         ['abs', j, k]           clock_of(j).sched_abs(floor(clock.beats) + k, task j)
         ['tempo', ci, value]    TempoClock ci .tempo = value            (pending tasks keep their beat)
         ['beats', ci, back]     TempoClock ci .beats = clock.beats - back   (back >= 0: tasks are postponed)
    wake-up k of a task runs steps[k] (log, acts, return/yield ret); a Routine that returned is dead.
    ret 'raise' / 'raiseB': the task raises RuntimeError / a BaseException that is not an Exception;
    ret 'inf' / 'nan' (and sched delta 'inf'): never (re)scheduled, the task stays alive.
    numbers: 'i:2' int, 'z:0' float -0.0, else Fraction string (explicit zeros of every kind).
    result: {'log': [[j, seconds], ...], 'left': live entries left in the scheduler}

score scenario  {'kind': 'score', 'tasks': [{'steps': [{'acts': [['bundle', latency|None, id], ...],
                 'ret': delta|None}]}], 'init': [['play', j, delta] | ['bundle', time|None, id]], 'tail': t}
    result: {'list': [[time, id|cmd], ...], 'raw': [[timetag/2^32, id|cmd], ...]}

ppar scenario   {'kind': 'ppar', 'tree': node, 'shared': [node, ...], 'nstreams': n, 'order': [stream index, ...]}
    node: ['bind', sid, [dur, ...]] | ['par', [node, ...]] | ['ref', k] (the SAME pattern object shared[k] again)
    n streams are made from the ONE root object and read in the given interleaving, then round robin to the end.
    (old form {'streams': [[dur, ...], ...]} = one stream of a Ppar of Pbinds)
    result: {'events': [[[sid, k, onset], ...] per stream]}
"""
from fractions import Fraction as _Fraction
from math import floor
from oracles.sorted_queue import SortedListQueue


def Fr(x):
    """numbers travel as strings: 'i:2' (int), 'z:0' (float -0.0) or a Fraction string"""
    if isinstance(x, str) and x[:2] in ('i:', 'z:'):
        x = x[2:]
    return _Fraction(x)


class RefClock:
    def __init__(self, tempo, now):
        self.tempo, self.bb, self.bs = Fr(tempo), Fr(0), Fr(now)

    def b2s(self, b):
        return (b - self.bb) / self.tempo + self.bs

    def s2b(self, s):
        return (s - self.bs) * self.tempo + self.bb


class RefSys:
    def b2s(self, b): return b
    def s2b(self, s): return s


def ref_clock(sc):
    """Wake-up log of a clock scenario under the reference queue semantics."""
    if sc.get('abort'):
        return {'log': [], 'left': 0}
    clocks = {-1: RefSys()}
    for i, t in enumerate(sc['clocks']):
        clocks[i] = RefClock(t, 0)
    tasks = sc['tasks']
    q, beat_of = SortedListQueue(), {}
    count, dead = [0] * len(tasks), [False] * len(tasks)
    log = []
    state = {'now': Fr(0)}

    def add(j, beats):
        beat_of[j] = beats
        q.add(clocks[tasks[j]['clock']].b2s(beats), j)      # re-add = most recent entry

    def retime(ci):
        for _, _, j in list(q.items):                       # in queue order: relative order is kept
            if tasks[j]['clock'] == ci:
                q.add(clocks[ci].b2s(beat_of[j]), j)

    def act(a):
        now = state['now']
        if a[0] == 'sched':
            if a[2] == 'inf':                                 # sched(inf, task): not scheduled, a pending wake-up stays
                return
            add(a[1], clocks[tasks[a[1]]['clock']].s2b(now) + Fr(a[2]))
        elif a[0] == 'abs':
            add(a[1], floor(clocks[tasks[a[1]]['clock']].s2b(now)) + Fr(a[2]))
        elif a[0] == 'tempo':
            c = clocks[a[1]]
            b = c.s2b(now)
            c.bs, c.bb, c.tempo = c.b2s(b), b, Fr(a[2])
            retime(a[1])
        elif a[0] == 'beats':
            c = clocks[a[1]]
            b = c.s2b(now) - Fr(a[2])
            c.bs, c.bb = now, b
            retime(a[1])

    for a in sc['init']:
        act(a)
    guard = 0
    while not q.empty() and guard < 5000:
        guard += 1
        t, j = q.pop()
        state['now'] = t
        beats = clocks[tasks[j]['clock']].s2b(t)
        k = count[j]
        steps = tasks[j]['steps']
        if dead[j] or k >= len(steps):
            if tasks[j]['type'] == 'R':
                dead[j] = True
            continue
        count[j] += 1
        log.append([j, str(t)])
        for a in steps[k]['acts']:
            act(a)
        ret = steps[k]['ret']
        if ret is None or ret in ('raise', 'raiseB'):       # an error in a task ends it, nobody else is disturbed
            if tasks[j]['type'] == 'R':
                dead[j] = True
        elif ret not in ('inf', 'nan'):                       # answering inf or nan = never rescheduled (the task stays alive)
            add(j, beats + Fr(ret))
    return {'log': log, 'left': 0}


def ref_score(sc):
    """Rendered score: (time, send order) sorted; root node first, tail marker last."""
    tasks = sc['tasks']
    q = SortedListQueue()                                    # the scheduler (SystemClock)
    score = SortedListQueue()                                # the score
    n = [0]

    def put(t, mark):
        score.add(t, ('b', n[0], mark)); n[0] += 1

    put(Fr(0), '/g_new')
    count = [0] * len(tasks)
    now = Fr(0)
    for a in sc['init']:
        if a[0] == 'play':
            q.add(Fr(a[2]), a[1])
        else:                                                # outside a routine: absolute time
            t = Fr(a[1]) if a[1] is not None else Fr(0)
            put(max(t, Fr(0)), a[2])
    while not q.empty():
        now, j = q.pop()
        k = count[j]
        steps = tasks[j]['steps']
        if k >= len(steps):
            continue
        count[j] += 1
        for a in steps[k]['acts']:                           # inside a routine: now + max(latency, 0)
            lat = Fr(a[1]) if a[1] is not None else Fr(0)
            put(now + max(lat, Fr(0)), a[2])
        if steps[k]['ret'] is not None:
            q.add(now + Fr(steps[k]['ret']), j)
    last = score.peek(False)[0]
    put(max(now + Fr(sc['tail']), last), '/c_set')
    return [[str(t), m[2]] for t, m in score]


def ppar_tree(sc):
    return sc['tree'] if 'tree' in sc else ['par', [['bind', i, d] for i, d in enumerate(sc['streams'])]]


def _ref_embed(node, sc):
    """events of ONE stream of a pattern: dicts sid, k, delta, rest.  A Ppar merges its children with a queue of
    its own (one per stream): earliest child first, FIFO among equal times, a child is re-queued at now + delta."""
    if node[0] == 'bind':
        for k, d in enumerate(node[2]):
            yield {'sid': node[1], 'k': k, 'delta': Fr(d), 'rest': False}
        return
    if node[0] == 'ref':                                    # the same pattern OBJECT again: a new, independent stream
        yield from _ref_embed(sc['shared'][node[1]], sc)
        return
    kids = [_ref_embed(c, sc) for c in node[1]]
    q = SortedListQueue()
    for i in range(len(kids)):
        q.add(Fr(0), i)
    now = Fr(0)
    while not q.empty():
        _, i = q.pop()
        ev = next(kids[i], None)
        if ev is None:                                      # that child ended: rest until the next one
            if not q.empty():
                nxt = q.peek()[0]
                yield {'sid': None, 'k': None, 'delta': nxt - now, 'rest': True}
                now = nxt
            continue
        q.add(now + ev['delta'], i)
        nxt = q.peek()[0]
        yield dict(ev, delta=nxt - now)
        now = nxt


def ref_ppar(sc):
    t, out = Fr(0), []
    for ev in _ref_embed(ppar_tree(sc), sc):
        if not ev['rest']:
            out.append([ev['sid'], ev['k'], str(t)])
        t += ev['delta']
    if 'tree' in sc or sc.get('nstreams', 1) > 1:
        return [out for _ in range(sc.get('nstreams', 1))]  # every stream of the object is the same merge
    return out


def judge_clock(sc, res):
    """None or (clause, text) for a clock scenario result."""
    exp = ref_clock(sc)
    log = res.get('log')
    if log is None:
        return ('other', 'runner error: %s' % res.get('error'))
    if any(t in ('nan', 'inf', '-inf') for _, t in log):
        return ('order', 'a task woke at a logical time that is not a number: %s' % log)
    times = [Fr(t) for _, t in log]
    if any(a > b for a, b in zip(times, times[1:])):
        return ('order', 'wake-up times decrease: %s' % log)
    if log != exp['log']:
        i = next((i for i, (a, b) in enumerate(zip(log, exp['log'])) if a != b), min(len(log), len(exp['log'])))
        if sorted(map(tuple, log)) == sorted(map(tuple, exp['log'])):
            clause = 'fifo-on-ties'
        elif len(log) < len(exp['log']):
            clause = 'empty'
        else:
            clause = 'at-most-once' if len(log) > len(exp['log']) else 're-add'
        return (clause, 'wake-ups depart from the reference at position %d: woke %s, expected %s' % (i, log, exp['log']))
    if res.get('stale'):
        w = res['stale'][0]
        return ('iter', 'a pending wake-up sits in the queue at a time that is not the time of the beat its entry carries: task %s '
                'queued at %s s but its beat is at %s s (seen at wake-up %s); log %s' % (w[0], w[1], w[2], w[3], log))
    if res.get('left', 0) != 0:
        return ('empty', 'scheduler loop ended with %s live entries left' % res.get('left'))
    return None


def judge_score(sc, res):
    exp = ref_score(sc)
    lst, raw = res.get('list'), res.get('raw')
    if lst is None:
        return ('other', 'runner error: %s' % res.get('error'))
    lt, rt = [Fr(t) for t, _ in lst], [Fr(t) for t, _ in raw]
    if any(a > b for a, b in zip(rt, rt[1:])):
        return ('order', 'timetags of the rendered score decrease: %s' % raw)
    if any(a > b for a, b in zip(lt, lt[1:])):
        return ('order', 'times of the score list decrease: %s' % lst)
    if res.get('mutated'):
        return ('other', 'the caller\'s message lists were modified in place: ids %s' % res['mutated'])
    if lst != raw:
        return ('iter', 'queue position (list view) and timetag of the bundle disagree: list %s raw %s' % (lst, raw))
    if lst != exp:
        same = sorted(map(repr, lst)) == sorted(map(repr, exp))
        fewer = len(lst) < len(exp)
        return ('fifo-on-ties' if same else 'at-most-once' if fewer else 'order',
                'score is %s, expected %s%s' % (lst, exp, ' (entries are missing: equal-looking bundles collapsed?)' if fewer else ''))
    return None


def judge_ppar(sc, res):
    exp = ref_ppar(sc)
    ev = res.get('events')
    if ev is None:
        return ('other', 'runner error: %s' % res.get('error'))
    many = 'tree' in sc or sc.get('nstreams', 1) > 1
    for n, (e, x) in enumerate(zip(ev, exp) if many else [(ev, exp)]):
        ts = [Fr(t) for _, _, t in e]
        who = 'stream %d of %d of one pattern object: ' % (n, len(ev)) if many else ''
        if any(a > b for a, b in zip(ts, ts[1:])):
            return ('order', '%sPpar onsets decrease: %s' % (who, e))
        if e != x:
            same = sorted(map(repr, e)) == sorted(map(repr, x))
            return ('fifo-on-ties' if same else 'at-most-once', '%sPpar events %s, expected %s' % (who, e, x))
    if not res.get('ended', True):
        return ('empty', 'Ppar stream did not end: %s' % ev)
    return None


JUDGES = {'clock': judge_clock, 'score': judge_score, 'ppar': judge_ppar}
