"""Independent reference: a direct recursive OSC 1.0 address-pattern matcher.

OSC 1.0: pattern and address have the same number of '/'-separated parts and every part
matches: '?' any one character, '*' any sequence of zero or more characters, '[..]' one of the
listed characters (a-b ranges, leading '!' negates, a '-' just before ']' is literal),
'{foo,bar}' one of the comma-separated strings, anything else itself.  A part never contains
'/', so the wildcards never match '/'.  Shares no code with the Coq model or with sc3.
Returns True/False, or None when the pattern is not a well-formed OSC 1.0 pattern
(unbalanced/nested brackets or braces, stray ']' '}' ',' '!' inside nothing are literals except
the structural ones)."""


class IllFormed(Exception):
    pass


def _parse_class(p, i):
    # p[i] is the char after '['
    neg = False
    if i < len(p) and p[i] == '!':
        neg = True
        i += 1
    items = []
    while True:
        if i >= len(p):
            raise IllFormed('unterminated [')
        c = p[i]
        if c == ']':
            if not items:
                raise IllFormed('empty []')
            return neg, items, i + 1
        if c in '[{}*?,/':
            raise IllFormed('metacharacter inside []')
        if i + 2 < len(p) and p[i + 1] == '-' and p[i + 2] != ']':
            hi = p[i + 2]
            if hi in '[{}*?,/' or ord(hi) < ord(c):
                raise IllFormed('bad range')
            items.append((c, hi))
            i += 3
        elif i + 2 < len(p) and p[i + 1] == '-' and p[i + 2] == ']':
            items.append((c, c))      # "a-]" : the '-' is discarded
            i += 2
        else:
            if c == '-' and not items:
                raise IllFormed('leading -')
            items.append((c, c))
            i += 1


def _parse_alts(p, i):
    alts, cur = [], ''
    while True:
        if i >= len(p):
            raise IllFormed('unterminated {')
        c = p[i]
        if c == '}':
            alts.append(cur)
            return alts, i + 1
        if c == ',':
            alts.append(cur)
            cur = ''
        elif c in '[]{*?/':
            raise IllFormed('metacharacter inside {}')
        else:
            cur += c
        i += 1


def _m(p, i, a, j):
    if i == len(p):
        return j == len(a)
    c = p[i]
    if c == '*':
        k = j
        while True:
            if _m(p, i + 1, a, k):
                return True
            if k < len(a) and a[k] != '/':
                k += 1
            else:
                return False
    if c == '?':
        return j < len(a) and a[j] != '/' and _m(p, i + 1, a, j + 1)
    if c == '[':
        neg, items, nxt = _parse_class(p, i + 1)
        if j >= len(a):
            return False
        hit = any(lo <= a[j] <= hi for lo, hi in items)
        if neg:
            ok = (not hit) and a[j] != '/'
        else:
            ok = hit
        return ok and _m(p, nxt, a, j + 1)
    if c == '{':
        alts, nxt = _parse_alts(p, i + 1)
        return any(a.startswith(w, j) and _m(p, nxt, a, j + len(w)) for w in alts)
    if c in ']},':
        raise IllFormed('stray ' + c)
    return j < len(a) and a[j] == c and _m(p, i + 1, a, j + 1)


def wellformed(p):
    try:
        i = 0
        while i < len(p):
            c = p[i]
            if c == '[':
                _, _, i = _parse_class(p, i + 1)
            elif c == '{':
                _, i = _parse_alts(p, i + 1)
            elif c in ']},':
                return False
            else:
                i += 1
        return True
    except IllFormed:
        return False


def osc_match(pattern, address):
    """True/False for a well-formed pattern, None otherwise."""
    if not wellformed(pattern):
        return None
    return _m(pattern, 0, address, 0)
