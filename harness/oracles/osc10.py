"""Independent OSC 1.0 decoder, written from the OSC 1.0 specification
(opensoundcontrol.org/spec-1_0), not from sc3/base/_osclib.py.  Used only by
search() of C06 to look for a concrete failing input on the implementation.

Strict: every size must be a multiple of 4, padding bytes must be NUL, an OSC-string has
1..4 terminating NULs, the address starts with '/', the type tag string with ',',
array brackets balance, and no byte is left over.  The only liberty taken is that
OSC-strings may hold bytes >= 0x80 (UTF-8), as sc3 documents.

decode(b) -> ('msg', address_bytes, [arg...]) | ('bundle', timetag_int, [element...])
arg      -> ('i', int) | ('f', 4 bytes) | ('s', bytes) | ('b', bytes) | ('d', 8 bytes)
            | ('h', int) | ('t', int) | ('T',) | ('F',) | ('N',) | ('I',) | ('a', [arg...])
"""


class Osc10Error(Exception):
    pass


def _need(cond, what):
    if not cond:
        raise Osc10Error(what)


def _string(b, pos):
    end = b.find(b'\x00', pos)
    _need(end >= 0, 'OSC-string without terminating NUL at %d' % pos)
    nxt = (end + 4) & ~3          # first multiple of 4 strictly greater than end  (pos is aligned)
    _need(pos % 4 == 0, 'OSC-string not aligned at %d' % pos)
    _need(nxt <= len(b), 'OSC-string padding runs past the end')
    _need(b[end:nxt] == b'\x00' * (nxt - end), 'OSC-string padding is not NUL')
    return b[pos:end], nxt


def _int32(b, pos):
    _need(pos + 4 <= len(b), 'int32 runs past the end')
    return int.from_bytes(b[pos:pos + 4], 'big', signed=True), pos + 4


def _blob(b, pos):
    n, pos = _int32(b, pos)
    _need(n >= 0, 'negative blob size')
    end = pos + n
    nxt = (end + 3) & ~3
    _need(nxt <= len(b), 'blob runs past the end')
    _need(b[end:nxt] == b'\x00' * (nxt - end), 'blob padding is not NUL')
    return b[pos:end], nxt


def decode_message(b):
    _need(len(b) % 4 == 0, 'message size is not a multiple of 4')
    addr, pos = _string(b, 0)
    _need(addr[:1] == b'/', "address pattern does not begin with '/'")
    tags, pos = _string(b, pos)
    _need(tags[:1] == b',', "type tag string does not begin with ','")
    stack = [[]]
    for t in tags[1:].decode('latin-1'):
        if t == 'i':
            v, pos = _int32(b, pos)
            stack[-1].append(('i', v))
        elif t == 'f':
            _need(pos + 4 <= len(b), 'float32 runs past the end')
            stack[-1].append(('f', b[pos:pos + 4]))
            pos += 4
        elif t in 'sS':
            v, pos = _string(b, pos)
            stack[-1].append(('s', v))
        elif t == 'b':
            v, pos = _blob(b, pos)
            stack[-1].append(('b', v))
        elif t == 'd':
            _need(pos + 8 <= len(b), 'float64 runs past the end')
            stack[-1].append(('d', b[pos:pos + 8]))
            pos += 8
        elif t in 'ht':
            _need(pos + 8 <= len(b), 'int64 runs past the end')
            stack[-1].append((t, int.from_bytes(b[pos:pos + 8], 'big', signed=(t == 'h'))))
            pos += 8
        elif t in 'crm':
            _need(pos + 4 <= len(b), '32-bit argument runs past the end')
            stack[-1].append((t, b[pos:pos + 4]))
            pos += 4
        elif t in 'TFNI':
            stack[-1].append((t,))
        elif t == '[':
            stack.append([])
        elif t == ']':
            _need(len(stack) > 1, "']' without '['")
            a = stack.pop()
            stack[-1].append(('a', a))
        else:
            raise Osc10Error('unknown type tag %r' % t)
    _need(len(stack) == 1, "'[' without ']'")
    _need(pos == len(b), '%d bytes left over after the arguments' % (len(b) - pos))
    return ('msg', addr, stack[0])


def decode_bundle(b):
    _need(len(b) % 4 == 0, 'bundle size is not a multiple of 4')
    _need(b[:8] == b'#bundle\x00', 'bundle does not begin with "#bundle"')
    _need(len(b) >= 16, 'bundle without time tag')
    tt = int.from_bytes(b[8:16], 'big')
    pos = 16
    elems = []
    while pos < len(b):
        n, pos = _int32(b, pos)
        _need(n >= 0 and n % 4 == 0, 'bundle element size %d is not a non-negative multiple of 4' % n)
        _need(pos + n <= len(b), 'bundle element runs past the end')
        elems.append(decode(b[pos:pos + n]))
        pos += n
    return ('bundle', tt, elems)


def decode(b):
    b = bytes(b)
    _need(len(b) > 0, 'empty packet')
    if b[:1] == b'#':
        return decode_bundle(b)
    return decode_message(b)
