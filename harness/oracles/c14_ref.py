"""C14 oracle: a direct recomputation, with exact Fractions, of the documented event chains and of
the timeline of simple event-pattern compositions.  Written from the class documentation /
SuperCollider's Event semantics, shares no code with coq/model/Event.v.  Used (a) to tell the
implementation runner at which exact arguments midicps/cpsmidi/dbamp/ampdb will be needed and
(b) by search() to look for a concrete failing input on the implementation.

val = ['I', n] | ['F', 'n/d'] | ['R', 'n/d'] | ['S', s] | ['B', b]
"""
import heapq
import itertools
import math
from fractions import Fraction as Fr

LEGATO = Fr(0.8)
AMP = Fr(0.1)
MAJOR = {'degrees': [0, 2, 4, 5, 7, 9, 11], 'steps': [str(Fr(i)) for i in range(12)], 'oct': '2/1'}
CONTROLS = {
    'c14a': ['freq', 'amp', 'gate', 'pan'],
    'c14b': ['freq', 'amp', 'pan', 'cutoff'],
    'c14c': ['out', 'freq', 'sustain', 'gate', 'detune', 'dur', 'legato'],
}


def q(v):
    return Fr(v[1])


# Server Command Reference, /s_new: add action 0 head, 1 tail, 2 before, 3 after, 4 replace; SuperCollider's Node.addActions
SCR_ACTION = {'head': 0, 'tail': 1, 'before': 2, 'after': 3, 'replace': 4}


def action_of(v):
    """the add action number of any accepted spelling"""
    if v is None:
        return 0
    if v[0] == 'S':
        n = v[1]
        if n.startswith('addTo'): n = n[5:].lower()
        elif n.startswith('add'): n = n[3:].lower()
        for word, num in SCR_ACTION.items():
            if n == word or n == word[0]:
                return num
        return None
    return int(Fr(v[1]))


def is_rest(v):
    return v[0] == 'R'


def getq(keys, k, default):
    return q(keys[k]) if k in keys else Fr(default)


def log2_exact(x):
    """log2 of an octave ratio that is a power of two (the only ones the generator uses)"""
    l = math.log2(float(x))
    assert l == int(l)
    return Fr(int(l))


def degree_to_key(scale, degree):
    degs = scale['degrees']
    l = len(degs)
    spo = log2_exact(Fr(scale['oct'])) * len(scale['steps'])
    octave = math.floor(degree / l)
    idx = int(degree) % l          # int() truncates, as the code does; equal to floor for integral degrees
    return spo * octave + degs[idx]


def pitch(keys, scale):
    """forward chain only: note, midinote, and the argument/result structure of freq"""
    scale = scale or MAJOR
    spo = log2_exact(Fr(scale['oct'])) * len(scale['steps'])
    lg = log2_exact(Fr(scale['oct']))
    out = {'points': {'midicps': [Fr(60)], 'cpsmidi': []}}
    has = lambda k: k in keys

    def from_key(key):
        r = key + getq(keys, 'gtranspose', 0) + getq(keys, 'root', 0)
        r = r / spo + getq(keys, 'octave', 5) - 5
        return r * (12 * lg) + 60
    note = None
    if has('note'):
        note = q(keys['note'])
    elif has('degree'):
        note = degree_to_key(scale, q(keys['degree']) + getq(keys, 'mtranspose', 0))
    elif not has('freq') and not has('midinote'):
        note = degree_to_key(scale, Fr(0) + getq(keys, 'mtranspose', 0))
    out['note'] = note
    midinote = None
    if has('midinote'):
        midinote = q(keys['midinote'])
    elif has('note') or has('degree'):
        midinote = from_key(note)
    elif not has('freq'):
        midinote = Fr(60)
    out['midinote'] = midinote
    # freq = midicps(midinote + ctranspose) (sc3: no ctranspose when only 'degree' is given)
    if has('freq'):
        out['freq_arg'] = None
        det = q(keys['freq']) * getq(keys, 'harmonic', 1) + getq(keys, 'detune', 0)
        out['points']['cpsmidi'].append(det)
    elif has('midinote') or has('note'):
        out['freq_arg'] = midinote + getq(keys, 'ctranspose', 0)
    elif has('degree'):
        out['freq_arg'] = midinote
    else:
        out['freq_arg'] = Fr(60)
    if out['freq_arg'] is not None:
        out['points']['midicps'].append(out['freq_arg'])
    return out


def amp_points(keys):
    pts = {'dbamp': [], 'ampdb': []}
    if 'db' in keys:
        pts['dbamp'].append(q(keys['db']))
    if 'amp' in keys:
        pts['ampdb'].append(q(keys['amp']))
    if 'velocity' in keys:
        pts['ampdb'].append(q(keys['velocity']) / 127)
    return pts


def durations(keys):
    dur = getq(keys, 'dur', 1)
    stretch = getq(keys, 'stretch', 1)
    legato = getq(keys, 'legato', LEGATO)
    delta = q(keys['delta']) if 'delta' in keys else dur * stretch
    sustain = q(keys['sustain']) if 'sustain' in keys else dur * legato * stretch
    return delta, sustain


def points_for_keys(keys, scale):
    keys = {k: v for k, v in keys.items() if v[0] in ('I', 'F', 'R', 'B')}
    p = pitch(keys, scale)['points']
    p.update(amp_points(keys))
    return {k: sorted({'%d/%d' % (x.numerator, x.denominator) for x in v}) for k, v in p.items()}


# ------------------------------------------------------------------------------ patterns
def _vals(vs, n):
    return [vs[1]] * n if vs[0] == 'rep' else list(vs[1])


def _bind_events(kvs, inputs, limit):
    """Pbind: one event per input event until the shortest value list ends"""
    lens = [len(vs[1]) for _, vs in kvs if vs[0] == 'seq']
    n = min(lens) if lens else limit
    n = min(n, len(inputs))
    out = []
    for i in range(n):
        e = dict(inputs[i])
        for k, vs in kvs:
            e[k] = vs[1] if vs[0] == 'rep' else vs[1][i]
        out.append(e)
    return out


def rest_event(dur, proto):
    e = dict(proto)
    stretch = q(proto['stretch']) if 'stretch' in proto else Fr(1)
    e['delta'] = ['F', str(dur * stretch)]
    e['dur'] = ['R', str(dur)]
    return e


def ev_delta(e):
    return durations({k: v for k, v in e.items() if not k.startswith('_') and v[0] in ('I', 'F', 'R', 'B')})[0]


def events(tree, inputs, limit=64):
    """the finite list of events a pattern yields for the given input events (documented meaning)"""
    k = tree[0]
    if k == 'bind':
        return _bind_events(tree[1], inputs, limit)
    if k == 'mono':
        evs = _bind_events(tree[2], inputs, limit)
        tag = object()
        for i, e in enumerate(evs):
            e['_mono'] = (tag, i, tree[1], len(evs))
        return evs
    if k == 'chain':
        cur = list(inputs)
        for t in reversed(tree[1]):
            cur = events(t, cur, limit)
        return cur
    if k == 'delta':
        t = q(tree[1])
        if t > 0:        # the rest consumes one input event, the pattern starts with the next one
            return [rest_event(t, inputs[0])] + events(tree[2], inputs[1:], limit)
        return events(tree[2], inputs, limit)
    if k == 'durq':
        import math as _m
        total, tol, quant = q(tree[1]), q(tree[2]), (None if tree[3] is None else q(tree[3]))
        out, elapsed = [], Fr(0)
        for e in events(tree[4], inputs, limit):
            d = ev_delta(e)
            ne = elapsed + d
            reached = (ne >= total) if tol == 0 else (_m.ceil(ne / tol) * tol >= total)
            if reached:
                e = dict(e); e['delta'] = ['F', str(total - elapsed)]; e['_cut'] = True
                out.append(e)
                return out
            elapsed = ne
            out.append(e)
        if quant is not None and quant > 0:
            pad = _m.ceil(elapsed / quant) * quant - elapsed      # up to the next multiple of quant
            if pad > 0:
                r = rest_event(pad, inputs[min(len(out), len(inputs) - 1)])
                r['delta'] = ['F', str(pad)]
                out.append(r)
        return out
    if k == 'dur':
        total = q(tree[1])
        out, elapsed = [], Fr(0)
        for e in events(tree[2], inputs, limit):
            d = ev_delta(e)
            if elapsed + d >= total:
                e = dict(e)
                e['delta'] = ['F', str(total - elapsed)]
                e['_cut'] = True
                out.append(e)
                return out
            elapsed += d
            out.append(e)
        return out
    if k in ('seq', 'pn'):
        if k == 'seq':
            lst = tree[1]
            o = tree[3] % len(lst)
            items = (lst[o:] + lst[:o]) * tree[2]
        else:
            items = [tree[1]] * tree[2]
        out, pos = [], 0
        for t in items:                    # one after the other; each starts from the player's input event
            evs = events(t, inputs[pos:], limit)
            out += evs
            pos += len(evs)
        return out
    if k == 'par':
        children = [events(t, inputs, limit) for t in tree[1]]
        heap, cnt = [], itertools.count()
        for i in range(len(children)):
            heapq.heappush(heap, (Fr(0), next(cnt), i))
        pos = [0] * len(children)
        out, now = [], Fr(0)
        while heap:
            t, _, i = heapq.heappop(heap)
            if pos[i] < len(children[i]):
                e = dict(children[i][pos[i]])
                pos[i] += 1
                heapq.heappush(heap, (now + ev_delta(e), next(cnt), i))
                nxt = heap[0][0]
                e['delta'] = ['F', str(nxt - now)]
                out.append(e)
                now = nxt
            elif heap:
                nxt = heap[0][0]
                r = rest_event(nxt - now, inputs[0])
                r['delta'] = ['F', str(nxt - now)]      # the gap, whatever stretch the input event carries
                out.append(r)
                now = nxt
        return out
    raise ValueError(tree)


def expected_score(case):
    """[(time, cmd, name|None, params as [(key, Fraction|('midicps', arg))]), ...] sorted by time"""
    proto = case.get('proto', {})
    lat = Fr(case.get('latency', '0/1'))
    t = Fr(case.get('start', '0/1'))
    out = []
    evs = events(case['pat'], [proto] * 64)
    mono_live = {}
    for e in evs:
        keys = {k: v for k, v in e.items() if not k.startswith('_')}
        rest = any(is_rest(v) for v in keys.values())
        delta, sustain = durations({k: v for k, v in keys.items() if v[0] in ('I', 'F', 'R', 'B')})
        if not rest:
            instr = e['_mono'][2] if '_mono' in e else (keys['instrument'][1] if 'instrument' in keys else 'default')
            ctl = CONTROLS.get(instr, [])
            numeric = {k: v for k, v in keys.items() if v[0] in ('I', 'F', 'B')}
            p = pitch(numeric, None)
            if 'freq' in numeric:
                freq = q(numeric['freq']) * getq(numeric, 'harmonic', 1) + getq(numeric, 'detune', 0)
            else:
                freq = ('midicps', p['freq_arg'], getq(numeric, 'harmonic', 1), getq(numeric, 'detune', 0))
            gated = 'gate' in ctl
            if 'send_gate' in keys and keys['send_gate'][0] in ('B', 'I', 'F'):
                gated = bool(Fr(keys['send_gate'][1]))      # an explicit send_gate wins over the instrument's gate
            names = [c for c in ctl if c != 'gate' and (c == 'freq' or c in numeric)]
            params = [(c, freq if c == 'freq' else q(numeric[c])) for c in names]
            head = [('#action', Fr(action_of(keys.get('add_action')))), ('#group', q(keys['group']) if 'group' in keys else Fr(1))]
            if '_mono' in e:
                tag, i, _, n = e['_mono']
                if i == 0:
                    mono_live[tag] = names
                    out.append((t + lat, 's_new', instr, head + params))
                else:
                    out.append((t + lat, 'n_set', None,
                                [(c, freq if c == 'freq' else q(numeric[c])) for c in mono_live.get(tag, names)]))
            else:
                out.append((t + lat, 's_new', instr, head + params))
                if gated:
                    out.append((t + lat + max(sustain, -lat) if lat + sustain < 0 else t + lat + sustain,
                                'n_set', None, [('gate', Fr(0))]))
        t += delta
        if '_mono' in e and (e['_mono'][1] == e['_mono'][3] - 1 or e.get('_cut')):
            gated = 'gate' in CONTROLS.get(e['_mono'][2], [])
            out.append((t + lat, 'n_set' if gated else 'n_free', None, [('gate', Fr(0))] if gated else []))
    out.sort(key=lambda r: r[0])
    return out, t


def midicps_points(tree, proto):
    """every exact midicps argument a pattern case can need (midinote values and degrees of the
    default scale, no transpositions: the generator does not use them inside patterns)"""
    pts = {Fr(60)}

    def vals_of(kvs):
        for k, vs in kvs:
            for v in ([vs[1]] if vs[0] == 'rep' else vs[1]):
                if v[0] in ('I', 'F'):
                    if k == 'midinote':
                        pts.add(q(v))
                    if k == 'degree':
                        pts.add(60 + degree_to_key(MAJOR, q(v)))

    def walk(t):
        if t[0] == 'bind': vals_of(t[1])
        elif t[0] == 'mono': vals_of(t[2])
        elif t[0] in ('chain', 'par', 'seq'):
            for c in t[1]: walk(c)
        elif t[0] == 'pn': walk(t[1])
        elif t[0] == 'durq': walk(t[4])
        else: walk(t[2])
    walk(tree)
    vals_of([[k, ['rep', v]] for k, v in proto.items()])
    return sorted('%d/%d' % (x.numerator, x.denominator) for x in pts)
